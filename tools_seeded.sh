#!/bin/bash
# usage: tools_seeded.sh <tag> "<PID> [<PID>...]"  — applies /verif/seeded/<tag>/patch.diff (or /tmp/seeded/<tag>) to /repo,
# runs the given quick checks (rebuilding the harness), reverts /repo, prints a one-line verdict per check.
tag="$1"; props="$2"; tier="${3:-quick}"
dir=/verif/seeded/$tag; [ -f $dir/patch.diff ] || dir=/tmp/seeded/$tag
cd /repo || exit 2
if ! git diff --quiet; then echo "repo dirty, abort"; exit 2; fi
git apply $dir/patch.diff || { echo "patch does not apply"; exit 2; }
# evidence written while a seeded change is applied must never be kept
rm -rf /verif/target/evidence.keep; cp -r /verif/evidence /verif/target/evidence.keep
first=1
for p in $props; do
  if [ $first = 1 ]; then out=$(/verif/check $p --tier $tier 2>&1); rc=$?; first=0; else out=$(/verif/check $p --tier $tier --no-build 2>&1); rc=$?; fi
  nv=$(echo "$out" | grep -c "^VIOLATION")
  echo "SEEDED $tag $p tier=$tier rc=$rc violations=$nv $(echo "$out" | grep -E "^\[$p\]" | cut -c1-140)"
  echo "$out" | grep -E "^VIOLATION|signature:" | head -6 | cut -c1-220
  mkdir -p /verif/logs/seeded; echo "$out" > /verif/logs/seeded/$tag-$p.log
done
git checkout -- . ; git status --short | head -3
rm -rf /verif/evidence; mv /verif/target/evidence.keep /verif/evidence
# restore the harness binary for the unchanged tree
cd /verif/harness && cargo build --release 2>&1 | grep -E "^error" | head -3
