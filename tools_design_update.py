#!/usr/bin/env python3
"""Regenerates the generated parts of DESIGN.md: the findings tables of section 8 (from
known_findings.json) and the seeded-change table of section 10 (from seeded/*/meta.json)."""
import json, os, subprocess, glob, re
ROOT = os.path.dirname(os.path.abspath(__file__))
d = open(os.path.join(ROOT, "DESIGN.md")).read()
tables = subprocess.run(["python3", os.path.join(ROOT, "tools_findings_table.py")], capture_output=True, text=True).stdout
a = d.index("### 8.1 Repaired defects")
b = d.index("## 9. False alarms")
d = d[:a] + tables + "\n---------------------------------------------------------------------------\n\n" + d[b:]
def esc(s, n=400):
    s = str(s).replace("|", "\\|").replace("\n", " ")
    return s if len(s) <= n else s[: n - 1] + "…"
rows = []
for m in sorted(glob.glob(os.path.join(ROOT, "seeded", "*", "meta.json"))):
    tag = os.path.basename(os.path.dirname(m))
    j = json.load(open(m))
    rows.append("| %s | %s | %s | %s | %s | %s |" % (tag, j.get("property", ""), esc(j.get("title", ""), 160), esc(j.get("what_it_needs_to_manifest", ""), 300), esc("; ".join(j.get("caught_by", [])) or "—", 330), esc("; ".join(j.get("missed_by", [])) or "—", 200)))
table = "| change | property | what was changed | what it needs to manifest | caught by | not caught by |\n|---|---|---|---|---|---|\n" + "\n".join(rows) + "\n"
a = d.index("<!-- SEEDED-TABLE-BEGIN -->") + len("<!-- SEEDED-TABLE-BEGIN -->\n")
b = d.index("<!-- SEEDED-TABLE-END -->")
d = d[:a] + table + d[b:]
open(os.path.join(ROOT, "DESIGN.md"), "w").write(d)
print("DESIGN.md updated:", len(rows), "seeded changes")
