#!/usr/bin/env python3
"""usage: tools_store_seed.py <tag> --verified "<text>" --caught "C08 quick;..." --missed "..." [--note "..."]
copies /tmp/seeded/<tag>/* to /verif/seeded/<tag>/ and completes meta.json"""
import sys, json, os, shutil, argparse
ap = argparse.ArgumentParser()
ap.add_argument('tag'); ap.add_argument('--verified', required=True); ap.add_argument('--caught', default=''); ap.add_argument('--missed', default=''); ap.add_argument('--note', default='')
a = ap.parse_args()
src = f'/tmp/seeded/{a.tag}'; dst = f'/verif/seeded/{a.tag}'
os.makedirs(dst, exist_ok=True)
for f in os.listdir(src):
    if os.path.isfile(os.path.join(src, f)):
        shutil.copy(os.path.join(src, f), os.path.join(dst, f))
m = json.load(open(os.path.join(dst, 'meta.json')))
log = f'/verif/logs/verify/{a.tag}.log'
ver = a.verified
if os.path.exists(log):
    ver += ' | tools_verify_seed.sh in /tmp/wt-verify: ' + ' ; '.join(l.strip() for l in open(log) if l.startswith('VERIFY'))
m['verified_by_me'] = ver
m['caught_by'] = [x.strip() for x in a.caught.split(';') if x.strip()]
m['missed_by'] = [x.strip() for x in a.missed.split(';') if x.strip()]
if a.note: m['note'] = a.note
json.dump(m, open(os.path.join(dst, 'meta.json'), 'w'), indent=1)
print('stored', dst, sorted(os.listdir(dst)))
