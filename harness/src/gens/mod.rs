pub mod prog;
pub mod textgen;
