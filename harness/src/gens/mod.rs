pub mod textgen;
