pub mod prog;
pub mod refint;
pub mod textgen;
pub mod sumgen;
pub mod shadow;
