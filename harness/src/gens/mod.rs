pub mod prog;
pub mod refint;
pub mod textgen;
