//! TextGen — shared text generators for the front-end properties (C04, C13).

use crate::engine::tape::Gen;
use std::sync::OnceLock;

/// Every `*.mmm` shipped with the repository (read live, sorted: deterministic).
pub fn corpus() -> &'static Vec<(String, String)> {
    static C: OnceLock<Vec<(String, String)>> = OnceLock::new();
    C.get_or_init(|| {
        let mut files = vec![];
        for root in ["/repo/lib", "/repo/examples", "/repo/crates/lib/mimium-test/tests/mmm", "/repo/crates/bin/mimium-fmt/tests"] {
            walk(std::path::Path::new(root), &mut files);
        }
        files.sort();
        files.into_iter().filter_map(|p| std::fs::read_to_string(&p).ok().map(|s| (p, s))).collect()
    })
}

fn walk(dir: &std::path::Path, out: &mut Vec<String>) {
    let Ok(rd) = std::fs::read_dir(dir) else { return };
    for e in rd.flatten() {
        let p = e.path();
        if p.is_dir() {
            walk(&p, out);
        } else if p.extension().map(|x| x == "mmm").unwrap_or(false) {
            out.push(p.to_string_lossy().to_string());
        }
    }
}

/// 24-symbol character alphabet for exhaustive short strings.
pub const CHAR_ALPHABET: [&str; 24] = ["a", "1", ".", "\"", "/", "*", "\n", " ", "(", ")", "{", "}", "|", "!", "=", "<", ">", "-", "+", "$", "`", "é", "_", ":"];

/// number of strings of length 1..=max over an alphabet of `k` symbols
pub fn count_upto(k: u64, max: u32) -> u64 {
    (1..=max).map(|l| k.pow(l)).sum()
}

/// index -> string (shortest first)
pub fn nth_string(alphabet: &[&str], mut index: u64) -> String {
    let k = alphabet.len() as u64;
    let mut len = 1u32;
    loop {
        let n = k.pow(len);
        if index < n {
            break;
        }
        index -= n;
        len += 1;
    }
    let mut parts = vec![""; len as usize];
    for i in (0..len as usize).rev() {
        parts[i] = alphabet[(index % k) as usize];
        index /= k;
    }
    parts.concat()
}

/// One representative lexeme per token kind, plus variants that fuse with their neighbours.
pub const LEXEMES: &[&str] = &[
    "x", "foo", "dsp", "_", "self", "now", "samplerate", "fn", "macro", "let", "letrec", "if", "else", "match", "float", "int", "string", "struct", "include", "stage", "main", "mod", "use", "pub", "type",
    "alias", "rec", "1", "0", "42", "1.0", "0.5", "3.14", "1.", ".5", "1..2", "a.0.1", "a.0", "\"s\"", "\"\"", "\"unterminated", "+", "-", "*", "/", "==", "!=", "<", "<=", ">", ">=", "%", "^", "@", "&&", "||", "|>",
    "||>", "|", "->", "<-", "=>", "=", "!", ",", ".", "..", ":", "::", ";", "(", ")", "[", "]", "{", "}", "`", "$", "#", "//c", "// comment\n", "/* c */", "/* open", "*/", "\n", "\n\n", " ", "\t", "\r\n", "\r", "é", "日本",
    "\u{1F3B5}", "a\u{301}", "\u{0}", "\u{FEFF}", "\u{2028}", "~", "?", "\\", "'", "&",
];

/// Grammar-biased fragments: make it likely that random soups get past the first token.
pub const FRAGMENTS: &[&str] = &[
    "fn dsp(){ ", "fn f(x){ ", "fn f(x:float)->float{ ", "let x = ", "let (a,b) = ", "if (x) ", " else ", "|x| ", "|x,y| { ", "} ", ") ", "( ", "{ ", "match x { ", " => ", "type T = A | B(float) ", "mod m { ", "pub fn ",
    "use m::f ", "use m::{a,b} ", "use m::* ", "#stage(macro) ", "#stage(main) ", "`{ ", "$( ", "f!( ", "x.0 ", "r.a ", "{a = 1.0, b = 2.0} ", "{r <- a = 1.0} ", "[1.0, 2.0] ", "a[0] ", "x |> f ", "self + 1.0 ", "delay(4.0, x, 1.0) ",
    "mem(x) ", "f(x, y) ", "x@1.0 ", "1.0 ", "x ", ", ", "+ ", "- ", "* ", "\n", "// c\n", "/* c */ ", "include(\"a.mmm\") ", "-> ", ": float ", ": (float, float) ", ": {a: float} ", "_ ", "..", "type alias X = float ", "type rec L = N | C(float, L) ",
];

pub fn soup(g: &mut Gen, max_parts: usize) -> String {
    let n = g.int_small(1, max_parts as i64) as usize;
    let mut s = String::new();
    for _ in 0..n {
        match g.weighted(&[5, 4, 2, 1]) {
            0 => s.push_str(*g.pick(FRAGMENTS)),
            1 => s.push_str(*g.pick(LEXEMES)),
            2 => {
                s.push_str(*g.pick(LEXEMES));
                s.push(' ');
            }
            _ => s.push_str(&unicode_piece(g)),
        }
    }
    s
}

pub fn unicode_piece(g: &mut Gen) -> String {
    const POOL: &[&str] = &[
        "é", "ß", "日", "本", "語", "\u{1F3B5}", "\u{1F600}", "a\u{301}", "\u{200B}", "\u{FEFF}", "\u{0}", "\u{2028}", "\u{2029}", "\u{85}", "\r", "\r\n", "\u{FFFD}", "\u{10FFFF}", "\u{7F}", "\u{1}", "Ω", "α_1", "変数", "\u{3000}", "\u{A0}",
        "١", "𝟙", "ǆ",
    ];
    match g.below(4) {
        0 => g.pick(POOL).to_string(),
        1 => {
            // arbitrary scalar value
            let v = (g.below(0x11_0000) as u32).min(0x10_FFFF);
            char::from_u32(v).map(|c| c.to_string()).unwrap_or_else(|| "\u{FFFD}".to_string())
        }
        2 => format!("\"{}\"", g.pick(POOL)),
        _ => format!("//{}\n", g.pick(POOL)),
    }
}

/// Mutations of a corpus program: truncation, deletion/duplication of a token-ish range, scramble.
pub fn corpus_mutant(g: &mut Gen) -> (String, &'static str) {
    let c = corpus();
    if c.is_empty() {
        return (soup(g, 10), "soup");
    }
    let (_, src) = &c[g.usize_below(c.len())];
    let bounds: Vec<usize> = src.char_indices().map(|(i, _)| i).chain(std::iter::once(src.len())).collect();
    let cut = |g: &mut Gen| bounds[g.usize_below(bounds.len())];
    match g.below(6) {
        0 => {
            let e = cut(g);
            (src[..e].to_string(), "truncate")
        }
        1 => {
            let s = cut(g);
            (src[s..].to_string(), "drop-head")
        }
        2 => {
            let (a, b) = {
                let x = cut(g);
                let y = cut(g);
                (x.min(y), x.max(y))
            };
            let b = b.min(a + 200).min(src.len());
            let b = (b..=src.len()).find(|i| src.is_char_boundary(*i)).unwrap_or(src.len());
            (format!("{}{}", &src[..a], &src[b..]), "delete-range")
        }
        3 => {
            let (a, b) = {
                let x = cut(g);
                let y = cut(g);
                (x.min(y), x.max(y))
            };
            let b = b.min(a + 120);
            let b = (b..=src.len()).find(|i| src.is_char_boundary(*i)).unwrap_or(src.len());
            (format!("{}{}{}", &src[..b], &src[a..b], &src[b..]), "duplicate-range")
        }
        4 => {
            let at = cut(g);
            let ins = if g.coin() { g.pick(LEXEMES).to_string() } else { unicode_piece(g) };
            (format!("{}{}{}", &src[..at], ins, &src[at..]), "insert")
        }
        _ => {
            // replace one char by another ascii punctuation
            let at = g.usize_below(bounds.len().saturating_sub(1).max(1));
            let s = bounds[at];
            let e = bounds.get(at + 1).copied().unwrap_or(src.len());
            let r = *g.pick(&["(", ")", "{", "}", "\"", "/*", "|", "\n", ".", "1", "`", "$", "!"]);
            (format!("{}{}{}", &src[..s], r, &src[e..]), "replace-char")
        }
    }
}

/// Templates with holes: syntactically plausible programs in which an expression from a pool of
/// "special" expressions (`self`, `now`, placeholders, macro calls and splices, stateful calls, lambdas,
/// blocks, records, strings, paths) stands in a position where ordinary programs put a number:
/// parameter defaults of functions, lambdas and macros, delay sizes, array indices, schedule times,
/// global initialisers, match scrutinees and arms, record fields, type-annotated bindings.
/// Every (position, expression) pair is reachable; most are ill-typed, all must end in diagnostics.
pub fn holesoup(g: &mut Gen) -> String {
    const EXPRS: &[&str] = &[
        "self", "self + 1.0", "now", "samplerate", "_", "_ + 1.0", "x", "y", "f", "f(1.0)", "f(x)", "f()", "g!(1.0)", "$x", "`x", "`{ self }", "mem(x)", "delay(4.0, x, 1.0)", "delay(self, x, 1.0)", "|a| a", "|a| self", "| | self",
        "|a = self| a", "{ let q = self  q }", "{ self }", "{a = 1.0, b = self}", "{a = self, ..}", "(self, 1.0)", "[self, 1.0]", "\"s\"", "m::f", "m::f()", "1.0", "(1.0, 2.0)", "x.0", "r.a", "x |> f", "if (self) 1.0 else 2.0",
        "match self { 0 => 1.0, _ => 2.0 }", "f@1.0", "x = 1.0", "- self", "1.0 + ", "",
    ];
    const TEMPLATES: &[&str] = &[
        "fn f(x = ⟨⟩){ x }\nfn dsp(){ f() }\n",
        "fn f(x = ⟨⟩){ x }\nfn dsp(){ f(1.0) }\n",
        "fn f(x, y = ⟨⟩){ x + y }\nfn dsp(){ f(1.0) }\n",
        "fn f(x: float = ⟨⟩) -> float { x }\nfn dsp(){ f({..}) }\n",
        "fn f(x = ⟨⟩, y = ⟨⟩){ x + y }\nfn dsp(){ f({x = 1.0, ..}) }\n",
        "fn dsp(){ let k = |a = ⟨⟩| a  k() }\n",
        "fn dsp(){ (|a, b = ⟨⟩| a + b)(1.0) }\n",
        "#stage(macro)\nfn g(x = ⟨⟩){ x }\n#stage(main)\nfn dsp(){ g!(1.0) }\n",
        "#stage(macro)\nfn g(x){ `{ $x + ⟨⟩ } }\n#stage(main)\nfn dsp(){ g!(⟨⟩) }\n",
        "fn f(x){ x }\nfn dsp(){ delay(⟨⟩, 1.0, 1.0) }\n",
        "fn f(x){ x }\nfn dsp(){ let t = [1.0, 2.0]  t[⟨⟩] }\n",
        "fn f(){ 0.0 }\nf@⟨⟩\nfn dsp(){ 0.0 }\n",
        "let x = ⟨⟩\nfn dsp(){ x }\n",
        "let (x, y) = ⟨⟩\nfn dsp(){ x }\n",
        "let x: float = ⟨⟩\nfn f(a){ a }\nfn dsp(){ f(x) }\n",
        "fn f(x){ x }\nfn dsp(){ match ⟨⟩ { 0 => ⟨⟩, _ => 1.0 } }\n",
        "type T = A | B(float)\nfn f(t: T){ match t { A => ⟨⟩, B(x) => x } }\nfn dsp(){ f(B(⟨⟩)) }\n",
        "fn f(r){ r.a }\nfn dsp(){ f({a = ⟨⟩, b = ⟨⟩}) }\n",
        "fn f(r){ {r <- a = ⟨⟩} }\nfn dsp(){ f({a = 1.0}).a }\n",
        "mod m { pub fn f(x = ⟨⟩){ x } }\nfn dsp(){ m::f() }\n",
        "mod m { pub fn f(){ ⟨⟩ } }\nuse m::f\nfn dsp(){ f() }\n",
        "fn f(x){ x }\nfn dsp() -> float { ⟨⟩ }\n",
        "fn f(x){ ⟨⟩ }\nfn dsp(){ f(1.0) + f(2.0) }\n",
        "fn f(x) -> (float, float) { ⟨⟩ }\nfn dsp(){ f(1.0) }\n",
        "fn dsp(x: ⟨⟩){ x }\n",
        "fn f(x: (float) -> float = ⟨⟩){ x(1.0) }\nfn dsp(){ f() }\n",
    ];
    let t = *g.pick(TEMPLATES);
    let mut out = String::new();
    let mut first = true;
    for part in t.split("⟨⟩") {
        if !first {
            out.push_str(*g.pick(EXPRS));
        }
        first = false;
        out.push_str(part);
    }
    out
}

/// Module-structured texts over a tiny name pool: nested `mod`s, (pub) fns, (pub) `use` of paths and
/// wildcards, type declarations, a dsp that calls some path.  Duplicate names, re-export chains and
/// cycles, shadowing and dangling paths are likely by construction; the texts are syntactically
/// valid, semantically arbitrary.
pub fn modsoup(g: &mut Gen) -> String {
    const NAMES: &[&str] = &["a", "b", "x", "a", "b", "x", "c"];
    fn path(g: &mut Gen) -> String {
        let n = g.int_small(1, 3) as usize;
        (0..n).map(|_| *g.pick(NAMES)).collect::<Vec<_>>().join("::")
    }
    fn expr(g: &mut Gen) -> String {
        match g.weighted(&[3, 4, 2, 1]) {
            0 => format!("{}.0", g.int(0, 9)),
            1 => format!("{}()", path(g)),
            2 => path(g),
            _ => format!("{}() + {}.0", path(g), g.int(0, 9)),
        }
    }
    fn items(g: &mut Gen, depth: u32, out: &mut String, ind: usize) {
        let n = g.int_small(1, 4);
        for _ in 0..n {
            let pad = " ".repeat(ind);
            let vis = if g.coin() { "pub " } else { "" };
            match g.weighted(&[if depth < 2 { 4 } else { 0 }, 4, 5, 2, 1, 1, 2, 2]) {
                6 => {
                    // type aliases over a two-name pool: several modules declare the same short name
                    // (right-hand sides are concrete: an alias that names an alias of the same short name inside a
                    // module is the recorded finding C04-module-alias-cycle-overflow)
                    let rhs = *g.pick(&["float", "(float, float)", "(float, float, float)", "{p: float, q: float}"][..]);
                    out.push_str(&format!("{pad}{vis}type alias {} = {rhs}\n", g.pick(&["P", "Q"][..])));
                }
                7 => out.push_str(&format!("{pad}{vis}fn {}(v: {}) {{ v }}\n", g.pick(NAMES), g.pick(&["P", "Q", "float"][..]))),
                0 => {
                    out.push_str(&format!("{pad}{vis}mod {} {{\n", g.pick(NAMES)));
                    items(g, depth + 1, out, ind + 2);
                    out.push_str(&format!("{pad}}}\n"));
                }
                1 => out.push_str(&format!("{pad}{vis}fn {}() {{ {} }}\n", g.pick(NAMES), expr(g))),
                2 => out.push_str(&format!("{pad}{vis}use {}\n", path(g))),
                3 => out.push_str(&format!("{pad}{vis}use {}::*\n", path(g))),
                4 => out.push_str(&format!("{pad}{vis}use {}::{{{}, {}}}\n", path(g), g.pick(NAMES), g.pick(NAMES))),
                _ => out.push_str(&format!("{pad}let {} = {}\n", g.pick(NAMES), expr(g))),
            }
        }
    }
    if g.bool(1, 5) {
        // alias clash template: several modules declare a type alias (or a sum type) of the same short
        // name with different definitions and mention it unqualified; whether and how the bare name
        // resolves must not depend on anything but the text
        const RHS: [&str; 4] = ["float", "(float, float)", "(float, float, float)", "{p: float, q: float}"];
        let mods: Vec<&str> = { let p = g.perm(3); p.iter().take(g.int(2, 3) as usize).map(|i| ["a", "b", "c"][*i]).collect() };
        let mut s = String::new();
        for m in mods.iter() {
            s.push_str(&format!("mod {m} {{\n"));
            for t in ["P", "Q"] {
                if g.bool(2, 3) {
                    s.push_str(&format!("  {}type alias {t} = {}\n", if g.bool(3, 4) { "pub " } else { "" }, g.pick(&RHS[..])));
                }
            }
            if g.bool(3, 4) {
                s.push_str(&format!("  pub fn keep(v: {}) {{ v }}\n", g.pick(&["P", "Q"][..])));
            }
            if g.bool(1, 3) {
                s.push_str(&format!("  pub fn wrap(v: {}) -> ({}, float) {{ (v, 1.0) }}\n", g.pick(&["P", "Q"][..]), g.pick(&["P", "Q"][..])));
            }
            s.push_str("}\n");
        }
        if g.bool(1, 3) {
            s.push_str(&format!("fn top(v: {}) {{ v }}\n", g.pick(&["P", "Q"][..])));
        }
        if g.bool(1, 4) {
            s.push_str(&format!("use {}::{}\n", g.pick(&mods[..]), g.pick(&["P", "Q", "*"][..])));
        }
        s.push_str("fn dsp() { 0.0 }\n");
        return s;
    }
    if g.bool(1, 3) {
        // clash template: several modules export overlapping names, imported by wildcard / by name in
        // a random order; which definition an unqualified call reaches is an ordering decision
        let mods: Vec<&str> = { let p = g.perm(3); p.iter().take(g.int(2, 3) as usize).map(|i| ["a", "b", "c"][*i]).collect() };
        let mut s = String::new();
        for (k, m) in mods.iter().enumerate() {
            s.push_str(&format!("mod {m} {{\n"));
            for f in ["x", "y"] {
                if g.bool(2, 3) {
                    s.push_str(&format!("  {}fn {f}() {{ {}.0 }}\n", if g.bool(3, 4) { "pub " } else { "" }, 10 * (k + 1) + if f == "x" { 1 } else { 2 }));
                }
            }
            s.push_str("}\n");
        }
        let order = g.perm(mods.len());
        for i in order {
            match g.below(3) {
                0 => s.push_str(&format!("use {}::*\n", mods[i])),
                1 => s.push_str(&format!("use {}::{}\n", mods[i], g.pick(&["x", "y"]))),
                _ => s.push_str(&format!("use {}::*\nuse {}::{}\n", mods[i], mods[i], g.pick(&["x", "y"]))),
            }
        }
        s.push_str(&format!("fn dsp() {{ {} }}\n", *g.pick(&["x()", "y()", "x() + y()", "x() * 100.0 + y()"])));
        return s;
    }
    let mut s = String::new();
    items(g, 0, &mut s, 0);
    s.push_str(&format!("fn dsp() {{ {} }}\n", expr(g)));
    s
}

/// Scheduler programs whose tasks update one shared global non-commutatively: several tasks due at
/// the same sample, some of which re-arm themselves.  The order in which equal-time tasks fire is
/// observable in dsp's output.
pub fn schedsoup(g: &mut Gen, far_rearm: bool) -> String {
    let nt = g.int(2, 6) as usize;
    let mut s = String::from("let x = 1.0\n");
    let names: Vec<String> = (0..nt).map(|i| format!("t{}", (b'a' + i as u8) as char)).collect();
    for n in &names {
        let upd = match g.below(5) {
            0 => format!("x = x + {}.0", g.int(1, 9)),
            1 => format!("x = x * {}.0", g.int(2, 3)),
            2 => format!("x = {}.0 - x", g.int(1, 9)),
            3 => format!("x = x * 0.5 + {}.0", g.int(1, 9)),
            _ => format!("x = x * x * 0.01 + {}.0", g.int(1, 5)),
        };
        s.push_str(&format!("fn {n}(){{\n    {upd}\n"));
        if g.bool(1, 3) {
            // `far_rearm`: the re-armed task lies beyond every run length — it is pushed while its
            // equal-time siblings are still queued, but never fires (a task created during a tick that
            // fires later is a recorded WASM finding)
            let d = g.int(1, 4);
            s.push_str(&format!("    {n}@(now+{}.0)\n", if far_rearm { 100 + d } else { d }));
        }
        s.push_str("}\n");
    }
    // initial times from a small pool: equal times are the rule
    let base = g.int(1, 3);
    for n in &names {
        let t = if g.bool(2, 3) { base } else { g.int(1, 5) };
        s.push_str(&format!("{n}@{t}.0\n"));
    }
    s.push_str("fn dsp(){\n    x\n}\n");
    s
}

/// Programs in which closures are created inside frames that return unit: helper functions that
/// end in a call of a unit closure, called from dsp as statements, and self-re-arming scheduled
/// tasks.  Returns the source and whether it needs the scheduler.
pub fn unit_closures(g: &mut Gen) -> (String, bool) {
    unit_closures_with(g, false).0
}

/// `named_tasks`: also schedule NAMED functions (a global function that re-arms itself — the
/// shipped fixture scheduler_global_recursion.mmm — or one that dsp schedules on every sample); the
/// second result tells whether such a task was generated
pub fn unit_closures_with(g: &mut Gen, named_tasks: bool) -> ((String, bool), bool) {
    let mut s = String::from("let acc = 0.0\n");
    let nb = g.int(1, 3) as usize;
    let upd = |g: &mut Gen, v: &str| -> String {
        match g.below(4) {
            0 => format!("acc = acc + {v}"),
            1 => format!("acc = acc * 0.5 + {v}"),
            2 => format!("acc = {v} - acc * 0.25"),
            _ => format!("acc = acc + {v} * {}.0", g.int(1, 5)),
        }
    };
    for i in 0..nb {
        s.push_str(&format!("fn bump{i}(k){{\n"));
        let nf = g.int(1, 2);
        for j in 0..nf {
            if g.coin() {
                s.push_str(&format!("  let f{j} = | | {{ {} }}\n  f{j}()\n", upd(g, "k")));
            } else {
                s.push_str(&format!("  let f{j} = |x| {{ {} }}\n  f{j}(k + {}.0)\n", upd(g, "x"), g.int(0, 3)));
            }
        }
        s.push_str("}\n");
    }
    let sched = g.bool(1, 2);
    if sched {
        s.push_str("fn start(){\n  let k = 1.0\n  letrec gen = | |{\n");
        s.push_str(&format!("     let f = | | {{ {} }}\n     f()\n", upd(g, "k")));
        if g.coin() {
            s.push_str(&format!("     bump{}(k)\n", g.usize_below(nb)));
        }
        s.push_str(&format!("     gen@(now+{}.0)\n  }}\n  gen@1.0\n}}\nstart()\n", g.int(1, 3)));
    }
    let mut named = 0u64;
    if named_tasks {
        named = g.below(4); // 0 none, 1 self-re-arming global function, 2 scheduled by dsp, 3 both
        if named & 1 == 1 {
            s.push_str(&format!("fn tick(){{\n  {}\n  tick@(now+{}.0)\n}}\ntick@1.0\n", upd(g, "1.0"), g.int(1, 3)));
        }
        if named & 2 == 2 {
            s.push_str(&format!("fn once(){{\n  {}\n}}\n", upd(g, "0.5")));
        }
    }
    // a closure VALUE that outlives its scheduled runs: made once by a maker at global scope, then
    // scheduled again and again from dsp (1), also called directly (2), scheduled twice per sample (3)
    let reuse = if g.bool(1, 3) { 1 + g.below(3) } else { 0 };
    if reuse > 0 {
        s.push_str(&format!("fn mkcl(step){{\n  | | {{ {} }}\n}}\nlet gcl = mkcl({}.0)\n", upd(g, "step"), g.int(1, 4)));
        if g.coin() {
            s.push_str(&format!("gcl@{}.0\n", g.int(1, 3)));
        }
    }
    s.push_str("fn dsp(){\n");
    if named & 2 == 2 {
        s.push_str(&format!("  once@(now+{}.0)\n", g.int(1, 2)));
    }
    if reuse > 0 {
        s.push_str(&format!("  gcl@(now+{}.0)\n", g.int(1, 2)));
        if reuse == 2 {
            s.push_str("  gcl()\n");
        }
        if reuse == 3 {
            s.push_str(&format!("  gcl@(now+{}.0)\n", g.int(1, 3)));
        }
    }
    let nc = g.int(if sched || reuse > 0 { 0 } else { 1 }, 3);
    for _ in 0..nc {
        let arg = *g.pick(&["1.0", "now", "acc * 0.5", "2.5"]);
        s.push_str(&format!("  bump{}({arg})\n", g.usize_below(nb)));
    }
    s.push_str("  acc\n}\n");
    ((s, sched || named > 0 || reuse > 0), named > 0)
}
