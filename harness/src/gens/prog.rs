//! ProgGen — typed core-language programs: AST (`P`), type-directed generator, renderer.
//!
//! Every generated program terminates by construction (no recursion, no loops) and only uses
//! constructs whose syntax is pinned by the repository's fixtures.  Feature classes are
//! individually switchable (`PCfg`); known-finding exclusions are expressed as switches.

use crate::engine::tape::Gen;
use std::fmt::Write as _;
use std::ops::Not;

#[derive(Clone, Debug, PartialEq)]
pub enum Ty {
    Num,
    Tup(Vec<Ty>),
    Rec(Vec<(String, Ty)>),
    Fun(Vec<Ty>, Box<Ty>),
}

impl Ty {
    pub fn words(&self) -> usize {
        match self {
            Ty::Num | Ty::Fun(..) => 1,
            Ty::Tup(ts) => ts.iter().map(|t| t.words()).sum(),
            Ty::Rec(fs) => fs.iter().map(|(_, t)| t.words()).sum(),
        }
    }
    pub fn render(&self) -> String {
        match self {
            Ty::Num => "float".into(),
            Ty::Tup(ts) => format!("({})", ts.iter().map(|t| t.render()).collect::<Vec<_>>().join(",")),
            Ty::Rec(fs) => format!("{{{}}}", fs.iter().map(|(n, t)| format!("{n}:{}", t.render())).collect::<Vec<_>>().join(", ")),
            Ty::Fun(a, r) => format!("({})->{}", a.iter().map(|t| t.render()).collect::<Vec<_>>().join(","), r.render()),
        }
    }
    pub fn is_flat_num(&self) -> bool {
        match self {
            Ty::Num => true,
            Ty::Tup(ts) => ts.iter().all(|t| t.is_flat_num()),
            Ty::Rec(fs) => fs.iter().all(|(_, t)| t.is_flat_num()),
            Ty::Fun(..) => false,
        }
    }
}

#[derive(Clone, Copy, Debug, PartialEq, Eq)]
pub enum Bop {
    Add,
    Sub,
    Mul,
    Div,
    Mod,
    Pow,
    Eq,
    Ne,
    Lt,
    Le,
    Gt,
    Ge,
    And,
    Or,
}
impl Bop {
    /// binding power in the repository's Pratt parser (get_infix_precedence)
    pub fn prec(&self) -> u32 {
        match self {
            Bop::Or => 3,
            Bop::And => 4,
            Bop::Eq | Bop::Ne => 5,
            Bop::Lt | Bop::Le | Bop::Gt | Bop::Ge => 6,
            Bop::Add | Bop::Sub => 7,
            Bop::Mul | Bop::Div | Bop::Mod => 8,
            Bop::Pow => 9,
        }
    }
    pub fn sym(&self) -> &'static str {
        match self {
            Bop::Add => "+",
            Bop::Sub => "-",
            Bop::Mul => "*",
            Bop::Div => "/",
            Bop::Mod => "%",
            Bop::Pow => "^",
            Bop::Eq => "==",
            Bop::Ne => "!=",
            Bop::Lt => "<",
            Bop::Le => "<=",
            Bop::Gt => ">",
            Bop::Ge => ">=",
            Bop::And => "&&",
            Bop::Or => "||",
        }
    }
    pub fn is_cmp(&self) -> bool {
        matches!(self, Bop::Eq | Bop::Ne | Bop::Lt | Bop::Le | Bop::Gt | Bop::Ge)
    }
}

pub const B1S: &[&str] = &["sin", "cos", "abs", "sqrt", "floor", "ceil", "round", "tanh", "atan", "log", "tan", "sinh", "cosh"];
pub const B2S: &[&str] = &["min", "max", "atan2", "pow"];

#[derive(Clone, Debug, PartialEq)]
pub enum Pat {
    Var(String),
    Tup(Vec<Pat>),
    Rec(Vec<(String, Pat)>),
}

#[derive(Clone, Debug, PartialEq)]
pub struct Param {
    pub name: String,
    pub ty: Ty,
    pub annotate: bool,
}

#[derive(Clone, Debug, PartialEq)]
pub enum E {
    /// literal: source text (decimal, no exponent) — its value is `text.parse::<f64>()`
    Lit(String),
    Var(String),
    Bin(Bop, Box<E>, Box<E>),
    Neg(Box<E>),
    B1(&'static str, Box<E>),
    B2(&'static str, Box<E>, Box<E>),
    If(Box<E>, Box<E>, Box<E>),
    Block(Vec<S>, Box<E>),
    Tup(Vec<E>),
    Proj(Box<E>, usize),
    Rec(Vec<(String, E)>),
    Field(Box<E>, String),
    RecUpd(Box<E>, Vec<(String, E)>),
    Lam(Vec<Param>, Box<E>),
    /// call with a unique call-site id (state is owned per textual call site)
    Call(u32, Box<E>, Vec<E>),
    /// `x |> f`  ==  f(x)
    Pipe(u32, Box<E>, Box<E>),
    SelfV,
    Mem(u32, Box<E>),
    /// delay(N, x, t): N literal
    Delay(u32, u32, Box<E>, Box<E>),
    Now,
    SampleRate,
    /// `match scrutinee { k0 => e0  k1 => e1  _ => d }` on a number with integer-literal arms
    MatchNum(Box<E>, Vec<(i64, E)>, Box<E>),
    /// parameter pack: `(e1, e2) |> f` (names None) or `{b = e2, a = e1[, ..]} |> f` — the fields in
    /// written order, `dots` = missing parameters take their defaults
    Pack(u32, String, Vec<(Option<String>, E)>, bool),
    /// auto-spread: `(e1, e2, ..) |> f` for a unary numeric function f = the tuple (f(e1), f(e2), ..),
    /// one call site (and one state instance) per element
    Spread(Vec<u32>, String, Vec<E>),
    /// array literal of numbers (only as the right-hand side of a `let`)
    ArrLit(Vec<E>),
    /// `a[i]`: the index is truncated towards zero and clamped to the array (non-finite -> 0)
    Index(Box<E>, Box<E>),
    /// verbatim source text (used by type-changing mutations)
    Raw(String),
}

#[derive(Clone, Debug, PartialEq)]
pub enum S {
    Let(Pat, E),
    Assign(String, E),
    /// `letrec name = |params| body`: the lambda may call itself through `name`
    LetRec(String, E),
}

#[derive(Clone, Debug, PartialEq)]
pub struct FnDef {
    pub name: String,
    pub params: Vec<Param>,
    /// default value (literal text) per parameter; empty = none has one
    pub defaults: Vec<Option<String>>,
    pub ret: Ty,
    pub annotate_ret: bool,
    pub body: E,
}

#[derive(Clone, Debug, PartialEq)]
pub enum Top {
    Fn(FnDef),
    Let(String, Ty, E),
}

#[derive(Clone, Debug, PartialEq)]
pub struct Prog {
    pub tops: Vec<Top>,
    /// number of dsp input channels (0, or 1 = `x:float`, or k>=2 = one tuple parameter)
    pub n_in: usize,
    /// number of output channels
    pub n_out: usize,
}

/// Feature counts of a generated program (drive non-triviality classes and exclusions).
#[derive(Clone, Debug, Default)]
pub struct Features {
    pub self_uses: u32,
    pub tuple_self: u32,
    pub nested_tuple_self: u32,
    pub mems: u32,
    pub delays: u32,
    pub max_delay: u32,
    pub varying_delay_time: u32,
    pub fractional_delay_max: u32,
    pub stateful_calls: u32,
    pub stateful_depth: u32,
    pub stateful_in_branch: u32,
    pub same_fn_sites: u32,
    pub closures_local: u32,
    pub closures_global: u32,
    pub makers: u32,
    pub hof_calls: u32,
    pub assigns: u32,
    pub globals: u32,
    pub tuples: u32,
    pub records: u32,
    pub branches: u32,
    pub matches: u32,
    pub arrays: u32,
    pub local_letrec: u32,
    pub rec_pattern_permuted: u32,
    pub aggregate_arrays: u32,
    pub sibling_closures: u32,
    pub closure_aggregate_params: u32,
    pub shared_cells: u32,
    pub packs: u32,
    pub curried: u32,
    pub spreads: u32,
    pub pipes: u32,
    pub nodes: u32,
    pub fns: u32,
}

impl Features {
    pub fn stateful(&self) -> bool {
        self.self_uses + self.mems + self.delays + self.makers + self.closures_global > 0
    }
    pub fn classes(&self) -> Vec<String> {
        let mut c = vec![];
        macro_rules! f {
            ($cond:expr, $name:expr) => {
                if $cond {
                    c.push($name.to_string());
                }
            };
        }
        f!(self.self_uses > 0, "f:self");
        f!(self.tuple_self > 0, "f:tuple-self");
        f!(self.nested_tuple_self > 0, "f:nested-tuple-self");
        f!(self.mems > 0, "f:mem");
        f!(self.delays > 0, "f:delay");
        f!(self.delays > 1, "f:multi-delay");
        f!(self.varying_delay_time > 0, "f:varying-delay-time");
        f!(self.fractional_delay_max > 0, "f:fractional-delay-max");
        f!(self.stateful_calls > 0, "f:stateful-call");
        f!(self.stateful_depth >= 2, "f:nested-stateful");
        f!(self.stateful_in_branch > 0, "f:stateful-in-branch");
        f!(self.same_fn_sites > 0, "f:same-fn-many-sites");
        f!(self.closures_local > 0, "f:local-closure");
        f!(self.closures_global > 0, "f:global-closure");
        f!(self.makers > 0, "f:maker-closure");
        f!(self.hof_calls > 0, "f:hof");
        f!(self.assigns > 0, "f:assign");
        f!(self.globals > 0, "f:global");
        f!(self.tuples > 0, "f:tuple");
        f!(self.records > 0, "f:record");
        f!(self.branches > 0, "f:branch");
        f!(self.matches > 0, "f:match");
        f!(self.arrays > 0, "f:array");
        f!(self.local_letrec > 0, "f:local-letrec");
        f!(self.rec_pattern_permuted > 0, "f:rec-pattern-permuted");
        f!(self.aggregate_arrays > 0, "f:array-of-tuples");
        f!(self.sibling_closures > 0, "f:sibling-closures");
        f!(self.closure_aggregate_params > 0, "f:closure-aggregate-params");
        f!(self.shared_cells > 0, "f:shared-cell");
        f!(self.packs > 0, "f:param-pack");
        f!(self.curried > 0, "f:curried-call");
        f!(self.spreads > 0, "f:auto-spread");
        f!(self.pipes > 0, "f:pipe");
        c
    }
}

/// Generator configuration: feature switches.  The defaults are what is switched on for the
/// properties that use the full generator; known-finding exclusions turn switches off.
#[derive(Clone, Debug)]
pub struct PCfg {
    pub max_fns: usize,
    pub fuel: i32,
    pub state: bool,
    pub delays: bool,
    /// several delays in one function (known finding: VM uses delay_sizes[0] for all of them)
    pub multi_delay_per_fn: bool,
    /// stateful constructs inside `if` arms
    pub state_in_branches: bool,
    /// conditions may be arbitrary numbers (NaN reachable) instead of comparison results
    pub raw_conditions: bool,
    pub closures: bool,
    pub makers: bool,
    pub hof: bool,
    pub records: bool,
    pub globals: bool,
    pub assigns: bool,
    pub inputs: bool,
    pub multi_out: bool,
    pub now: bool,
    /// delay time expressions may leave [1, N-1]
    pub wild_delay_time: bool,
    /// local recursive closures (`letrec` inside a function body)
    pub local_letrec: bool,
    /// arrays whose elements are tuples
    pub aggregate_arrays: bool,
    /// the declared maximum of a delay may be fractional (`delay(4.5, x, t)`)
    pub fractional_delay_max: bool,
    /// `%`, `^`, log, sqrt … that can produce NaN/inf
    pub partial_math: bool,
    /// dsp may take one tuple parameter (2-3 input channels)
    pub tuple_inputs: bool,
    /// a function that uses `self` may leave its return type to inference
    pub unannotated_self: bool,
    /// the `%` operator
    pub modulo: bool,
    /// `self` may appear as an element of a tuple literal
    pub self_in_tuple: bool,
    /// several closure instances of one maker function at global scope
    pub multi_maker_instances: bool,
    /// `if` expressions whose value is a tuple
    pub tuple_if: bool,
    /// globals of tuple type
    pub tuple_globals: bool,
    /// block expressions as operands of binary operators
    pub block_operands: bool,
    /// tuple projections / record field reads inside `if` conditions
    pub proj_in_cond: bool,
    /// lambdas may capture variables that were bound by a tuple/record pattern
    pub capture_destructured: bool,
    /// a lambda may read a captured variable inside an `if` arm (known finding: the VM caches
    /// the upvalue load of the first arm and reads an uninitialised register in the other)
    pub capture_in_branch: bool,
    /// `if` expressions inside lambda bodies (same family of VM findings: closures + branches)
    pub if_in_lambda: bool,
    /// maker functions may be called inside functions (a closure instance per sample), C12
    pub makers_in_dsp: bool,
    /// `match` on a number with integer-literal arms
    pub num_match: bool,
    /// local array literals indexed by arbitrary numeric expressions
    pub arrays: bool,
    /// weight of record types among the types of local lets (tuples: 2, numbers: 6)
    pub rec_weight: u32,
    /// a record-typed let binds through a record pattern in this many of 3 cases
    pub rec_pattern_thirds: u32,
    /// two local closures of one frame capturing the same closure-typed local
    pub sibling_closures: bool,
    /// local closures may take tuple / record parameters next to further parameters
    pub closure_aggregate_params: bool,
    /// a numeric local assigned and read by two closures of its frame and by the frame itself
    pub shared_cell: bool,
    /// tuples / records piped into a function as its parameters
    pub param_packs: bool,
    /// functions with default values, used through `{.., ..}` packs
    pub default_args: bool,
    /// functions that return a lambda capturing their argument, called as mk(e)(y)
    pub factories: bool,
    /// `(e1, e2) |> f` for a unary numeric f
    pub auto_spread: bool,
    /// incomplete records are written with an explicit `..`
    pub pack_dots: bool,
    /// record update `{r <- f = e}` inside the initialiser of a global
    pub record_update_in_globals: bool,
    /// the frame may assign a local after a lambda that can see it was passed to a function
    pub assign_after_closure_escapes: bool,
    /// array indices may be +-inf (off: the index is `sin(e) * 6.0`, finite or NaN)
    pub array_index_inf: bool,
    /// nested tuple types (e.g. `(float,(float,float))`) for parameters, returns and `self`
    pub nested_tuples: bool,
}

impl Default for PCfg {
    fn default() -> Self {
        PCfg {
            max_fns: 5,
            fuel: 40,
            state: true,
            delays: true,
            multi_delay_per_fn: true,
            state_in_branches: true,
            raw_conditions: true,
            closures: true,
            makers: true,
            hof: true,
            records: true,
            globals: true,
            assigns: true,
            inputs: true,
            multi_out: true,
            now: true,
            wild_delay_time: true,
            fractional_delay_max: true,
            local_letrec: true,
            aggregate_arrays: true,
            partial_math: true,
            tuple_inputs: true,
            unannotated_self: true,
            modulo: true,
            self_in_tuple: true,
            multi_maker_instances: true,
            tuple_if: true,
            tuple_globals: true,
            block_operands: true,
            proj_in_cond: true,
            capture_destructured: true,
            capture_in_branch: true,
            if_in_lambda: true,
            makers_in_dsp: false,
            num_match: true,
            arrays: true,
            rec_weight: 1,
            rec_pattern_thirds: 1,
            sibling_closures: true,
            closure_aggregate_params: true,
            shared_cell: true,
            param_packs: true,
            default_args: true,
            factories: true,
            auto_spread: true,
            pack_dots: true,
            record_update_in_globals: true,
            assign_after_closure_escapes: true,
            array_index_inf: true,
            nested_tuples: false,
        }
    }
}

#[derive(Clone, Debug)]
struct FnSig {
    name: String,
    params: Vec<Ty>,
    ret: Ty,
    stateful: bool,
    depth: u32,
    /// returns a closure that owns state / assigns its captured variable (maker)
    maker: bool,
    /// parameter names and which of them have a default (for parameter packs)
    pnames: Vec<String>,
    defaults: Vec<bool>,
    /// unary float -> float function with both annotations written out (auto-spread is only defined
    /// for functions whose numeric type is known when the pipe is checked)
    spread_ok: bool,
}

#[derive(Clone, Debug)]
struct VarInfo {
    name: String,
    ty: Ty,
    assignable: bool,
    /// bound by a tuple / record pattern
    destructured: bool,
    /// captured from an enclosing frame (inside a lambda)
    captured: bool,
}

struct Scope {
    vars: Vec<VarInfo>,
    self_ty: Option<Ty>,
    allow_state: bool,
    in_branch: bool,
    /// this function already contains a delay (for the multi-delay switch)
    fn_has_delay: bool,
    /// assignments allowed in this function body (mutually exclusive with local closures)
    allow_assign: bool,
    allow_closure: bool,
    /// inside a lambda body: captured variables are not assignable, no state
    in_lambda: bool,
    depth_stateful: u32,
    /// generating an element of a tuple literal
    in_tuple_lit: bool,
    /// generating an operand of a binary operator
    in_operand: bool,
    /// generating an `if` condition
    in_cond: bool,
}

pub struct PG<'a> {
    pub g: &'a mut Gen,
    pub cfg: PCfg,
    next_id: u32,
    next_name: u32,
    fns: Vec<FnSig>,
    globals: Vec<VarInfo>,
    pub feat: Features,
    fuel: i32,
    in_global_init: bool,
    site_counts: Vec<(String, u32)>,
}

const IDENTS: &[&str] = &["a", "b", "c", "d", "e", "k", "m", "n", "p", "q", "r", "s", "t", "u", "v", "w", "y", "z", "acc", "val", "tmp", "gain", "freq", "ph", "lo", "hi"];

impl PCfg {
    /// the same feature set with a small size budget: programs of a handful of lines in which a
    /// single feature is not buried under code whose value never reaches the output
    pub fn small(mut self, g: &mut Gen) -> PCfg {
        self.fuel = g.int(8, 16) as i32;
        self.max_fns = g.int(0, 2) as usize;
        self
    }
}

impl<'a> PG<'a> {
    pub fn new(g: &'a mut Gen, cfg: PCfg) -> Self {
        PG { g, cfg, next_id: 0, next_name: 0, fns: vec![], globals: vec![], feat: Features::default(), fuel: 0, in_global_init: false, site_counts: vec![] }
    }
    fn id(&mut self) -> u32 {
        self.next_id += 1;
        self.next_id
    }
    fn fresh(&mut self, hint: &str) -> String {
        self.next_name += 1;
        let base = if hint.is_empty() { IDENTS[self.g.usize_below(IDENTS.len())] } else { hint };
        format!("{base}{}", self.next_name)
    }
    fn lit(&mut self) -> E {
        let text = match self.g.weighted(&[6, 4, 3, 1, 1, 1]) {
            0 => format!("{}.0", self.g.below(10)),
            1 => format!("0.{}", self.g.int(1, 99)),
            2 => format!("{}.{}", self.g.below(100), self.g.below(1000)),
            3 => format!("{}.0", self.g.int(100, 100000)),
            4 => format!("0.0000{}", self.g.int(1, 999)),
            _ => "1.5".to_string(),
        };
        E::Lit(text)
    }

    // ------------------------------------------------------------ types
    fn small_ty(&mut self, allow_rec: bool) -> Ty {
        match self.g.weighted(&[6, 2, if allow_rec && self.cfg.records { self.cfg.rec_weight } else { 0 }]) {
            0 => Ty::Num,
            1 => {
                let n = self.g.int(2, 3) as usize;
                let mut ts: Vec<Ty> = (0..n).map(|_| Ty::Num).collect();
                if self.cfg.nested_tuples && self.g.bool(1, 3) {
                    if self.g.bool(1, 3) {
                        // up to three levels, several nested siblings: (((a,b),(c,d)),(e,f))
                        return self.deep_tuple_ty(2, true);
                    }
                    let k = self.g.usize_below(n);
                    ts[k] = Ty::Tup(vec![Ty::Num, Ty::Num]);
                }
                Ty::Tup(ts)
            }
            _ => {
                let n = self.g.int(1, 3) as usize;
                let names = ["fa", "fb", "fc"];
                Ty::Rec((0..n).map(|i| (names[i].to_string(), Ty::Num)).collect())
            }
        }
    }

    /// nested tuple type with `levels` more levels below this one. The chain of first elements
    /// stays narrow (pairs): a literal's first element must end within the parser's lookahead.
    fn deep_tuple_ty(&mut self, levels: u32, first_chain: bool) -> Ty {
        let n = if first_chain { 2 } else { self.g.int(2, 3) as usize };
        let mut ts = vec![];
        for i in 0..n {
            let nest = levels > 0 && self.g.bool(1, 2);
            ts.push(if nest { self.deep_tuple_ty(levels - 1, first_chain && i == 0 || levels == 1) } else { Ty::Num });
        }
        Ty::Tup(ts)
    }

    // ------------------------------------------------------------ expressions
    fn visible(&self, sc: &Scope, v: &VarInfo) -> bool {
        self.cfg.capture_in_branch || !(v.captured && sc.in_branch)
    }
    fn vars_of<'s>(&self, sc: &'s Scope, ty: &Ty) -> Vec<VarInfo> {
        sc.vars.iter().filter(|v| self.visible(sc, v)).chain(self.globals.iter()).filter(|v| &v.ty == ty).cloned().collect()
    }

    fn cond(&mut self, sc: &mut Scope) -> E {
        let was = sc.in_cond;
        sc.in_cond = true;
        let c = self.cond_inner(sc);
        sc.in_cond = was;
        c
    }
    fn cond_inner(&mut self, sc: &mut Scope) -> E {
        if self.cfg.raw_conditions && self.g.bool(1, 6) {
            return self.num(sc);
        }
        let op = *self.g.pick(&[Bop::Lt, Bop::Gt, Bop::Le, Bop::Ge, Bop::Eq, Bop::Ne]);
        let was_op = sc.in_operand;
        sc.in_operand = true;
        let a = self.num(sc);
        let b = self.num(sc);
        sc.in_operand = was_op;
        let c = E::Bin(op, Box::new(a), Box::new(b));
        if self.g.bool(1, 6) {
            let op2 = if self.g.coin() { Bop::And } else { Bop::Or };
            let a2 = self.num(sc);
            let b2 = self.num(sc);
            let c2 = E::Bin(*self.g.pick(&[Bop::Lt, Bop::Gt]), Box::new(a2), Box::new(b2));
            E::Bin(op2, Box::new(c), Box::new(c2))
        } else {
            c
        }
    }

    fn expr(&mut self, ty: &Ty, sc: &mut Scope) -> E {
        self.feat.nodes += 1;
        match ty {
            Ty::Num => self.num(sc),
            Ty::Tup(ts) => self.tup(ts, sc),
            Ty::Rec(fs) => self.rec(fs, sc),
            Ty::Fun(ps, r) => self.fun(ps, r, sc),
        }
    }

    /// at most ~6 tokens
    fn small_num(&mut self, sc: &mut Scope) -> E {
        match self.g.weighted(&[5, 2, 1]) {
            0 => self.leaf_num(sc),
            1 => {
                let op = *self.g.pick(&[Bop::Add, Bop::Sub, Bop::Mul]);
                let a = self.leaf_num(sc);
                let b = self.leaf_num(sc);
                E::Bin(op, Box::new(a), Box::new(b))
            }
            _ => {
                let f = *self.g.pick(&["sin", "abs", "floor"]);
                E::B1(f, Box::new(self.leaf_num(sc)))
            }
        }
    }

    fn leaf_num(&mut self, sc: &mut Scope) -> E {
        let vars = self.vars_of(sc, &Ty::Num);
        let self_ok = sc.self_ty == Some(Ty::Num) && (self.cfg.self_in_tuple || !sc.in_tuple_lit);
        match self.g.weighted(&[3, if vars.is_empty() { 0 } else { 5 }, if self_ok { 3 } else { 0 }, if self.cfg.now && !sc.in_lambda { 1 } else { 0 }]) {
            0 => self.lit(),
            1 => E::Var(self.g.pick(&vars).name.clone()),
            2 => {
                self.feat.self_uses += 1;
                E::SelfV
            }
            _ => {
                if self.g.bool(1, 5) {
                    E::SampleRate
                } else {
                    E::Now
                }
            }
        }
    }

    fn num(&mut self, sc: &mut Scope) -> E {
        self.fuel -= 1;
        if self.fuel <= 0 {
            return self.leaf_num(sc);
        }
        // candidate callee functions returning a number
        // inside a lambda no function that takes a function is called: nesting such calls makes the
        // running time exponential in the nesting depth
        let callees: Vec<FnSig> = self.fns.iter().filter(|f| f.ret == Ty::Num && !f.maker && (sc.allow_state || !f.stateful) && (self.cfg.state_in_branches || !sc.in_branch || !f.stateful) && !(sc.in_lambda && f.params.iter().any(|p| matches!(p, Ty::Fun(..))))).cloned().collect();
        let tup_vars: Vec<VarInfo> = sc.vars.iter().filter(|v| self.visible(sc, v)).chain(self.globals.iter()).filter(|v| matches!(&v.ty, Ty::Tup(ts) if ts.iter().all(|t| *t == Ty::Num))).cloned().collect();
        let rec_vars: Vec<VarInfo> = sc.vars.iter().filter(|v| self.visible(sc, v)).chain(self.globals.iter()).filter(|v| matches!(&v.ty, Ty::Rec(_))).cloned().collect();
        let clo_vars: Vec<VarInfo> = sc.vars.iter().filter(|v| self.visible(sc, v)).chain(self.globals.iter()).filter(|v| matches!(&v.ty, Ty::Fun(_, r) if **r == Ty::Num)).cloned().collect();
        let tuple_callees: Vec<FnSig> = self.fns.iter().filter(|f| matches!(f.ret, Ty::Tup(_)) && f.ret.is_flat_num() && !f.maker && (sc.allow_state || !f.stateful) && (self.cfg.state_in_branches || !sc.in_branch || !f.stateful) && !(sc.in_lambda && f.params.iter().any(|p| matches!(p, Ty::Fun(..))))).cloned().collect();
        let pack_callees: Vec<FnSig> = callees.iter().filter(|f| f.ret == Ty::Num && f.params.len() >= 2 && f.params.iter().all(|t| *t == Ty::Num) && f.pnames.len() == f.params.len()).cloned().collect();
        let factories: Vec<FnSig> = self.fns.iter().filter(|f| f.params == vec![Ty::Num] && f.ret == Ty::Fun(vec![Ty::Num], Box::new(Ty::Num)) && !f.maker && !f.stateful).cloned().collect();
        let unary_callees: Vec<FnSig> = callees.iter().filter(|f| f.spread_ok).cloned().collect();
        let state_ok = self.cfg.state && sc.allow_state && (self.cfg.state_in_branches || !sc.in_branch);
        let delay_ok = state_ok && self.cfg.delays && (self.cfg.multi_delay_per_fn || !sc.fn_has_delay);
        let tuple_self = matches!(&sc.self_ty, Some(Ty::Tup(_)));
        let w = [
            6,                                                   // 0 leaf
            8,                                                   // 1 arithmetic
            2,                                                   // 2 neg
            2,                                                   // 3 builtin 1
            1,                                                   // 4 builtin 2
            if sc.in_lambda && !self.cfg.if_in_lambda { 0 } else { 3 }, // 5 if
            if self.cfg.block_operands || !sc.in_operand { 2 } else { 0 }, // 6 block
            if callees.is_empty() { 0 } else { 6 },              // 7 call
            if tup_vars.is_empty() || (sc.in_cond && !self.cfg.proj_in_cond) { 0 } else { 2 }, // 8 proj
            if rec_vars.is_empty() || (sc.in_cond && !self.cfg.proj_in_cond) { 0 } else { 2 }, // 9 field
            if clo_vars.is_empty() { 0 } else { 3 },             // 10 closure call
            if state_ok { 2 } else { 0 },                        // 11 mem
            if delay_ok { 2 } else { 0 },                        // 12 delay
            if self.cfg.closures && sc.allow_closure && !sc.in_lambda { 1 } else { 0 }, // 13 local closure
            if tuple_self { 2 } else { 0 },                      // 14 proj of self
            if self.cfg.hof && !sc.in_lambda { 1 } else { 0 },   // 15 inline lambda application via pipe
            1,                                                   // 16 comparison / logic as value
            if self.cfg.makers_in_dsp && !sc.in_lambda && self.fns.iter().any(|f| f.maker) { 3 } else { 0 }, // 17 per-sample maker instance
            if self.cfg.nested_tuples && tuple_callees.is_empty().not() { 4 } else { 0 }, // 18 destructure a tuple-returning call
            if self.cfg.num_match && !(sc.in_lambda && !self.cfg.if_in_lambda) { 2 } else { 0 }, // 19 match on a number
            if self.cfg.arrays && self.fuel > 0 && (self.cfg.block_operands || !sc.in_operand) { 2 } else { 0 }, // 20 indexed local array
            if self.cfg.sibling_closures && self.cfg.closures && sc.allow_closure && !sc.in_lambda && !clo_vars.is_empty() && (self.cfg.block_operands || !sc.in_operand) { 2 } else { 0 }, // 21 sibling closures sharing a captured closure
            if self.cfg.shared_cell && self.cfg.closures && self.cfg.assigns && sc.allow_closure && !sc.in_lambda && (self.cfg.block_operands || !sc.in_operand) { 2 } else { 0 }, // 22 a numeric local shared by sibling closures and the frame
            if self.cfg.param_packs && !pack_callees.is_empty() { 3 } else { 0 }, // 23 parameter pack piped into a function
            if self.cfg.factories && !sc.in_lambda && !factories.is_empty() { 3 } else { 0 }, // 24 curried call mk(e)(y) / y |> mk(e)
            if self.cfg.auto_spread && !sc.in_lambda && !unary_callees.is_empty() && (self.cfg.block_operands || !sc.in_operand) { 3 } else { 0 }, // 25 tuple auto-spread through a unary function
            if self.cfg.local_letrec && self.cfg.closures && sc.allow_closure && !sc.in_lambda && self.fuel > 0 && (self.cfg.block_operands || !sc.in_operand) { 2 } else { 0 }, // 26 local recursive closure
        ];
        match self.g.weighted(&w) {
            0 => self.leaf_num(sc),
            1 => {
                let op = if self.cfg.partial_math { *self.g.pick(&[Bop::Add, Bop::Sub, Bop::Mul, Bop::Add, Bop::Mul, Bop::Div, Bop::Pow, Bop::Mod]) } else { *self.g.pick(&[Bop::Add, Bop::Sub, Bop::Mul]) };
                let op = if op == Bop::Mod && !self.cfg.modulo { Bop::Mul } else { op };
                let was = sc.in_operand;
                sc.in_operand = true;
                let a = self.num(sc);
                let b = self.num(sc);
                sc.in_operand = was;
                E::Bin(op, Box::new(a), Box::new(b))
            }
            2 => E::Neg(Box::new(self.num(sc))),
            3 => {
                let pool: &[&'static str] = if self.cfg.partial_math { B1S } else { &["sin", "cos", "abs", "floor", "tanh", "atan"] };
                let f = *self.g.pick(pool);
                E::B1(f, Box::new(self.num(sc)))
            }
            4 => {
                let pool: &[&'static str] = if self.cfg.partial_math { B2S } else { &["min", "max"] };
                let f = *self.g.pick(pool);
                let a = self.num(sc);
                let b = self.num(sc);
                E::B2(f, Box::new(a), Box::new(b))
            }
            5 => self.if_expr(&Ty::Num, sc),
            6 => self.block(&Ty::Num, sc),
            7 => {
                let f = self.g.pick(&callees).clone();
                self.call_fn(&f, sc)
            }
            8 => {
                let v = self.g.pick(&tup_vars).clone();
                let n = if let Ty::Tup(ts) = &v.ty { ts.len() } else { 1 };
                E::Proj(Box::new(E::Var(v.name)), self.g.usize_below(n))
            }
            9 => {
                let v = self.g.pick(&rec_vars).clone();
                if let Ty::Rec(fs) = &v.ty {
                    let nums: Vec<&(String, Ty)> = fs.iter().filter(|(_, t)| *t == Ty::Num).collect();
                    if nums.is_empty() {
                        return self.leaf_num(sc);
                    }
                    let f = self.g.pick(&nums).0.clone();
                    E::Field(Box::new(E::Var(v.name)), f)
                } else {
                    self.leaf_num(sc)
                }
            }
            10 => {
                let v = self.g.pick(&clo_vars).clone();
                if let Ty::Fun(ps, _) = &v.ty {
                    let args: Vec<E> = ps.clone().iter().map(|p| self.expr(p, sc)).collect();
                    let id = self.id();
                    E::Call(id, Box::new(E::Var(v.name)), args)
                } else {
                    self.leaf_num(sc)
                }
            }
            11 => {
                self.feat.mems += 1;
                if sc.in_branch {
                    self.feat.stateful_in_branch += 1;
                }
                let id = self.id();
                E::Mem(id, Box::new(self.num(sc)))
            }
            12 => {
                self.feat.delays += 1;
                sc.fn_has_delay = true;
                if sc.in_branch {
                    self.feat.stateful_in_branch += 1;
                }
                let n = *self.g.pick(&[2u32, 3, 4, 5, 8, 16, 33]);
                self.feat.max_delay = self.feat.max_delay.max(n);
                let x = self.num(sc);
                let t = if self.cfg.wild_delay_time && self.g.bool(1, 4) {
                    self.num(sc)
                } else if self.cfg.wild_delay_time && self.g.bool(1, 4) {
                    // the edges of the buffer: 0, just below / at / above the declared maximum, fractions
                    let nn = n as f64;
                    let v = *self.g.pick(&[nn, nn - 1.0, nn + 1.0, 0.0, nn - 0.5, nn + 0.5, 0.5, nn * 2.0]);
                    E::Lit(format!("{v:?}"))
                } else if n >= 3 && self.g.bool(1, 3) {
                    // a time that changes from sample to sample but stays inside [1, N-1]
                    let lit = |g: &mut Gen| {
                        let k = g.int(1, (n - 1) as i64);
                        if k < (n - 1) as i64 && g.bool(1, 4) { format!("{k}.5") } else { format!("{k}.0") }
                    };
                    if self.cfg.modulo && self.g.bool(1, 3) {
                        // base + (now % k), base + k - 1 <= N - 1
                        let k = self.g.int(2, (n - 1) as i64);
                        let base = self.g.int(1, (n as i64 - 1) - (k - 1));
                        self.feat.varying_delay_time += 1;
                        E::Bin(Bop::Add, Box::new(E::Lit(format!("{base}.0"))), Box::new(E::Bin(Bop::Mod, Box::new(E::Now), Box::new(E::Lit(format!("{k}.0"))))))
                    } else {
                        let (a, b) = (lit(self.g), lit(self.g));
                        let raw = std::mem::replace(&mut self.cfg.raw_conditions, false);
                        let c = self.cond(sc);
                        self.cfg.raw_conditions = raw;
                        self.feat.varying_delay_time += 1;
                        E::If(Box::new(c), Box::new(E::Lit(a)), Box::new(E::Lit(b)))
                    }
                } else {
                    E::Lit(format!("{}.0", self.g.int(1, (n - 1) as i64)))
                };
                let id = self.id();
                // one delay in four declares a fractional maximum (`delay(4.5, x, t)`): the buffer has
                // trunc(N) slots, the times generated above stay inside [1, trunc(N)-1]
                let frac = if self.cfg.fractional_delay_max && self.g.bool(1, 4) { self.g.int(1, 3) as u32 } else { 0 };
                if frac > 0 {
                    self.feat.fractional_delay_max += 1;
                }
                E::Delay(id, n | (frac << 16), Box::new(x), Box::new(t))
            }
            13 => self.local_closure(sc),
            26 => {
                // { letrec rc = |n| { let m = body(n)  if (n > 0.5) { rc(n - 1.0) op m } else { leaf } }  rc(k) }
                // a local of the closure (m) is live across the recursive call; depth <= 4 by the literal k
                self.feat.local_letrec += 1;
                let saved = self.fuel;
                self.fuel = self.fuel.min(4);
                let lam = self.lambda(&[Ty::Num], &Ty::Num, sc);
                self.fuel = saved;
                let E::Lam(params, body) = lam else { unreachable!() };
                let n = params[0].name.clone();
                let rc = self.fresh("rc");
                let m = self.fresh("m");
                let op = *self.g.pick(&[Bop::Add, Bop::Sub, Bop::Mul]);
                let id = self.id();
                let rec_call = E::Call(id, Box::new(E::Var(rc.clone())), vec![E::Bin(Bop::Sub, Box::new(E::Var(n.clone())), Box::new(E::Lit("1.0".into())))]);
                let step = if self.g.coin() { E::Bin(op, Box::new(rec_call), Box::new(E::Var(m.clone()))) } else { E::Bin(op, Box::new(E::Var(m.clone())), Box::new(rec_call)) };
                let base = self.lit();
                let cond = E::Bin(Bop::Gt, Box::new(E::Var(n.clone())), Box::new(E::Lit("0.5".into())));
                let new_body = E::Block(vec![S::Let(Pat::Var(m), *body)], Box::new(E::If(Box::new(cond), Box::new(step), Box::new(base))));
                let k = self.g.int(0, 4);
                let id2 = self.id();
                let mut last = E::Call(id2, Box::new(E::Var(rc.clone())), vec![E::Lit(format!("{k}.0"))]);
                if self.g.bool(1, 3) {
                    let k2 = self.g.int(0, 3);
                    let id3 = self.id();
                    last = E::Bin(Bop::Add, Box::new(last), Box::new(E::Call(id3, Box::new(E::Var(rc.clone())), vec![E::Lit(format!("{k2}.0"))])));
                }
                E::Block(vec![S::LetRec(rc, E::Lam(params, Box::new(new_body)))], Box::new(last))
            }
            14 => {
                // `let (a, b) = self  a` — projection needs a known tuple type, destructuring does not
                self.feat.self_uses += 1;
                self.feat.tuple_self += 1;
                let sty = sc.self_ty.clone().unwrap_or(Ty::Num);
                let mut leaves = vec![];
                let pat = self.pat_of_ty(&sty, &mut leaves);
                let k = self.g.usize_below(leaves.len().max(1));
                E::Block(vec![S::Let(pat, E::SelfV)], Box::new(E::Var(leaves.get(k).cloned().unwrap_or_default())))
            }
            15 => {
                // x |> |a| body
                self.feat.pipes += 1;
                self.feat.hof_calls += 1;
                let x = self.num(sc);
                let pname = self.fresh("arg");
                let mut inner = Scope { vars: sc.vars.iter().filter(|v| self.cfg.capture_destructured || !v.destructured).map(|v| VarInfo { assignable: false, captured: true, ..v.clone() }).collect(), self_ty: None, allow_state: false, in_branch: false, fn_has_delay: false, allow_assign: false, allow_closure: false, in_lambda: true, depth_stateful: 0, in_tuple_lit: false, in_operand: false, in_cond: false };
                inner.vars.push(VarInfo { name: pname.clone(), ty: Ty::Num, assignable: false, destructured: false, captured: false });
                let body = self.num(&mut inner);
                let id = self.id();
                E::Pipe(id, Box::new(x), Box::new(E::Lam(vec![Param { name: pname, ty: Ty::Num, annotate: false }], Box::new(body))))
            }
            24 => {
                // the callee of the outer application is itself a call (whose argument may be stateful)
                self.feat.curried += 1;
                self.feat.closures_local += 1;
                let f = self.g.pick(&factories).clone();
                let was = sc.in_operand;
                sc.in_operand = true;
                let inner = self.call_fn(&f, sc);
                // call_fn may have produced the pipe form e |> mk; the factory call proper is needed here
                let mut inner = match inner {
                    E::Pipe(id, a, _) => E::Call(id, Box::new(E::Var(f.name.clone())), vec![*a]),
                    other => other,
                };
                // half of the time the factory's argument is itself stateful (a state cell that belongs
                // to the CALLEE expression of the outer application)
                if state_ok && self.g.coin() {
                    let stateful_callees: Vec<FnSig> = callees.iter().filter(|c| c.stateful && c.ret == Ty::Num).cloned().collect();
                    let arg = if !stateful_callees.is_empty() && self.g.coin() {
                        let c = self.g.pick(&stateful_callees).clone();
                        self.call_fn(&c, sc)
                    } else {
                        self.feat.mems += 1;
                        let mid = self.id();
                        E::Mem(mid, Box::new(self.small_num(sc)))
                    };
                    if let E::Call(_, _, args) = &mut inner {
                        *args = vec![arg];
                    }
                }
                let y = self.small_num(sc);
                sc.in_operand = was;
                let id = self.id();
                if self.g.bool(1, 3) {
                    E::Pipe(id, Box::new(y), Box::new(inner))
                } else {
                    E::Call(id, Box::new(inner), vec![y])
                }
            }
            25 => {
                // { let (s1, s2) = (e1, e2) |> f  s1 + s2 }
                self.feat.spreads += 1;
                self.feat.pipes += 1;
                let f = self.g.pick(&unary_callees).clone();
                let k = self.g.int(2, 3) as usize;
                let mut ids = vec![];
                for _ in 0..k {
                    // every element is its own call site of f
                    let probe = self.call_fn(&FnSig { params: vec![], ..f.clone() }, sc);
                    ids.push(match probe {
                        E::Call(id, ..) | E::Pipe(id, ..) => id,
                        _ => self.id(),
                    });
                }
                let was_tl = sc.in_tuple_lit;
                sc.in_tuple_lit = true;
                let mut elems = vec![self.small_num(sc)];
                for _ in 1..k {
                    let saved = self.fuel;
                    self.fuel = saved.min(3);
                    elems.push(self.num(sc));
                    self.fuel = saved;
                }
                sc.in_tuple_lit = was_tl;
                let vars: Vec<String> = (0..k).map(|_| self.fresh("s")).collect();
                let sum = vars.iter().skip(1).fold(E::Var(vars[0].clone()), |acc, v| E::Bin(Bop::Add, Box::new(acc), Box::new(E::Var(v.clone()))));
                E::Block(vec![S::Let(Pat::Tup(vars.iter().map(|v| Pat::Var(v.clone())).collect()), E::Spread(ids, f.name.clone(), elems))], Box::new(sum))
            }
            23 => {
                // (e1, e2) |> f      or      {p2 = e2, p1 = e1[, ..]} |> f
                self.feat.pipes += 1;
                self.feat.packs += 1;
                let f = self.g.pick(&pack_callees).clone();
                // register the call site like an ordinary call
                let probe = self.call_fn(&FnSig { params: vec![], ..f.clone() }, sc);
                let id = match probe {
                    E::Call(id, ..) | E::Pipe(id, ..) => id,
                    _ => self.id(),
                };
                let n = f.params.len();
                if self.g.coin() {
                    let fields: Vec<(Option<String>, E)> = (0..n).map(|_| (None, self.small_num(sc))).collect();
                    E::Pack(id, f.name.clone(), fields, false)
                } else {
                    let order = self.g.perm(n);
                    let mut fields = vec![];
                    let mut dots = false;
                    for i in order {
                        if f.defaults.get(i).copied().unwrap_or(false) && self.g.coin() {
                            dots = true;
                            continue;
                        }
                        fields.push((Some(f.pnames[i].clone()), self.small_num(sc)));
                    }
                    // `{a = 1, ..}`: the explicit `..` is a recorded finding (defaults are not filled in);
                    // without it the missing fields are simply left out, which works
                    E::Pack(id, f.name.clone(), fields, dots && self.cfg.pack_dots)
                }
            }
            22 => {
                // { let c = e0
                //   let inc = |x| { c = c + x  c }     (a closure that assigns the captured local)
                //   let get = |x| c * x                (a sibling that reads it)
                //   [c = c + e1]                       (the frame assigns it after the capture)
                //   inc(a) + get(b) }                  — none of the closures leaves the frame
                self.feat.closures_local += 2;
                self.feat.shared_cells += 1;
                self.feat.assigns += 1;
                let c = self.fresh("c");
                let inc = self.fresh("inc");
                let get = self.fresh("get");
                let (x1, x2) = (self.fresh("x"), self.fresh("x"));
                let init = self.small_num(sc);
                let mut stmts = vec![S::Let(Pat::Var(c.clone()), init)];
                let inc_body = E::Block(vec![S::Let(Pat::Var(self.fresh("u")), E::Lit("0.0".into())), S::Assign(c.clone(), E::Bin(Bop::Add, Box::new(E::Var(c.clone())), Box::new(E::Var(x1.clone()))))], Box::new(E::Var(c.clone())));
                stmts.push(S::Let(Pat::Var(inc.clone()), E::Lam(vec![Param { name: x1, ty: Ty::Num, annotate: self.g.coin() }], Box::new(inc_body))));
                stmts.push(S::Let(Pat::Var(get.clone()), E::Lam(vec![Param { name: x2.clone(), ty: Ty::Num, annotate: self.g.coin() }], Box::new(E::Bin(Bop::Mul, Box::new(E::Var(c.clone())), Box::new(E::Var(x2)))))));
                if self.g.coin() {
                    let e1 = self.small_num(sc);
                    stmts.push(S::Assign(c.clone(), E::Bin(Bop::Add, Box::new(E::Var(c.clone())), Box::new(e1))));
                }
                let a = self.small_num(sc);
                let b = self.small_num(sc);
                let (i1, i2) = (self.id(), self.id());
                let first_inc = self.g.coin();
                let ci = E::Call(i1, Box::new(E::Var(inc)), vec![a]);
                let cg = E::Call(i2, Box::new(E::Var(get)), vec![b]);
                let last = if first_inc { E::Bin(Bop::Add, Box::new(ci), Box::new(cg)) } else { E::Bin(Bop::Add, Box::new(cg), Box::new(ci)) };
                E::Block(stmts, Box::new(last))
            }
            21 => {
                // { let k = <closure>  let lo = |x| k(x) + a  let hi = |x| k(x) * b  lo(u) + hi(v) }
                // two closures of one frame capture the same closure-typed local
                self.feat.closures_local += 2;
                self.feat.sibling_closures += 1;
                let v = self.g.pick(&clo_vars).clone();
                let nparams = if let Ty::Fun(ps, _) = &v.ty { ps.len() } else { 0 };
                let k = self.fresh("k");
                let mut stmts = vec![S::Let(Pat::Var(k.clone()), E::Var(v.name.clone()))];
                let mut calls = vec![];
                for (hint, op) in [("lo", Bop::Add), ("hi", Bop::Mul)] {
                    let f = self.fresh(hint);
                    let x = self.fresh("x");
                    let id = self.id();
                    let inner = E::Call(id, Box::new(E::Var(k.clone())), (0..nparams).map(|_| E::Var(x.clone())).collect());
                    let c = self.lit();
                    let body = E::Bin(op, Box::new(inner), Box::new(c));
                    stmts.push(S::Let(Pat::Var(f.clone()), E::Lam(vec![Param { name: x, ty: Ty::Num, annotate: self.g.coin() }], Box::new(body))));
                    let a = self.small_num(sc);
                    let cid = self.id();
                    calls.push(E::Call(cid, Box::new(E::Var(f)), vec![a]));
                }
                let b = calls.pop().unwrap();
                let a = calls.pop().unwrap();
                E::Block(stmts, Box::new(E::Bin(Bop::Add, Box::new(a), Box::new(b))))
            }
            20 => {
                // { let tb = [e0, e1, ..]  tb[index] }  — the index may be any number, stateful calls included
                self.feat.arrays += 1;
                let name = self.fresh("tb");
                let n = self.g.int(1, 4) as usize;
                if self.cfg.aggregate_arrays && self.g.bool(1, 3) {
                    // an array of tuples (elements of 2-3 words): { let tb = [(a, b), ..]  let (p, q) = tb[index]  p * c + q }
                    self.feat.aggregate_arrays += 1;
                    let w = self.g.int(2, 3) as usize;
                    let elems: Vec<E> = (0..n).map(|_| E::Tup((0..w).map(|_| self.small_num(sc)).collect())).collect();
                    let idx = self.num(sc);
                    let idx = if self.cfg.array_index_inf { idx } else { E::Bin(Bop::Mul, Box::new(E::B1("sin", Box::new(idx))), Box::new(E::Lit("6.0".into()))) };
                    let parts: Vec<String> = (0..w).map(|_| self.fresh("el")).collect();
                    let c = self.lit();
                    let mut body = E::Bin(Bop::Mul, Box::new(E::Var(parts[0].clone())), Box::new(c));
                    for q in &parts[1..] {
                        body = E::Bin(Bop::Add, Box::new(body), Box::new(E::Var(q.clone())));
                    }
                    return E::Block(
                        vec![S::Let(Pat::Var(name.clone()), E::ArrLit(elems)), S::Let(Pat::Tup(parts.iter().map(|q| Pat::Var(q.clone())).collect()), E::Index(Box::new(E::Var(name)), Box::new(idx)))],
                        Box::new(body),
                    );
                }
                let elems: Vec<E> = (0..n).map(|_| if self.g.bool(1, 3) { self.num(sc) } else { self.small_num(sc) }).collect();
                let idx = self.num(sc);
                let idx = if self.cfg.array_index_inf { idx } else { E::Bin(Bop::Mul, Box::new(E::B1("sin", Box::new(idx))), Box::new(E::Lit("6.0".into()))) };
                E::Block(vec![S::Let(Pat::Var(name.clone()), E::ArrLit(elems))], Box::new(E::Index(Box::new(E::Var(name)), Box::new(idx))))
            }
            19 => {
                self.feat.matches += 1;
                self.feat.branches += 1;
                let was_op = sc.in_operand;
                sc.in_operand = true;
                let scrut = self.num(sc);
                sc.in_operand = was_op;
                let keys = [0i64, 1, 2, 3, 5];
                let n = self.g.int(1, 3) as usize;
                let start = self.g.usize_below(3);
                let was = sc.in_branch;
                sc.in_branch = true;
                let arms: Vec<(i64, E)> = (0..n).map(|i| (keys[start + i], self.num(sc))).collect();
                let d = self.num(sc);
                sc.in_branch = was;
                E::MatchNum(Box::new(scrut), arms, Box::new(d))
            }
            18 => {
                // { let (a, (b, c)) = f(args)  a + c }
                let f = self.g.pick(&tuple_callees).clone();
                let call = self.call_fn(&f, sc);
                let mut leaves = vec![];
                let pat = self.pat_of_ty(&f.ret, &mut leaves);
                let a = leaves[self.g.usize_below(leaves.len())].clone();
                let b = leaves[self.g.usize_below(leaves.len())].clone();
                E::Block(vec![S::Let(pat, call)], Box::new(E::Bin(Bop::Add, Box::new(E::Var(a)), Box::new(E::Var(b)))))
            }
            17 => {
                // { let c = mk(lit)  c() + c() } — a closure instance created and dropped per sample
                let makers: Vec<FnSig> = self.fns.iter().filter(|f| f.maker).cloned().collect();
                let m = self.g.pick(&makers).clone();
                self.feat.closures_local += 1;
                let cname = self.fresh("pc");
                let init = self.lit();
                let id = self.id();
                let mk = E::Call(id, Box::new(E::Var(m.name.clone())), vec![init]);
                let nargs = if let Ty::Fun(ps, _) = &m.ret { ps.len() } else { 0 };
                let mut calls = vec![];
                for _ in 0..self.g.int(1, 2) {
                    let args: Vec<E> = (0..nargs).map(|_| self.lit()).collect();
                    let cid = self.id();
                    calls.push(E::Call(cid, Box::new(E::Var(cname.clone())), args));
                }
                let last = calls.into_iter().reduce(|a, b| E::Bin(Bop::Add, Box::new(a), Box::new(b))).unwrap();
                E::Block(vec![S::Let(Pat::Var(cname), mk)], Box::new(last))
            }
            _ => {
                let c = self.cond(sc);
                c
            }
        }
    }

    fn call_fn(&mut self, f: &FnSig, sc: &mut Scope) -> E {
        let args: Vec<E> = f.params.clone().iter().map(|p| self.expr(p, sc)).collect();
        let id = self.id();
        if f.stateful {
            self.feat.stateful_calls += 1;
            self.feat.stateful_depth = self.feat.stateful_depth.max(f.depth + 1);
            sc.depth_stateful = sc.depth_stateful.max(f.depth + 1);
            if sc.in_branch {
                self.feat.stateful_in_branch += 1;
            }
            if let Some(e) = self.site_counts.iter_mut().find(|(n, _)| *n == f.name) {
                e.1 += 1;
                if e.1 == 2 {
                    self.feat.same_fn_sites += 1;
                }
            } else {
                self.site_counts.push((f.name.clone(), 1));
            }
        }
        if args.len() == 1 && self.g.bool(1, 5) {
            self.feat.pipes += 1;
            let a = args.into_iter().next().unwrap();
            return E::Pipe(id, Box::new(a), Box::new(E::Var(f.name.clone())));
        }
        E::Call(id, Box::new(E::Var(f.name.clone())), args)
    }

    fn if_expr(&mut self, ty: &Ty, sc: &mut Scope) -> E {
        self.feat.branches += 1;
        let c = self.cond(sc);
        let was = sc.in_branch;
        sc.in_branch = true;
        let a = self.expr(ty, sc);
        let b = self.expr(ty, sc);
        sc.in_branch = was;
        E::If(Box::new(c), Box::new(a), Box::new(b))
    }

    /// full destructuring pattern of a (possibly nested) tuple type; collects the numeric leaves
    fn pat_of_ty(&mut self, ty: &Ty, leaves: &mut Vec<String>) -> Pat {
        match ty {
            Ty::Tup(ts) => Pat::Tup(ts.clone().iter().map(|t| self.pat_of_ty(t, leaves)).collect()),
            _ => {
                let n = self.fresh("sv");
                if *ty == Ty::Num {
                    leaves.push(n.clone());
                }
                Pat::Var(n)
            }
        }
    }

    fn pattern_for(&mut self, ty: &Ty, sc: &mut Scope, assignable: bool) -> Pat {
        let mark = sc.vars.len();
        let p = self.pattern_for_inner(ty, sc, assignable);
        if !matches!(p, Pat::Var(_)) {
            for v in &mut sc.vars[mark..] {
                v.destructured = true;
            }
        }
        p
    }
    fn pattern_for_inner(&mut self, ty: &Ty, sc: &mut Scope, assignable: bool) -> Pat {
        match ty {
            Ty::Tup(ts) if self.g.bool(2, 3) => Pat::Tup(ts.clone().iter().map(|t| self.pattern_for_inner(t, sc, assignable)).collect()),
            Ty::Rec(fs) if self.g.bool(self.cfg.rec_pattern_thirds, 3) => {
                let mut items: Vec<(String, Pat)> = fs.clone().iter().map(|(n, t)| (n.clone(), self.pattern_for_inner(t, sc, assignable))).collect();
                // a record pattern binds by key: half of the patterns list their fields in another
                // order than the record's (alphabetical) layout
                if items.len() > 1 && self.g.bool(1, 2) {
                    let perm = self.g.perm(items.len());
                    let mut slots: Vec<Option<(String, Pat)>> = items.drain(..).map(Some).collect();
                    items = perm.iter().map(|&i| slots[i].take().unwrap()).collect();
                    self.feat.rec_pattern_permuted += 1;
                }
                Pat::Rec(items)
            }
            _ => {
                let name = self.fresh("");
                sc.vars.push(VarInfo { name: name.clone(), ty: ty.clone(), assignable, destructured: false, captured: false });
                Pat::Var(name)
            }
        }
    }

    fn block(&mut self, ty: &Ty, sc: &mut Scope) -> E {
        let was_operand = sc.in_operand;
        let was_cond = sc.in_cond;
        sc.in_operand = false;
        sc.in_cond = false;
        let r = self.block_inner(ty, sc);
        sc.in_operand = was_operand;
        sc.in_cond = was_cond;
        r
    }
    fn block_inner(&mut self, ty: &Ty, sc: &mut Scope) -> E {
        let mark = sc.vars.len();
        let n = self.g.int_small(1, 3);
        let mut stmts = vec![];
        for _ in 0..n {
            let assignables: Vec<VarInfo> = sc.vars.iter().filter(|v| v.assignable && v.ty == Ty::Num).cloned().collect();
            // `{ x = e ...` would be read as a record literal: a block never starts with an assignment
            if !stmts.is_empty() && self.cfg.assigns && sc.allow_assign && !assignables.is_empty() && self.g.bool(1, 3) {
                let v = self.g.pick(&assignables).clone();
                let e = self.num(sc);
                self.feat.assigns += 1;
                stmts.push(S::Assign(v.name, e));
            } else {
                let t = self.small_ty(true);
                match &t {
                    Ty::Tup(_) => self.feat.tuples += 1,
                    Ty::Rec(_) => self.feat.records += 1,
                    _ => {}
                }
                let e = self.expr(&t, sc);
                let assignable = sc.allow_assign && !sc.in_lambda;
                let p = self.pattern_for(&t, sc, assignable);
                stmts.push(S::Let(p, e));
            }
        }
        let last = self.expr(ty, sc);
        sc.vars.truncate(mark);
        E::Block(stmts, Box::new(last))
    }

    fn tup(&mut self, ts: &[Ty], sc: &mut Scope) -> E {
        self.fuel -= 1;
        let ty = Ty::Tup(ts.to_vec());
        let vars = self.vars_of(sc, &ty);
        let callees: Vec<FnSig> = self.fns.iter().filter(|f| f.ret == ty && !f.maker && (sc.allow_state || !f.stateful) && (self.cfg.state_in_branches || !sc.in_branch || !f.stateful)).cloned().collect();
        let self_ok = sc.self_ty.as_ref() == Some(&ty);
        let w = [6, if vars.is_empty() { 0 } else { 3 }, if callees.is_empty() || self.fuel <= 0 { 0 } else { 4 }, if self.fuel > 0 && self.cfg.tuple_if && !(sc.in_lambda && !self.cfg.if_in_lambda) { 1 } else { 0 }, if self_ok { 3 } else { 0 }, if self.fuel > 0 { 1 } else { 0 }];
        match self.g.weighted(&w) {
            0 => {
                self.feat.tuples += 1;
                // the parser tells a tuple from a parenthesised expression with a bounded
                // lookahead (20 tokens): keep the elements short
                let saved = self.fuel;
                let was_tl = sc.in_tuple_lit;
                sc.in_tuple_lit = true;
                let es = ts
                    .iter()
                    .enumerate()
                    .map(|(i, t)| {
                        // never more than the caller had left: nested tuple arguments must not refuel
                        self.fuel = saved.min(2);
                        match t {
                            Ty::Num => self.small_num(sc),
                            // only the first element sits inside the lookahead window
                            other if i == 0 => self.short_first(other, sc),
                            other => self.expr(other, sc),
                        }
                    })
                    .collect();
                sc.in_tuple_lit = was_tl;
                self.fuel = saved - 1;
                E::Tup(es)
            }
            1 => E::Var(self.g.pick(&vars).name.clone()),
            2 => {
                let f = self.g.pick(&callees).clone();
                self.call_fn(&f, sc)
            }
            3 => self.if_expr(&ty, sc),
            4 => {
                self.feat.self_uses += 1;
                self.feat.tuple_self += 1;
                E::SelfV
            }
            _ => self.block(&ty, sc),
        }
    }

    /// a non-scalar first element of a tuple literal: a variable, or a literal of leaves
    /// (the comma after it must fall inside the parser's 20-token lookahead)
    fn short_first(&mut self, ty: &Ty, sc: &mut Scope) -> E {
        let vars = self.vars_of(sc, ty);
        if !vars.is_empty() && self.g.bool(1, 2) {
            return E::Var(self.g.pick(&vars).name.clone());
        }
        match ty {
            Ty::Num => self.leaf_num(sc),
            Ty::Tup(ts) => {
                self.feat.tuples += 1;
                E::Tup(ts.iter().map(|t| self.short_first(t, sc)).collect())
            }
            other => self.expr(other, sc),
        }
    }

    fn rec(&mut self, fs: &[(String, Ty)], sc: &mut Scope) -> E {
        self.fuel -= 1;
        let ty = Ty::Rec(fs.to_vec());
        let vars = self.vars_of(sc, &ty);
        self.feat.records += 1;
        match self.g.weighted(&[5, if vars.is_empty() { 0 } else { 3 }, if vars.is_empty() || (self.in_global_init && !self.cfg.record_update_in_globals) { 0 } else { 2 }]) {
            0 => E::Rec(fs.iter().map(|(n, t)| (n.clone(), self.expr(t, sc))).collect()),
            1 => E::Var(self.g.pick(&vars).name.clone()),
            _ => {
                let v = self.g.pick(&vars).name.clone();
                let k = self.g.int(1, fs.len() as i64) as usize;
                let upd: Vec<(String, E)> = fs.iter().take(k).map(|(n, t)| (n.clone(), self.expr(t, sc))).collect();
                E::RecUpd(Box::new(E::Var(v)), upd)
            }
        }
    }

    fn fun(&mut self, ps: &[Ty], r: &Ty, sc: &mut Scope) -> E {
        // a lambda with a stateless body, or a named stateless function of that type
        let ty = Ty::Fun(ps.to_vec(), Box::new(r.clone()));
        let named: Vec<FnSig> = self.fns.iter().filter(|f| !f.stateful && !f.maker && f.params == ps && f.ret == *r).cloned().collect();
        let vars = self.vars_of(sc, &ty);
        match self.g.weighted(&[4, if named.is_empty() { 0 } else { 3 }, if vars.is_empty() { 0 } else { 2 }]) {
            0 => {
                let l = self.lambda(ps, r, sc);
                if !self.cfg.assign_after_closure_escapes {
                    // the lambda is about to be passed on: from here on the frame must not assign
                    // the variables it may have captured (recorded VM finding)
                    sc.vars.iter_mut().for_each(|v| v.assignable = false);
                }
                l
            }
            1 => E::Var(self.g.pick(&named).name.clone()),
            _ => E::Var(self.g.pick(&vars).name.clone()),
        }
    }

    fn lambda(&mut self, ps: &[Ty], r: &Ty, sc: &mut Scope) -> E {
        let mut inner = Scope { vars: sc.vars.iter().filter(|v| self.cfg.capture_destructured || !v.destructured).map(|v| VarInfo { assignable: false, captured: true, ..v.clone() }).collect(), self_ty: None, allow_state: false, in_branch: false, fn_has_delay: false, allow_assign: false, allow_closure: false, in_lambda: true, depth_stateful: 0, in_tuple_lit: false, in_operand: false, in_cond: false };
        let mut params = vec![];
        for p in ps {
            let n = self.fresh("x");
            inner.vars.push(VarInfo { name: n.clone(), ty: p.clone(), assignable: false, destructured: false, captured: false });
            params.push(Param { name: n, ty: p.clone(), annotate: !matches!(p, Ty::Num) || self.g.bool(1, 4) });
        }
        let body = self.expr(r, &mut inner);
        E::Lam(params, Box::new(body))
    }

    /// `{ let f = |a| body;  f(x) + f(y) }` — closure called in the frame that created it
    fn local_closure(&mut self, sc: &mut Scope) -> E {
        self.feat.closures_local += 1;
        // parameter list: one number, or (a third of the time) 1-3 parameters of which some are
        // tuples / records, so that a parameter follows a multi-word one
        let ps: Vec<Ty> = if self.cfg.closure_aggregate_params && self.g.bool(1, 3) {
            let k = self.g.int(1, 3) as usize;
            let mut v: Vec<Ty> = (0..k).map(|_| if self.g.bool(1, 2) { self.small_ty(true) } else { Ty::Num }).collect();
            if v.iter().all(|t| *t == Ty::Num) {
                v[0] = self.small_ty(true);
            }
            self.feat.closure_aggregate_params += 1;
            v
        } else {
            vec![Ty::Num]
        };
        let lam = self.lambda(&ps, &Ty::Num, sc);
        let fname = self.fresh("f");
        let a1: Vec<E> = ps.iter().map(|t| self.expr(t, sc)).collect();
        let id1 = self.id();
        let c1 = E::Call(id1, Box::new(E::Var(fname.clone())), a1);
        let last = if self.g.coin() {
            let a2: Vec<E> = ps.iter().map(|t| self.expr(t, sc)).collect();
            let id2 = self.id();
            E::Bin(Bop::Add, Box::new(c1), Box::new(E::Call(id2, Box::new(E::Var(fname.clone())), a2)))
        } else {
            c1
        };
        E::Block(vec![S::Let(Pat::Var(fname), lam)], Box::new(last))
    }

    // ------------------------------------------------------------ top level
    fn gen_fn(&mut self, name: String, params: Vec<(String, Ty)>, ret: Ty, allow_state: bool) -> (FnDef, bool, u32, Features) {
        let before = self.feat.clone();
        let use_assign = self.cfg.assigns && self.g.bool(1, 3);
        let mut sc = Scope {
            vars: params.iter().map(|(n, t)| VarInfo { name: n.clone(), ty: t.clone(), assignable: false, destructured: false, captured: false }).collect(),
            self_ty: if allow_state && self.cfg.state && ret.is_flat_num() && !matches!(ret, Ty::Rec(_)) && self.g.bool(3, 5) { Some(ret.clone()) } else { None },
            allow_state,
            in_branch: false,
            fn_has_delay: false,
            allow_assign: use_assign,
            allow_closure: !use_assign,
            in_lambda: false,
            depth_stateful: 0,
            in_tuple_lit: false,
            in_operand: false,
            in_cond: false,
        };
        let body = if self.g.bool(2, 3) { self.block(&ret, &mut sc) } else { self.expr(&ret, &mut sc) };
        let stateful = self.feat.self_uses > before.self_uses || self.feat.mems > before.mems || self.feat.delays > before.delays || sc.depth_stateful > 0;
        let ps = params.into_iter().map(|(n, t)| Param { name: n, annotate: !matches!(t, Ty::Num) || self.g.bool(1, 3), ty: t }).collect();
        let uses_self = self.feat.self_uses > before.self_uses;
        if uses_self && matches!(&sc.self_ty, Some(Ty::Tup(ts)) if ts.iter().any(|t| matches!(t, Ty::Tup(_)))) {
            self.feat.nested_tuple_self += 1;
        }
        let annotate_ret = !matches!(ret, Ty::Num) || self.g.bool(1, 4) || (uses_self && !self.cfg.unannotated_self);
        (FnDef { name, params: ps, defaults: vec![], ret, annotate_ret, body }, stateful, sc.depth_stateful, before)
    }

    /// counter-maker pattern: a function that declares a variable, and returns a closure that
    /// reads and assigns it.
    fn gen_maker(&mut self) -> (FnDef, FnSig) {
        self.feat.makers += 1;
        let name = self.fresh("mk");
        let p = self.fresh("init");
        let x = self.fresh("st");
        let r = self.fresh("res");
        let arg = self.fresh("inc");
        let with_arg = self.g.coin();
        let mut sc = Scope { vars: vec![VarInfo { name: x.clone(), ty: Ty::Num, assignable: false, destructured: false, captured: false }, VarInfo { name: p.clone(), ty: Ty::Num, assignable: false, destructured: false, captured: false }], self_ty: None, allow_state: false, in_branch: false, fn_has_delay: false, allow_assign: false, allow_closure: false, in_lambda: true, depth_stateful: 0, in_tuple_lit: false, in_operand: false, in_cond: false };
        if with_arg {
            sc.vars.push(VarInfo { name: arg.clone(), ty: Ty::Num, assignable: false, destructured: false, captured: false });
        }
        let saved = self.fuel;
        self.fuel = self.fuel.min(6);
        let upd = self.num(&mut sc);
        self.fuel = saved;
        self.feat.assigns += 1;
        let lam_params = if with_arg { vec![Param { name: arg.clone(), ty: Ty::Num, annotate: false }] } else { vec![] };
        let lam = E::Lam(lam_params, Box::new(E::Block(vec![S::Let(Pat::Var(r.clone()), E::Var(x.clone())), S::Assign(x.clone(), upd)], Box::new(E::Var(r)))));
        let cname = self.fresh("cl");
        let body = E::Block(vec![S::Let(Pat::Var(x), E::Var(p.clone())), S::Let(Pat::Var(cname.clone()), lam)], Box::new(E::Var(cname)));
        let clo_ty = Ty::Fun(if with_arg { vec![Ty::Num] } else { vec![] }, Box::new(Ty::Num));
        let def = FnDef { name: name.clone(), params: vec![Param { name: p, ty: Ty::Num, annotate: false }], defaults: vec![], ret: clo_ty.clone(), annotate_ret: false, body };
        (def, FnSig { name, params: vec![Ty::Num], ret: clo_ty, stateful: false, depth: 0, maker: true, pnames: vec![], defaults: vec![], spread_ok: false })
    }

    pub fn program(&mut self) -> Prog {
        self.fuel = self.cfg.fuel;
        let mut tops = vec![];
        let nf = self.g.int_small(0, self.cfg.max_fns as i64) as usize;
        for _ in 0..nf {
            self.fuel = self.g.int(4, self.cfg.fuel as i64 / 2) as i32;
            match self.g.weighted(&[8, if self.cfg.makers && self.cfg.closures { 2 } else { 0 }, if self.cfg.globals { 2 } else { 0 }, if self.cfg.hof { 2 } else { 0 }, if self.cfg.factories && self.cfg.closures { 2 } else { 0 }]) {
                0 => {
                    let name = self.fresh("fun");
                    let np = self.g.int_small(0, 3) as usize;
                    let params: Vec<(String, Ty)> = (0..np).map(|_| (self.fresh("p"), self.small_ty(false))).collect();
                    let ret = if self.cfg.nested_tuples && self.g.bool(1, 5) {
                        if self.g.coin() { Ty::Tup(vec![Ty::Num, Ty::Tup(vec![Ty::Num, Ty::Num])]) } else { Ty::Tup(vec![Ty::Tup(vec![Ty::Num, Ty::Num]), Ty::Num]) }
                    } else if self.g.bool(1, 4) {
                        self.small_ty(false)
                    } else {
                        Ty::Num
                    };
                    let allow_state = self.cfg.state && self.g.bool(3, 4);
                    let (mut def, stateful, depth, _) = self.gen_fn(name.clone(), params.clone(), ret.clone(), allow_state);
                    // trailing parameters of an all-number function may get defaults
                    let mut defaults = vec![false; params.len()];
                    if self.cfg.default_args && params.len() >= 2 && params.iter().all(|(_, t)| *t == Ty::Num) && self.g.bool(1, 3) {
                        def.defaults = vec![None; params.len()];
                        for i in 1..params.len() {
                            if self.g.coin() {
                                let E::Lit(l) = self.lit() else { unreachable!() };
                                def.defaults[i] = Some(l);
                                defaults[i] = true;
                            }
                        }
                    }
                    let pnames = params.iter().map(|(n, _)| n.clone()).collect();
                    let mut spread_ok = false;
                    if params.len() == 1 && params[0].1 == Ty::Num && ret == Ty::Num && self.cfg.auto_spread && self.g.coin() {
                        def.params[0].annotate = true;
                        def.annotate_ret = true;
                        spread_ok = true;
                    }
                    self.fns.push(FnSig { name, params: params.into_iter().map(|(_, t)| t).collect(), ret, stateful, depth, maker: false, pnames, defaults, spread_ok });
                    self.feat.fns += 1;
                    tops.push(Top::Fn(def));
                }
                1 => {
                    let (def, sig) = self.gen_maker();
                    tops.push(Top::Fn(def));
                    // bind one or two closure instances at global scope
                    let k = if self.cfg.multi_maker_instances { self.g.int(1, 2) } else { 1 };
                    for _ in 0..k {
                        let gname = self.fresh("cnt");
                        let init = self.lit();
                        let id = self.id();
                        tops.push(Top::Let(gname.clone(), sig.ret.clone(), E::Call(id, Box::new(E::Var(sig.name.clone())), vec![init])));
                        self.globals.push(VarInfo { name: gname, ty: sig.ret.clone(), assignable: false, destructured: false, captured: false });
                        self.feat.closures_global += 1;
                    }
                    self.fns.push(sig);
                }
                2 => {
                    // numeric / tuple global computed from literals and earlier globals
                    let gname = self.fresh("g");
                    let t = if self.cfg.tuple_globals && self.g.bool(1, 4) { Ty::Tup(vec![Ty::Num, Ty::Num]) } else { Ty::Num };
                    let mut sc = Scope { vars: vec![], self_ty: None, allow_state: false, in_branch: false, fn_has_delay: false, allow_assign: false, allow_closure: false, in_lambda: true, depth_stateful: 0, in_tuple_lit: false, in_operand: false, in_cond: false };
                    let saved = self.fuel;
                    self.fuel = 5;
                    self.in_global_init = true;
                    let e = self.expr(&t, &mut sc);
                    self.in_global_init = false;
                    self.fuel = saved;
                    tops.push(Top::Let(gname.clone(), t.clone(), e));
                    self.globals.push(VarInfo { name: gname, ty: t, assignable: false, destructured: false, captured: false });
                    self.feat.globals += 1;
                }
                4 => {
                    // closure factory: fn mk(a) { |x| <expr over a and x> } — called as mk(e)(y) or y |> mk(e)
                    let name = self.fresh("mkf");
                    let a = self.fresh("a");
                    let x = self.fresh("x");
                    let mut sc = Scope { vars: vec![VarInfo { name: a.clone(), ty: Ty::Num, assignable: false, destructured: false, captured: true }, VarInfo { name: x.clone(), ty: Ty::Num, assignable: false, destructured: false, captured: false }], self_ty: None, allow_state: false, in_branch: false, fn_has_delay: false, allow_assign: false, allow_closure: false, in_lambda: true, depth_stateful: 0, in_tuple_lit: false, in_operand: false, in_cond: false };
                    let saved = self.fuel;
                    self.fuel = 4;
                    let body = self.num(&mut sc);
                    self.fuel = saved;
                    let fty = Ty::Fun(vec![Ty::Num], Box::new(Ty::Num));
                    let def = FnDef { name: name.clone(), params: vec![Param { name: a, ty: Ty::Num, annotate: self.g.coin() }], defaults: vec![], ret: fty.clone(), annotate_ret: false, body: E::Lam(vec![Param { name: x, ty: Ty::Num, annotate: self.g.coin() }], Box::new(body)) };
                    self.fns.push(FnSig { name, params: vec![Ty::Num], ret: fty, stateful: false, depth: 0, maker: false, pnames: vec![], defaults: vec![], spread_ok: false });
                    self.feat.fns += 1;
                    tops.push(Top::Fn(def));
                }
                _ => {
                    // higher-order function: takes f:(float)->float and a number
                    let name = self.fresh("hof");
                    let fparam = self.fresh("fp");
                    let xparam = self.fresh("p");
                    let fty = Ty::Fun(vec![Ty::Num], Box::new(Ty::Num));
                    let (def, stateful, depth, _) = self.gen_fn(name.clone(), vec![(fparam, fty.clone()), (xparam, Ty::Num)], Ty::Num, false);
                    self.fns.push(FnSig { name, params: vec![fty, Ty::Num], ret: Ty::Num, stateful, depth, maker: false, pnames: vec![], defaults: vec![], spread_ok: false });
                    self.feat.hof_calls += 1;
                    tops.push(Top::Fn(def));
                }
            }
        }
        // dsp
        let n_in = if !self.cfg.inputs {
            0
        } else if self.cfg.tuple_inputs {
            *self.g.pick(&[0usize, 0, 1, 2, 3])
        } else {
            *self.g.pick(&[0usize, 1, 1])
        };
        let n_out = if self.cfg.multi_out { *self.g.pick(&[1usize, 1, 2, 2, 3, 4]) } else { 1 };
        let params: Vec<(String, Ty)> = match n_in {
            0 => vec![],
            1 => vec![("inp".to_string(), Ty::Num)],
            k => vec![("inp".to_string(), Ty::Tup(vec![Ty::Num; k]))],
        };
        let ret = if n_out == 1 { Ty::Num } else { Ty::Tup(vec![Ty::Num; n_out]) };
        self.fuel = self.cfg.fuel;
        let (mut def, _, _, _) = self.gen_fn("dsp".to_string(), params, ret, true);
        for p in &mut def.params {
            p.annotate = true;
        }
        tops.push(Top::Fn(def));
        Prog { tops, n_in, n_out }
    }
}

// ---------------------------------------------------------------------- rendering

/// Layout / naming policy of the renderer (C14 and C16 re-render the same AST differently).
#[derive(Clone, Debug, Default)]
pub struct Layout {
    /// wrap every compound expression in redundant parentheses
    pub extra_parens: bool,
    /// annotate every parameter / return type
    pub annotate_all: bool,
    /// indentation unit
    pub indent: usize,
    /// comment inserted after each statement (index-tagged)
    pub comments: bool,
    /// 0: every comment is `// c<n>`; otherwise comment texts are taken from `COMMENT_POOL`
    /// (line and block comments with runs of stars, slashes, quotes, brackets, keywords, non-ASCII
    /// text), starting at this offset
    pub comment_seed: u64,
    /// extra blank lines between top-level items
    pub blank_lines: usize,
    /// with `extra_parens`: do NOT parenthesise the right-hand side of a record-pattern `let`
    /// (known finding C16-parenthesised-record-pattern-rhs)
    pub keep_record_let_rhs_bare: bool,
    /// drop the parentheses of nested binary operations wherever the language's precedence and
    /// left associativity make them redundant (`(a ^ b) ^ c` -> `a ^ b ^ c`, `a + (b * c)` -> `a + b * c`)
    pub minimal_parens: bool,
}

/// Wrap a scalar `dsp` body B as `{ let gate_pre = mem(now)  let gv = B  if (now > K) { gv + mem(gv) } else { gv } }`: the
/// last state cell of the layout is then first touched at sample K+1 (a single trailing mem cell in
/// a then-arm is the one shape of stateful code in a branch that both backends execute correctly).
pub fn add_tail_gate(p: &mut Prog, k: u32) -> bool {
    for t in p.tops.iter_mut() {
        if let Top::Fn(f) = t {
            if f.name == "dsp" && f.ret == Ty::Num {
                let body = std::mem::replace(&mut f.body, E::Now);
                let gv = || Box::new(E::Var("gate_v".into()));
                f.body = E::Block(
                    // a state cell in front: with no cell before it the gated cell is addressed wrongly
                    // on both backends (part of the recorded finding on stateful code in `if` arms)
                    vec![S::Let(Pat::Var("gate_pre".into()), E::Mem(9_000_002, Box::new(E::Now))), S::Let(Pat::Var("gate_v".into()), body)],
                    Box::new(E::If(
                        Box::new(E::Bin(Bop::Gt, Box::new(E::Now), Box::new(E::Lit(format!("{k}.0"))))),
                        Box::new(E::Bin(Bop::Add, gv(), Box::new(E::Mem(9_000_001, gv())))),
                        gv(),
                    )),
                );
                return true;
            }
        }
    }
    false
}

/// comment texts (`@` = running number); none contains `*/` before its end
pub const COMMENT_POOL: &[&str] = &[
    "// c@", "/* c@ */", "/** c@ **/", "/***/", "/**** c@ ****/", "/* a * b */", "/* // */", "// /* open", "/**/", "/* \"q\" */", "/* } ) ] */", "/* fn let if else */", "/* \u{e9}\u{2603} */", "/*** c@ ***/", "/* * */", "/* c@ **/", "// */", "/* / * / */", "//", "/*c@*/",
];

pub fn render(p: &Prog, lay: &Layout) -> String {
    let mut out = String::new();
    let mut cn = 0usize;
    for t in &p.tops {
        match t {
            Top::Fn(f) => {
                render_fn(f, lay, &mut out, &mut cn);
            }
            Top::Let(n, _ty, e) => {
                let _ = write!(out, "let {n} = ");
                render_e(e, lay, 0, &mut out, &mut cn);
                out.push('\n');
            }
        }
        for _ in 0..lay.blank_lines {
            out.push('\n');
        }
    }
    out
}

fn render_fn(f: &FnDef, lay: &Layout, out: &mut String, cn: &mut usize) {
    let _ = write!(out, "fn {}(", f.name);
    for (i, p) in f.params.iter().enumerate() {
        if i > 0 {
            out.push_str(", ");
        }
        out.push_str(&p.name);
        if p.annotate || lay.annotate_all {
            let _ = write!(out, ":{}", p.ty.render());
        }
        if let Some(Some(d)) = f.defaults.get(i) {
            let _ = write!(out, " = {d}");
        }
    }
    out.push(')');
    if f.annotate_ret || lay.annotate_all {
        let _ = write!(out, " -> {}", f.ret.render());
    }
    out.push(' ');
    match &f.body {
        E::Block(..) => render_e(&f.body, lay, 0, out, cn),
        e => {
            out.push_str("{\n");
            ind(out, lay, 1);
            if starts_with_minus(e) {
                out.push('(');
                render_e(e, lay, 1, out, cn);
                out.push(')');
            } else {
                render_e(e, lay, 1, out, cn);
            }
            out.push_str("\n}");
        }
    }
    out.push('\n');
}

fn ind(out: &mut String, lay: &Layout, level: usize) {
    let unit = if lay.indent == 0 { 2 } else { lay.indent };
    for _ in 0..level * unit {
        out.push(' ');
    }
}

fn render_pat(p: &Pat, out: &mut String) {
    match p {
        Pat::Var(n) => out.push_str(n),
        Pat::Tup(ps) => {
            out.push('(');
            for (i, q) in ps.iter().enumerate() {
                if i > 0 {
                    out.push_str(", ");
                }
                render_pat(q, out);
            }
            out.push(')');
        }
        Pat::Rec(fs) => {
            out.push('{');
            for (i, (n, q)) in fs.iter().enumerate() {
                if i > 0 {
                    out.push_str(", ");
                }
                let _ = write!(out, "{n} = ");
                render_pat(q, out);
            }
            out.push('}');
        }
    }
}

fn atomic(e: &E) -> bool {
    matches!(e, E::Raw(_) | E::Lit(_) | E::Var(_) | E::SelfV | E::Now | E::SampleRate | E::Call(..) | E::B1(..) | E::B2(..) | E::Mem(..) | E::Delay(..) | E::Tup(_) | E::Rec(_) | E::Proj(..) | E::Field(..) | E::Block(..) | E::RecUpd(..) | E::ArrLit(_) | E::Index(..))
}

fn render_sub(e: &E, lay: &Layout, level: usize, out: &mut String, cn: &mut usize) {
    if atomic(e) {
        render_e(e, lay, level, out, cn);
    } else {
        out.push('(');
        render_e(e, lay, level, out, cn);
        out.push(')');
    }
}

pub fn render_e(e: &E, lay: &Layout, level: usize, out: &mut String, cn: &mut usize) {
    let bare_record = lay.keep_record_let_rhs_bare && matches!(e, E::Rec(_) | E::RecUpd(..) | E::Lam(..));
    if lay.extra_parens && !bare_record && !matches!(e, E::Block(..) | E::Lit(_) | E::Var(_)) {
        out.push('(');
        render_e_inner(e, lay, level, out, cn);
        out.push(')');
    } else {
        render_e_inner(e, lay, level, out, cn);
    }
}

fn render_e_inner(e: &E, lay: &Layout, level: usize, out: &mut String, cn: &mut usize) {
    match e {
        E::Lit(t) => out.push_str(t),
        E::Var(n) => out.push_str(n),
        E::Bin(op, a, b) => {
            // all binary operators are left associative; a nested operation needs no parentheses on
            // the left when it binds at least as tightly, on the right when it binds strictly tighter
            let bare_l = lay.minimal_parens && !lay.extra_parens && matches!(&**a, E::Bin(o2, ..) if o2.prec() >= op.prec());
            let bare_r = lay.minimal_parens && !lay.extra_parens && matches!(&**b, E::Bin(o2, ..) if o2.prec() > op.prec());
            if bare_l {
                render_e_inner(a, lay, level, out, cn);
            } else {
                render_sub(a, lay, level, out, cn);
            }
            let _ = write!(out, " {} ", op.sym());
            if bare_r {
                render_e_inner(b, lay, level, out, cn);
            } else {
                render_sub(b, lay, level, out, cn);
            }
        }
        E::Neg(a) => {
            out.push('-');
            render_sub(a, lay, level, out, cn);
        }
        E::B1(f, a) => {
            let _ = write!(out, "{f}(");
            render_e(a, lay, level, out, cn);
            out.push(')');
        }
        E::B2(f, a, b) => {
            let _ = write!(out, "{f}(");
            render_e(a, lay, level, out, cn);
            out.push_str(", ");
            render_e(b, lay, level, out, cn);
            out.push(')');
        }
        E::If(c, a, b) => {
            out.push_str("if (");
            render_e(c, lay, level, out, cn);
            out.push_str(") ");
            render_branch(a, lay, level, out, cn);
            out.push_str(" else ");
            render_branch(b, lay, level, out, cn);
        }
        E::Block(ss, last) => {
            out.push_str("{\n");
            for s in ss {
                ind(out, lay, level + 1);
                match s {
                    S::Let(p, e) => {
                        out.push_str("let ");
                        render_pat(p, out);
                        out.push_str(" = ");
                        if lay.keep_record_let_rhs_bare && matches!(p, Pat::Rec(_)) {
                            render_e_inner(e, lay, level + 1, out, cn);
                        } else {
                            render_e(e, lay, level + 1, out, cn);
                        }
                    }
                    S::Assign(n, e) => {
                        let _ = write!(out, "{n} = ");
                        render_e(e, lay, level + 1, out, cn);
                    }
                    S::LetRec(n, e) => {
                        let _ = write!(out, "letrec {n} = ");
                        render_e(e, lay, level + 1, out, cn);
                    }
                }
                if lay.comments {
                    *cn += 1;
                    if lay.comment_seed == 0 {
                        let _ = write!(out, " // c{cn}");
                    } else {
                        let t = COMMENT_POOL[(lay.comment_seed as usize + *cn * 7) % COMMENT_POOL.len()];
                        let _ = write!(out, " {}", t.replace("@", &cn.to_string()));
                    }
                }
                out.push('\n');
            }
            ind(out, lay, level + 1);
            // a line that starts with `-` would continue the previous statement
            if starts_with_minus(last) {
                out.push('(');
                render_e(last, lay, level + 1, out, cn);
                out.push(')');
            } else {
                render_e(last, lay, level + 1, out, cn);
            }
            out.push('\n');
            ind(out, lay, level);
            out.push('}');
        }
        E::Tup(es) => {
            out.push('(');
            for (i, x) in es.iter().enumerate() {
                if i > 0 {
                    out.push_str(", ");
                }
                render_e(x, lay, level, out, cn);
            }
            out.push(')');
        }
        E::Proj(a, i) => {
            render_sub(a, lay, level, out, cn);
            let _ = write!(out, ".{i}");
        }
        E::Rec(fs) => {
            out.push('{');
            for (i, (n, x)) in fs.iter().enumerate() {
                if i > 0 {
                    out.push_str(", ");
                }
                let _ = write!(out, "{n} = ");
                render_e(x, lay, level, out, cn);
            }
            out.push('}');
        }
        E::Field(a, n) => {
            render_sub(a, lay, level, out, cn);
            let _ = write!(out, ".{n}");
        }
        E::RecUpd(a, fs) => {
            out.push('{');
            render_e(a, lay, level, out, cn);
            out.push_str(" <- ");
            for (i, (n, x)) in fs.iter().enumerate() {
                if i > 0 {
                    out.push_str(", ");
                }
                let _ = write!(out, "{n} = ");
                render_e(x, lay, level, out, cn);
            }
            out.push('}');
        }
        E::Lam(ps, body) => {
            out.push('|');
            if ps.is_empty() {
                out.push(' ');
            }
            for (i, p) in ps.iter().enumerate() {
                if i > 0 {
                    out.push_str(", ");
                }
                out.push_str(&p.name);
                if p.annotate || lay.annotate_all {
                    let _ = write!(out, ":{}", p.ty.render());
                }
            }
            out.push_str("| ");
            match &**body {
                E::Block(..) => render_e_inner(body, lay, level, out, cn),
                b => {
                    out.push_str("{ ");
                    render_e(b, lay, level, out, cn);
                    out.push_str(" }");
                }
            }
        }
        E::Call(_, f, args) => {
            render_sub(f, lay, level, out, cn);
            out.push('(');
            for (i, x) in args.iter().enumerate() {
                if i > 0 {
                    out.push_str(", ");
                }
                render_e(x, lay, level, out, cn);
            }
            out.push(')');
        }
        E::Pipe(_, x, f) => {
            render_sub(x, lay, level, out, cn);
            out.push_str(" |> ");
            match &**f {
                E::Lam(..) => render_e_inner(f, lay, level, out, cn),
                other => render_sub(other, lay, level, out, cn),
            }
        }
        E::SelfV => out.push_str("self"),
        E::Mem(_, a) => {
            out.push_str("mem(");
            render_e(a, lay, level, out, cn);
            out.push(')');
        }
        E::Delay(_, n, x, t) => {
            let _ = write!(out, "delay({}, ", delay_max_literal(*n));
            render_e(x, lay, level, out, cn);
            out.push_str(", ");
            render_e(t, lay, level, out, cn);
            out.push(')');
        }
        E::Now => out.push_str("now"),
        E::SampleRate => out.push_str("samplerate"),
        E::MatchNum(sc, arms, d) => {
            out.push_str("match ");
            render_sub(sc, lay, level, out, cn);
            out.push_str(" {\n");
            for (k, e) in arms {
                ind(out, lay, level + 1);
                let _ = write!(out, "{k} => ");
                render_branch(e, lay, level + 1, out, cn);
                out.push('\n');
            }
            ind(out, lay, level + 1);
            out.push_str("_ => ");
            render_branch(d, lay, level + 1, out, cn);
            out.push('\n');
            ind(out, lay, level);
            out.push('}');
        }
        E::Pack(_, fname, fields, dots) => {
            if fields.iter().all(|(n, _)| n.is_none()) {
                out.push('(');
                for (i, (_, e)) in fields.iter().enumerate() {
                    if i > 0 {
                        out.push_str(", ");
                    }
                    render_e(e, lay, level, out, cn);
                }
                out.push(')');
            } else {
                out.push('{');
                for (i, (n, e)) in fields.iter().enumerate() {
                    if i > 0 {
                        out.push_str(", ");
                    }
                    let _ = write!(out, "{} = ", n.clone().unwrap_or_default());
                    render_e(e, lay, level, out, cn);
                }
                if *dots {
                    out.push_str(if fields.is_empty() { ".." } else { ", .." });
                }
                out.push('}');
            }
            let _ = write!(out, " |> {fname}");
        }
        E::Spread(_, fname, es) => {
            out.push('(');
            for (i, e) in es.iter().enumerate() {
                if i > 0 {
                    out.push_str(", ");
                }
                render_e(e, lay, level, out, cn);
            }
            let _ = write!(out, ") |> {fname}");
        }
        E::ArrLit(es) => {
            out.push('[');
            for (i, e) in es.iter().enumerate() {
                if i > 0 {
                    out.push_str(", ");
                }
                render_e(e, lay, level, out, cn);
            }
            out.push(']');
        }
        E::Index(a, i) => {
            render_sub(a, lay, level, out, cn);
            out.push('[');
            render_e(i, lay, level, out, cn);
            out.push(']');
        }
        E::Raw(t) => out.push_str(t),
    }
}

fn starts_with_minus(e: &E) -> bool {
    match e {
        E::Neg(_) => true,
        E::Bin(_, a, _) => atomic(a) && starts_with_minus(a),
        E::Proj(a, _) | E::Field(a, _) => atomic(a) && starts_with_minus(a),
        E::Call(_, f, _) => atomic(f) && starts_with_minus(f),
        E::Pipe(_, x, _) => atomic(x) && starts_with_minus(x),
        _ => false,
    }
}

fn render_branch(e: &E, lay: &Layout, level: usize, out: &mut String, cn: &mut usize) {
    match e {
        E::Block(..) => render_e_inner(e, lay, level, out, cn),
        _ => {
            out.push_str("{ ");
            render_e(e, lay, level, out, cn);
            out.push_str(" }");
        }
    }
}

// ---------------------------------------------------------------------- traversal / mutation

/// pre-order visit of every expression node (mutable)
pub fn visit_mut(e: &mut E, f: &mut dyn FnMut(&mut E)) {
    f(e);
    match e {
        E::Lit(_) | E::Var(_) | E::SelfV | E::Now | E::SampleRate | E::Raw(_) => {}
        E::Bin(_, a, b) | E::B2(_, a, b) | E::Pipe(_, a, b) => {
            visit_mut(a, f);
            visit_mut(b, f);
        }
        E::Neg(a) | E::B1(_, a) | E::Proj(a, _) | E::Field(a, _) | E::Mem(_, a) => visit_mut(a, f),
        E::If(c, a, b) => {
            visit_mut(c, f);
            visit_mut(a, f);
            visit_mut(b, f);
        }
        E::Block(ss, last) => {
            for s in ss {
                match s {
                    S::Let(_, x) | S::Assign(_, x) | S::LetRec(_, x) => visit_mut(x, f),
                }
            }
            visit_mut(last, f);
        }
        E::Tup(es) => es.iter_mut().for_each(|x| visit_mut(x, f)),
        E::Rec(fs) => fs.iter_mut().for_each(|(_, x)| visit_mut(x, f)),
        E::RecUpd(a, fs) => {
            visit_mut(a, f);
            fs.iter_mut().for_each(|(_, x)| visit_mut(x, f));
        }
        E::Lam(_, b) => visit_mut(b, f),
        E::Call(_, c, args) => {
            visit_mut(c, f);
            args.iter_mut().for_each(|x| visit_mut(x, f));
        }
        E::Delay(_, _, x, t) => {
            visit_mut(x, f);
            visit_mut(t, f);
        }
        E::MatchNum(sc, arms, d) => {
            visit_mut(sc, f);
            arms.iter_mut().for_each(|(_, x)| visit_mut(x, f));
            visit_mut(d, f);
        }
        E::Pack(_, _, fields, _) => fields.iter_mut().for_each(|(_, x)| visit_mut(x, f)),
        E::Spread(_, _, es) => es.iter_mut().for_each(|x| visit_mut(x, f)),
        E::ArrLit(es) => es.iter_mut().for_each(|x| visit_mut(x, f)),
        E::Index(a, i) => {
            visit_mut(a, f);
            visit_mut(i, f);
        }
    }
}

pub fn visit_prog_mut(p: &mut Prog, f: &mut dyn FnMut(&mut E)) {
    for t in &mut p.tops {
        match t {
            Top::Fn(d) => visit_mut(&mut d.body, f),
            Top::Let(_, _, e) => visit_mut(e, f),
        }
    }
}

pub const MUTATIONS: &[&str] = &["to-tuple", "to-lambda", "to-string", "project", "call-it", "to-self", "to-record", "field", "drop-arg", "add-arg", "to-int", "to-array", "index", "swap-arms-type", "to-unit-block", "param-annot"];

/// Apply one type-changing mutation to a random expression node.  Returns its name.
pub fn mutate(p: &mut Prog, g: &mut Gen, allow_unit_block: bool) -> &'static str {
    let mut n = 0usize;
    visit_prog_mut(p, &mut |_| n += 1);
    if n == 0 {
        return "none";
    }
    let target = g.usize_below(n);
    let mut kind = *g.pick(MUTATIONS);
    if kind == "to-unit-block" && !allow_unit_block {
        kind = "to-string";
    }
    if kind == "param-annot" {
        // change a parameter annotation to another type
        let mut fns: Vec<&mut FnDef> = p.tops.iter_mut().filter_map(|t| if let Top::Fn(d) = t { Some(d) } else { None }).filter(|d| !d.params.is_empty() && d.name != "dsp").collect();
        if fns.is_empty() {
            return "none";
        }
        let i = g.usize_below(fns.len());
        let d = &mut fns[i];
        let j = g.usize_below(d.params.len());
        d.params[j].annotate = true;
        d.params[j].ty = match g.below(3) {
            0 => Ty::Tup(vec![Ty::Num, Ty::Num]),
            1 => Ty::Fun(vec![Ty::Num], Box::new(Ty::Num)),
            _ => Ty::Rec(vec![("zz".into(), Ty::Num)]),
        };
        return kind;
    }
    let mut i = 0usize;
    let mut done = false;
    visit_prog_mut(p, &mut |e| {
        if i == target && !done {
            done = true;
            let old = e.clone();
            *e = match kind {
                "to-tuple" => E::Tup(vec![old, E::Lit("1.0".into())]),
                "to-lambda" => E::Lam(vec![Param { name: "qq".into(), ty: Ty::Num, annotate: false }], Box::new(E::Var("qq".into()))),
                "to-string" => E::Raw("\"s\"".into()),
                "project" => E::Proj(Box::new(old), 1),
                "call-it" => E::Call(0, Box::new(old), vec![E::Lit("1.0".into())]),
                "to-self" => E::SelfV,
                "to-record" => E::Rec(vec![("zz".into(), old)]),
                "field" => E::Field(Box::new(old), "zz".into()),
                "drop-arg" => match old {
                    E::Call(id, f, mut args) if !args.is_empty() => {
                        args.pop();
                        E::Call(id, f, args)
                    }
                    o => E::Tup(vec![o.clone(), o]),
                },
                "add-arg" => match old {
                    E::Call(id, f, mut args) => {
                        args.push(E::Lit("2.0".into()));
                        E::Call(id, f, args)
                    }
                    o => E::Call(0, Box::new(o), vec![]),
                },
                "to-int" => E::Raw("1".into()),
                "to-array" => E::Raw("[1.0, 2.0]".into()),
                "index" => {
                    let mut s = String::new();
                    let mut cn = 0;
                    render_e(&old, &Layout::default(), 0, &mut s, &mut cn);
                    E::Raw(format!("({s})[0]"))
                }
                "swap-arms-type" => match old {
                    E::If(c, a, _) => E::If(c, a, Box::new(E::Tup(vec![E::Lit("1.0".into()), E::Lit("2.0".into())]))),
                    o => E::If(Box::new(E::Lit("1.0".into())), Box::new(o), Box::new(E::Raw("\"s\"".into()))),
                },
                _ => E::Block(vec![S::Let(Pat::Var("uu".into()), old)], Box::new(E::Raw("{}".into()))),
            };
        }
        i += 1;
    });
    kind
}

// ---------------------------------------------------------------------- renaming

fn rename_pat(p: &mut Pat, f: &dyn Fn(&str) -> String) {
    match p {
        Pat::Var(n) => *n = f(n),
        Pat::Tup(ps) => ps.iter_mut().for_each(|q| rename_pat(q, f)),
        Pat::Rec(fs) => fs.iter_mut().for_each(|(_, q)| rename_pat(q, f)),
    }
}

fn rename_e(e: &mut E, f: &dyn Fn(&str) -> String) {
    match e {
        E::Var(n) => *n = f(n),
        E::Lit(_) | E::SelfV | E::Now | E::SampleRate | E::Raw(_) => {}
        E::Bin(_, a, b) | E::B2(_, a, b) | E::Pipe(_, a, b) => {
            rename_e(a, f);
            rename_e(b, f);
        }
        E::Neg(a) | E::B1(_, a) | E::Proj(a, _) | E::Field(a, _) | E::Mem(_, a) => rename_e(a, f),
        E::If(c, a, b) => {
            rename_e(c, f);
            rename_e(a, f);
            rename_e(b, f);
        }
        E::Block(ss, last) => {
            for s in ss {
                match s {
                    S::Let(p, x) => {
                        rename_pat(p, f);
                        rename_e(x, f);
                    }
                    S::Assign(n, x) | S::LetRec(n, x) => {
                        *n = f(n);
                        rename_e(x, f);
                    }
                }
            }
            rename_e(last, f);
        }
        E::Tup(es) => es.iter_mut().for_each(|x| rename_e(x, f)),
        E::Rec(fs) => fs.iter_mut().for_each(|(_, x)| rename_e(x, f)),
        E::RecUpd(a, fs) => {
            rename_e(a, f);
            fs.iter_mut().for_each(|(_, x)| rename_e(x, f));
        }
        E::Lam(ps, b) => {
            ps.iter_mut().for_each(|p| p.name = f(&p.name));
            rename_e(b, f);
        }
        E::Call(_, c, args) => {
            rename_e(c, f);
            args.iter_mut().for_each(|x| rename_e(x, f));
        }
        E::Delay(_, _, x, t) => {
            rename_e(x, f);
            rename_e(t, f);
        }
        E::MatchNum(sc, arms, d) => {
            rename_e(sc, f);
            arms.iter_mut().for_each(|(_, x)| rename_e(x, f));
            rename_e(d, f);
        }
        E::Pack(_, fname, fields, _) => {
            *fname = f(fname);
            fields.iter_mut().for_each(|(n, x)| {
                if let Some(n) = n {
                    *n = f(n);
                }
                rename_e(x, f)
            });
        }
        E::Spread(_, fname, es) => {
            *fname = f(fname);
            es.iter_mut().for_each(|x| rename_e(x, f));
        }
        E::ArrLit(es) => es.iter_mut().for_each(|x| rename_e(x, f)),
        E::Index(a, i) => {
            rename_e(a, f);
            rename_e(i, f);
        }
    }
}

/// all user-chosen identifiers of a program (binders), in order of first appearance; `dsp` excluded
pub fn binders(p: &Prog) -> Vec<String> {
    let mut out: Vec<String> = vec![];
    let mut add = |n: &str| {
        if n != "dsp" && !out.iter().any(|x| x == n) {
            out.push(n.to_string());
        }
    };
    fn pat(p: &Pat, add: &mut dyn FnMut(&str)) {
        match p {
            Pat::Var(n) => add(n),
            Pat::Tup(ps) => ps.iter().for_each(|q| pat(q, add)),
            Pat::Rec(fs) => fs.iter().for_each(|(_, q)| pat(q, add)),
        }
    }
    fn ex(e: &E, add: &mut dyn FnMut(&str)) {
        let mut e2 = e.clone();
        visit_mut(&mut e2, &mut |x| match x {
            E::Lam(ps, _) => ps.iter().for_each(|p| add(&p.name)),
            E::Block(ss, _) => ss.iter().for_each(|s| {
                if let S::Let(p, _) = s {
                    pat(p, add)
                }
            }),
            _ => {}
        });
    }
    for t in &p.tops {
        match t {
            Top::Fn(d) => {
                add(&d.name);
                d.params.iter().for_each(|q| add(&q.name));
                ex(&d.body, &mut add);
            }
            Top::Let(n, _, e) => {
                add(n);
                ex(e, &mut add);
            }
        }
    }
    out
}

/// consistent renaming of every user identifier (`dsp` is kept)
pub fn rename_prog(p: &Prog, f: &dyn Fn(&str) -> String) -> Prog {
    let mut q = p.clone();
    let g = |n: &str| if n == "dsp" { n.to_string() } else { f(n) };
    for t in &mut q.tops {
        match t {
            Top::Fn(d) => {
                d.name = g(&d.name);
                d.params.iter_mut().for_each(|x| x.name = g(&x.name));
                rename_e(&mut d.body, &g);
            }
            Top::Let(n, _, e) => {
                *n = g(n);
                rename_e(e, &g);
            }
        }
    }
    q
}

/// `E::Delay` keeps the declared maximum as trunc(N) in the low 16 bits and a fraction index above
pub fn delay_max_value(n: u32) -> f64 {
    (n & 0xffff) as f64 + [0.0, 0.5, 0.25, 0.9][((n >> 16) & 3) as usize]
}
pub fn delay_max_literal(n: u32) -> String {
    format!("{}{}", n & 0xffff, [".0", ".5", ".25", ".9"][((n >> 16) & 3) as usize])
}
