//! Shadowing pass: turns a program with pairwise distinct identifiers into an alpha-equivalent one
//! in which binders reuse earlier names (`let x = ..  let x = x + 1.0`, a lambda parameter named
//! like a local of the enclosing frame, a local named like a global or like a top-level function).
//!
//! A binder `y` of function F is renamed to `x` only if every occurrence of `x` in F (binding or
//! reference) lies textually before `y`'s binding and `x` is not bound in the same pattern /
//! parameter list.  Under lexical scoping no reference changes its target then: references to `x`
//! all precede the new binder, references to `y` all follow it and no binder of `x` lies between.
//! The stronger "nowhere later in the same top-level function" (instead of "nowhere in y's scope")
//! keeps the pass clear of the recorded finding C10-block-let-leaks-into-enclosing-scope, whose
//! subject is exactly a block-local binder that is still visible after its block has ended.

use super::prog::*;
use crate::engine::tape::Gen;

#[derive(Clone, Debug, PartialEq)]
enum Ev {
    /// (name, binder group id)
    Bind(String, u32),
    Ref(String),
}

struct W {
    ev: Vec<Ev>,
    group: u32,
    raw: bool,
}

impl W {
    fn pat(&mut self, p: &Pat, grp: u32) {
        match p {
            Pat::Var(n) => self.ev.push(Ev::Bind(n.clone(), grp)),
            Pat::Tup(ps) => ps.iter().for_each(|q| self.pat(q, grp)),
            Pat::Rec(fs) => fs.iter().for_each(|(_, q)| self.pat(q, grp)),
        }
    }
    fn new_group(&mut self) -> u32 {
        self.group += 1;
        self.group
    }
    fn e(&mut self, e: &E) {
        match e {
            E::Var(n) => self.ev.push(Ev::Ref(n.clone())),
            E::Lit(_) | E::SelfV | E::Now | E::SampleRate => {}
            E::Raw(_) => self.raw = true,
            E::Bin(_, a, b) | E::B2(_, a, b) | E::Pipe(_, a, b) | E::Index(a, b) => {
                self.e(a);
                self.e(b);
            }
            E::Neg(a) | E::B1(_, a) | E::Proj(a, _) | E::Field(a, _) | E::Mem(_, a) => self.e(a),
            E::If(c, a, b) => {
                self.e(c);
                self.e(a);
                self.e(b);
            }
            E::Block(ss, last) => {
                for s in ss {
                    match s {
                        S::Let(p, x) => {
                            self.e(x);
                            let g = self.new_group();
                            self.pat(p, g);
                        }
                        S::Assign(n, x) => {
                            self.e(x);
                            self.ev.push(Ev::Ref(n.clone()));
                        }
                        S::LetRec(n, x) => {
                            let g = self.new_group();
                            self.ev.push(Ev::Bind(n.clone(), g));
                            self.e(x);
                        }
                    }
                }
                self.e(last);
            }
            E::Tup(es) | E::ArrLit(es) => es.iter().for_each(|x| self.e(x)),
            E::Rec(fs) => fs.iter().for_each(|(_, x)| self.e(x)),
            E::RecUpd(a, fs) => {
                self.e(a);
                fs.iter().for_each(|(_, x)| self.e(x));
            }
            E::Lam(ps, b) => {
                let g = self.new_group();
                ps.iter().for_each(|p| self.ev.push(Ev::Bind(p.name.clone(), g)));
                self.e(b);
            }
            E::Call(_, c, args) => {
                self.e(c);
                args.iter().for_each(|x| self.e(x));
            }
            E::Delay(_, _, x, t) => {
                self.e(x);
                self.e(t);
            }
            E::MatchNum(sc, arms, d) => {
                self.e(sc);
                arms.iter().for_each(|(_, x)| self.e(x));
                self.e(d);
            }
            E::Pack(_, fname, fields, _) => {
                fields.iter().for_each(|(_, x)| self.e(x));
                self.ev.push(Ev::Ref(fname.clone()));
            }
            E::Spread(_, fname, es) => {
                es.iter().for_each(|x| self.e(x));
                self.ev.push(Ev::Ref(fname.clone()));
            }
        }
    }
}

/// events of one top-level function in textual order (parameters first)
fn events(d: &FnDef) -> Option<Vec<Ev>> {
    let mut w = W { ev: vec![], group: 0, raw: false };
    let g = w.new_group();
    d.params.iter().for_each(|p| w.ev.push(Ev::Bind(p.name.clone(), g)));
    w.e(&d.body);
    if w.raw { None } else { Some(w.ev) }
}

/// Apply up to `max` shadowing merges; returns (number of merges, number that shadow a name that
/// is visibly bound in the same function, number that reuse a top-level name).
pub fn shadow(p: &mut Prog, g: &mut Gen, max: usize) -> (u32, u32, u32) {
    let (mut n, mut local, mut top) = (0, 0, 0);
    // names that now denote several binders: never renamed again (renaming is by name)
    let mut merged: Vec<String> = vec![];
    for _ in 0..max {
        let fns: Vec<usize> = p.tops.iter().enumerate().filter(|(_, t)| matches!(t, Top::Fn(_))).map(|(i, _)| i).collect();
        if fns.is_empty() {
            break;
        }
        let fi = fns[g.usize_below(fns.len())];
        let Top::Fn(d) = &p.tops[fi] else { continue };
        let Some(ev) = events(d) else { continue };
        // parameters of the top-level function itself are not renamed when the function has
        // default arguments (their names are part of its calling convention in written packs
        // and are renamed consistently anyway, but a defaulted parameter is referenced by the
        // compiler-generated default function, which is not part of this analysis)
        let has_defaults = d.defaults.iter().any(|x| x.is_some());
        let top_names: Vec<String> = p
            .tops
            .iter()
            .map(|t| match t {
                Top::Fn(f) => f.name.clone(),
                Top::Let(n, _, _) => n.clone(),
            })
            .filter(|n| n != "dsp")
            .collect();
        // candidate binders y
        let binds: Vec<(usize, String, u32)> = ev
            .iter()
            .enumerate()
            .filter_map(|(i, e)| match e {
                Ev::Bind(n, grp) if !(has_defaults && *grp == 1) => Some((i, n.clone(), *grp)),
                _ => None,
            })
            .collect();
        if binds.is_empty() {
            continue;
        }
        let (yi, y, ygrp) = binds[g.usize_below(binds.len())].clone();
        // a name bound several times already (earlier merge) or shared with a top-level
        // definition is not renamed again as y
        if merged.contains(&y) || top_names.contains(&y) || ev.iter().filter(|e| matches!(e, Ev::Bind(n, _) if *n == y)).count() != 1 {
            continue;
        }
        let occurs_after = |x: &str| ev[yi..].iter().any(|e| matches!(e, Ev::Bind(n, _) | Ev::Ref(n) if n == x));
        let in_group = |x: &str| ev.iter().any(|e| matches!(e, Ev::Bind(n, grp) if n == x && *grp == ygrp));
        let ok = |x: &str| x != y && x != "dsp" && !occurs_after(x) && !in_group(x);
        // names seen earlier in this function
        let mut earlier: Vec<String> = vec![];
        for e in &ev[..yi] {
            let (Ev::Bind(nm, _) | Ev::Ref(nm)) = e;
            if !earlier.contains(nm) && ok(nm) {
                earlier.push(nm.clone());
            }
        }
        let tops_ok: Vec<String> = top_names.iter().filter(|x| ok(x) && !earlier.contains(x)).cloned().collect();
        let pick_local = !earlier.is_empty() && (tops_ok.is_empty() || g.bool(3, 4));
        let x = if pick_local {
            earlier[g.usize_below(earlier.len())].clone()
        } else if !tops_ok.is_empty() {
            tops_ok[g.usize_below(tops_ok.len())].clone()
        } else {
            continue;
        };
        let is_top = top_names.contains(&x);
        merged.push(x.clone());
        *p = rename_prog(p, &|nm: &str| if nm == y { x.clone() } else { nm.to_string() });
        n += 1;
        if is_top {
            top += 1;
        } else {
            local += 1;
        }
    }
    (n, local, top)
}
