//! SumGen — small programs over user-declared sum types (`type T = A | B(float) | ..`,
//! `type rec L = Nil | Cons(float, L)`) with `match` over constructors.  ProgGen has no type
//! declarations; this generator covers that part of the language for the crash / differential /
//! leak checks.  Every program is well typed by construction; `ill_typed` derives variants
//! that the type checker must refuse.

use crate::engine::tape::Gen;
use std::fmt::Write;

#[derive(Clone, Debug)]
pub struct Ctor {
    pub name: String,
    /// payload: false = float, true = the (recursive) type itself
    pub payload: Vec<bool>,
}

#[derive(Clone, Debug)]
pub struct TyDecl {
    pub name: String,
    pub rec: bool,
    pub ctors: Vec<Ctor>,
}

#[derive(Clone, Debug)]
pub struct Arm {
    /// index into the constructors; None = wildcard
    pub ctor: Option<usize>,
    pub vars: Vec<String>,
    pub body: String,
}

#[derive(Clone, Debug)]
pub struct MatchFn {
    pub name: String,
    pub ty: usize,
    pub annotate: bool,
    pub arms: Vec<Arm>,
}

#[derive(Clone, Debug)]
pub struct SumProg {
    pub types: Vec<TyDecl>,
    pub fns: Vec<MatchFn>,
    /// dsp body: (let name, constructor expression text, type index)
    pub values: Vec<(String, String, usize)>,
    pub result: String,
    /// values are built at global scope (once) instead of inside dsp (per sample)
    pub global_values: bool,
}

const NUMS: &[&str] = &["1.0", "2.0", "0.5", "3.0", "10.0", "0.25"];

fn num_leaf(g: &mut Gen, vars: &[String], time: bool) -> String {
    let mut pool: Vec<String> = NUMS.iter().map(|s| s.to_string()).collect();
    pool.extend(vars.iter().cloned());
    pool.extend(vars.iter().cloned());
    if time {
        pool.push("now".into());
    }
    g.pick(&pool).clone()
}

fn num_expr(g: &mut Gen, vars: &[String], time: bool, depth: u32) -> String {
    if depth == 0 || g.bool(1, 2) {
        return num_leaf(g, vars, time);
    }
    let op = *g.pick(&["+", "*", "-"]);
    format!("({} {op} {})", num_expr(g, vars, time, depth - 1), num_expr(g, vars, time, depth - 1))
}

/// a constructor expression of type `t` (recursion depth bounded)
fn value_expr(g: &mut Gen, t: &TyDecl, depth: u32, time: bool) -> String {
    // at depth 0 only constructors without recursive payload
    let usable: Vec<&Ctor> = t.ctors.iter().filter(|c| depth > 0 || !c.payload.iter().any(|r| *r)).collect();
    let c = if usable.is_empty() { &t.ctors[0] } else { *g.pick(&usable) };
    if c.payload.is_empty() {
        return c.name.clone();
    }
    let args: Vec<String> = c.payload.iter().map(|r| if *r { value_expr(g, t, depth.saturating_sub(1), time) } else { num_expr(g, &[], time, 1) }).collect();
    format!("{}({})", c.name, args.join(", "))
}

/// switches for shapes that are recorded findings on the unchanged tree
#[derive(Clone, Debug)]
pub struct SumCfg {
    /// a constructor whose only payload is the recursive type itself (`K(T)`)
    pub lone_recursive_payload: bool,
    /// match functions whose parameter carries no type annotation
    pub unannotated_params: bool,
    /// values of recursive (boxed) types built inside dsp, i.e. once per sample
    pub boxed_per_sample: bool,
}
impl Default for SumCfg {
    fn default() -> Self {
        SumCfg { lone_recursive_payload: true, unannotated_params: true, boxed_per_sample: true }
    }
}

pub fn generate(g: &mut Gen, cfg: &SumCfg) -> SumProg {
    let nt = g.int(1, 2) as usize;
    let mut types = vec![];
    for ti in 0..nt {
        let rec = g.bool(1, 2);
        let nc = g.int(2, 4) as usize;
        let mut ctors = vec![];
        for ci in 0..nc {
            let np = g.int(0, 2) as usize;
            let mut payload: Vec<bool> = (0..np).map(|_| false).collect();
            if rec && ci > 0 && np > 0 && g.bool(1, 2) && (np >= 2 || cfg.lone_recursive_payload) {
                let k = g.usize_below(np);
                payload[k] = true;
            }
            ctors.push(Ctor { name: format!("K{}{}", (b'a' + ti as u8) as char, ci), payload });
        }
        // a recursive type needs at least one recursive and one non-recursive constructor
        let rec = rec && ctors.iter().any(|c| c.payload.iter().any(|r| *r));
        types.push(TyDecl { name: format!("T{}", (b'a' + ti as u8) as char), rec, ctors });
    }
    let nf = g.int(1, 3) as usize;
    let mut fns: Vec<MatchFn> = vec![];
    for fi in 0..nf {
        let ty = g.usize_below(types.len());
        let t = &types[ty];
        let name = format!("m{fi}");
        let wildcard = g.bool(1, 4);
        let order = g.perm(t.ctors.len());
        let keep = if wildcard { g.int(1, t.ctors.len() as i64 - 1) as usize } else { t.ctors.len() };
        let mut arms = vec![];
        for &ci in order.iter().take(keep) {
            let c = &t.ctors[ci];
            let vars: Vec<String> = (0..c.payload.len()).map(|k| format!("p{k}")).collect();
            let num_vars: Vec<String> = vars.iter().zip(c.payload.iter()).filter(|(_, r)| !**r).map(|(v, _)| v.clone()).collect();
            let mut body = num_expr(g, &num_vars, false, 2);
            // recursive payloads are consumed by a recursive call (or ignored)
            for (v, r) in vars.iter().zip(c.payload.iter()) {
                if *r && g.bool(3, 4) {
                    body = format!("({body} + {name}({v}))");
                }
            }
            arms.push(Arm { ctor: Some(ci), vars, body });
        }
        if wildcard {
            arms.push(Arm { ctor: None, vars: vec![], body: num_expr(g, &[], false, 1) });
        }
        let annotate = types[ty].rec || g.bool(2, 3) || !cfg.unannotated_params;
        fns.push(MatchFn { name, ty, annotate, arms });
    }
    let nv = g.int(1, 4) as usize;
    let mut values = vec![];
    let any_rec = types.iter().any(|t| t.rec);
    let time = g.bool(2, 3) && (cfg.boxed_per_sample || !any_rec);
    for vi in 0..nv {
        let ty = fns[g.usize_below(fns.len())].ty;
        let e = value_expr(g, &types[ty], 3, time);
        values.push((format!("v{vi}"), e, ty));
    }
    let mut terms = vec![];
    for (vn, _, ty) in &values {
        let cands: Vec<&MatchFn> = fns.iter().filter(|f| f.ty == *ty).collect();
        for f in cands {
            if g.bool(2, 3) || terms.is_empty() {
                terms.push(format!("{}({vn})", f.name));
            }
        }
    }
    if terms.is_empty() {
        terms.push("0.0".into());
    }
    let global_values = !time && (g.bool(1, 3) || (any_rec && !cfg.boxed_per_sample));
    SumProg { types, fns, values, result: terms.join(" + "), global_values }
}

pub fn render(p: &SumProg) -> String {
    let mut s = String::new();
    for t in &p.types {
        let cs: Vec<String> = t.ctors.iter().map(|c| if c.payload.is_empty() { c.name.clone() } else { format!("{}({})", c.name, c.payload.iter().map(|r| if *r { t.name.clone() } else { "float".to_string() }).collect::<Vec<_>>().join(", ")) }).collect();
        let _ = writeln!(s, "type {}{} = {}", if t.rec { "rec " } else { "" }, t.name, cs.join(" | "));
    }
    for f in &p.fns {
        let t = &p.types[f.ty];
        if f.annotate {
            let _ = writeln!(s, "fn {}(x: {}) -> float {{", f.name, t.name);
        } else {
            let _ = writeln!(s, "fn {}(x) {{", f.name);
        }
        let _ = writeln!(s, "  match x {{");
        let n = f.arms.len();
        for (i, a) in f.arms.iter().enumerate() {
            let pat = match a.ctor {
                None => "_".to_string(),
                Some(ci) => {
                    let c = &t.ctors[ci];
                    if c.payload.is_empty() { c.name.clone() } else { format!("{}({})", c.name, a.vars.join(", ")) }
                }
            };
            let _ = writeln!(s, "    {pat} => {}{}", a.body, if i + 1 < n { "," } else { "" });
        }
        let _ = writeln!(s, "  }}\n}}");
    }
    if p.global_values {
        for (n, e, _) in &p.values {
            let _ = writeln!(s, "let {n} = {e}");
        }
        let _ = writeln!(s, "fn dsp() -> float {{\n  {}\n}}", p.result);
    } else {
        let _ = writeln!(s, "fn dsp() -> float {{");
        for (n, e, _) in &p.values {
            let _ = writeln!(s, "  let {n} = {e}");
        }
        let _ = writeln!(s, "  {}\n}}", p.result);
    }
    s
}

pub const ILL_KINDS: &[&str] = &["missing-arm", "duplicate-arm-for-missing", "constructor-arity", "float-for-sum", "unknown-constructor"];

/// A variant of `p` that is ill typed for a stated reason, or None when `p` offers no place for it.
pub fn ill_typed(p: &SumProg, g: &mut Gen) -> Option<(SumProg, &'static str)> {
    let mut q = p.clone();
    let kind = *g.pick(ILL_KINDS);
    match kind {
        "missing-arm" | "duplicate-arm-for-missing" => {
            // a function without wildcard and with >= 2 arms, whose type value reaches it
            let cands: Vec<usize> = q.fns.iter().enumerate().filter(|(_, f)| f.arms.iter().all(|a| a.ctor.is_some()) && f.arms.len() >= 2).map(|(i, _)| i).collect();
            if cands.is_empty() {
                return None;
            }
            let fi = *g.pick(&cands);
            let k = g.usize_below(q.fns[fi].arms.len());
            if kind == "missing-arm" {
                q.fns[fi].arms.remove(k);
            } else {
                // the arm for constructor k now names another arm's constructor (same number of arms)
                let other = (k + 1 + g.usize_below(q.fns[fi].arms.len() - 1)) % q.fns[fi].arms.len();
                let (oc, ov) = (q.fns[fi].arms[other].ctor, q.fns[fi].arms[other].vars.clone());
                let t = &q.types[q.fns[fi].ty];
                // the body may only mention variables the new pattern binds: use a constant
                let _ = t;
                q.fns[fi].arms[k] = Arm { ctor: oc, vars: ov, body: "7.0".into() };
            }
            Some((q, kind))
        }
        "constructor-arity" => {
            // add an argument to the first constructor application of a value
            let vi = g.usize_below(q.values.len());
            let e = q.values[vi].1.clone();
            let ne = if let Some(pos) = e.find('(') { format!("{}(9.0, {}", &e[..pos], &e[pos + 1..]) } else { format!("{e}(9.0)") };
            q.values[vi].1 = ne;
            Some((q, kind))
        }
        "float-for-sum" => {
            let vi = g.usize_below(q.values.len());
            q.values[vi].1 = "4.0".into();
            // only a violation of typing when the function's parameter is annotated with the sum type
            let ty = q.values[vi].2;
            if !q.fns.iter().any(|f| f.ty == ty && f.annotate && q.result.contains(&format!("{}({})", f.name, q.values[vi].0))) {
                return None;
            }
            Some((q, kind))
        }
        _ => {
            let vi = g.usize_below(q.values.len());
            q.values[vi].1 = "Kzz(1.0)".into();
            Some((q, kind))
        }
    }
}

/// `p` with all but one arm removed from a match without wildcard over a type with >= 3
/// constructors (two or more missing patterns); unchanged when there is no such function.
pub fn drop_arms(p: &SumProg, g: &mut Gen) -> SumProg {
    let mut q = p.clone();
    let cands: Vec<usize> = q.fns.iter().enumerate().filter(|(_, f)| f.arms.iter().all(|a| a.ctor.is_some()) && f.arms.len() >= 3).map(|(i, _)| i).collect();
    if cands.is_empty() {
        return q;
    }
    let fi = *g.pick(&cands);
    let keep = g.usize_below(q.fns[fi].arms.len());
    let a = q.fns[fi].arms[keep].clone();
    q.fns[fi].arms = vec![a];
    q
}
