//! Reference interpreter for the core fragment (C02): an independent definition of
//! call-by-value evaluation with per-call-site state, written from the property statement.
//! No code from /repo is used here.

use super::prog::*;
use std::cell::RefCell;
use std::collections::HashMap;
use std::rc::Rc;

#[derive(Clone, Debug)]
pub enum V {
    Num(f64),
    Tup(Vec<V>),
    Rec(Vec<(String, V)>),
    Clo(Rc<Closure>),
    /// a named top-level function used as a value
    Fn(String),
}

pub struct Closure {
    params: Vec<Param>,
    body: E,
    env: Env,
    /// each closure instance owns its own zero-initialised state
    state: Rc<RefCell<StateNode>>,
}
impl std::fmt::Debug for Closure {
    fn fmt(&self, f: &mut std::fmt::Formatter<'_>) -> std::fmt::Result {
        write!(f, "<closure/{}>", self.params.len())
    }
}

/// State owned by one textual call site of a function (or by one closure instance / by dsp).
#[derive(Default, Debug)]
pub struct StateNode {
    /// previous return value of the function at this site
    self_val: Option<V>,
    mems: HashMap<u32, f64>,
    delays: HashMap<u32, Vec<f64>>,
    calls: HashMap<u32, Rc<RefCell<StateNode>>>,
}

type Cell = Rc<RefCell<V>>;

#[derive(Clone, Default)]
pub struct Env {
    vars: Vec<(String, Cell)>,
}
impl Env {
    fn get(&self, n: &str) -> Option<Cell> {
        self.vars.iter().rev().find(|(k, _)| k == n).map(|(_, c)| c.clone())
    }
    fn bind(&mut self, n: &str, v: V) {
        self.vars.push((n.to_string(), Rc::new(RefCell::new(v))));
    }
}

pub struct Interp<'p> {
    prog: &'p Prog,
    fns: HashMap<String, &'p FnDef>,
    globals: Env,
    pub now: f64,
    dsp_state: Rc<RefCell<StateNode>>,
    pub steps: u64,
}

#[derive(Debug)]
pub struct Unsupported(pub String);

type R<T> = Result<T, Unsupported>;

fn zero_of(t: &Ty) -> V {
    match t {
        Ty::Num => V::Num(0.0),
        Ty::Tup(ts) => V::Tup(ts.iter().map(zero_of).collect()),
        Ty::Rec(fs) => V::Rec(fs.iter().map(|(n, t)| (n.clone(), zero_of(t))).collect()),
        Ty::Fun(..) => V::Num(0.0),
    }
}

pub fn flatten(v: &V, out: &mut Vec<f64>) {
    match v {
        V::Num(x) => out.push(*x),
        V::Tup(vs) => vs.iter().for_each(|x| flatten(x, out)),
        V::Rec(fs) => fs.iter().for_each(|(_, x)| flatten(x, out)),
        V::Clo(_) | V::Fn(_) => out.push(f64::NAN),
    }
}

fn truth(x: f64) -> bool {
    x > 0.0
}
fn b2f(b: bool) -> f64 {
    if b { 1.0 } else { 0.0 }
}

impl<'p> Interp<'p> {
    pub fn new(prog: &'p Prog) -> R<Self> {
        let mut fns = HashMap::new();
        for t in &prog.tops {
            if let Top::Fn(d) = t {
                fns.insert(d.name.clone(), d);
            }
        }
        let mut it = Interp { prog, fns, globals: Env::default(), now: 0.0, dsp_state: Rc::new(RefCell::new(StateNode::default())), steps: 0 };
        // global initialisation, in source order
        let init_state = Rc::new(RefCell::new(StateNode::default()));
        for t in &it.prog.tops {
            if let Top::Let(name, _, e) = t {
                let env = it.globals.clone();
                let v = it.eval(e, &mut env.clone(), &init_state, None)?;
                it.globals.bind(name, v);
            }
        }
        Ok(it)
    }

    /// one sample: returns the flattened output words
    pub fn dsp(&mut self, t: u64, inputs: &[f64]) -> R<Vec<f64>> {
        self.now = t as f64;
        let d = *self.fns.get("dsp").ok_or_else(|| Unsupported("no dsp".into()))?;
        let mut env = self.globals.clone();
        match d.params.len() {
            0 => {}
            1 => {
                let v = match &d.params[0].ty {
                    Ty::Num => V::Num(inputs.first().copied().unwrap_or(0.0)),
                    Ty::Tup(ts) => V::Tup((0..ts.len()).map(|i| V::Num(inputs.get(i).copied().unwrap_or(0.0))).collect()),
                    _ => return Err(Unsupported("dsp parameter type".into())),
                };
                env.bind(&d.params[0].name, v);
            }
            _ => return Err(Unsupported("dsp with several parameters".into())),
        }
        let st = self.dsp_state.clone();
        let v = self.call_body(d, &mut env, &st)?;
        let mut out = vec![];
        flatten(&v, &mut out);
        Ok(out)
    }

    /// evaluate a function body in `env` with the state node `st` of this call site; maintains `self`
    fn call_body(&mut self, d: &FnDef, env: &mut Env, st: &Rc<RefCell<StateNode>>) -> R<V> {
        let self_ty = d.ret.clone();
        let v = self.eval(&d.body, env, st, Some(&self_ty))?;
        st.borrow_mut().self_val = Some(v.clone());
        Ok(v)
    }

    fn lookup(&self, n: &str, env: &Env) -> Option<Cell> {
        env.get(n).or_else(|| self.globals.get(n))
    }

    fn bind_pat(&self, p: &Pat, v: V, env: &mut Env) -> R<()> {
        match (p, v) {
            (Pat::Var(n), v) => {
                env.bind(n, v);
                Ok(())
            }
            (Pat::Tup(ps), V::Tup(vs)) if ps.len() == vs.len() => {
                for (p, v) in ps.iter().zip(vs) {
                    self.bind_pat(p, v, env)?;
                }
                Ok(())
            }
            (Pat::Rec(fs), V::Rec(vs)) => {
                for (n, p) in fs {
                    let v = vs.iter().find(|(k, _)| k == n).map(|(_, v)| v.clone()).ok_or_else(|| Unsupported("record pattern field".into()))?;
                    self.bind_pat(p, v, env)?;
                }
                Ok(())
            }
            _ => Err(Unsupported("pattern/value shape".into())),
        }
    }

    fn num(&mut self, e: &E, env: &mut Env, st: &Rc<RefCell<StateNode>>, sty: Option<&Ty>) -> R<f64> {
        match self.eval(e, env, st, sty)? {
            V::Num(x) => Ok(x),
            other => Err(Unsupported(format!("number expected, got {other:?}"))),
        }
    }

    fn apply(&mut self, id: u32, callee: &E, args: Vec<V>, env: &mut Env, st: &Rc<RefCell<StateNode>>, sty: Option<&Ty>) -> R<V> {
        // a variable holding a closure shadows a top-level function of the same name
        let fv = match callee {
            E::Var(n) => match self.lookup(n, env) {
                Some(c) => c.borrow().clone(),
                None if self.fns.contains_key(n) => V::Fn(n.clone()),
                None => return Err(Unsupported(format!("unbound callee {n}"))),
            },
            other => self.eval(other, env, st, sty)?,
        };
        self.apply_value(id, fv, args, st)
    }

    fn apply_value(&mut self, id: u32, fv: V, args: Vec<V>, st: &Rc<RefCell<StateNode>>) -> R<V> {
        match fv {
            V::Fn(name) => {
                let d = *self.fns.get(&name).ok_or_else(|| Unsupported("unknown function".into()))?;
                if d.params.len() != args.len() {
                    return Err(Unsupported("arity".into()));
                }
                // direct call: the state belongs to this textual call site
                let child = st.borrow_mut().calls.entry(id).or_insert_with(|| Rc::new(RefCell::new(StateNode::default()))).clone();
                let mut fenv = Env::default();
                for (p, a) in d.params.iter().zip(args) {
                    fenv.bind(&p.name, a);
                }
                self.call_body(d, &mut fenv, &child)
            }
            V::Clo(c) => {
                if c.params.len() != args.len() {
                    return Err(Unsupported("closure arity".into()));
                }
                let mut cenv = c.env.clone();
                for (p, a) in c.params.iter().zip(args) {
                    cenv.bind(&p.name, a);
                }
                let cst = c.state.clone();
                self.eval(&c.body, &mut cenv, &cst, None)
            }
            other => Err(Unsupported(format!("call of non-function {other:?}"))),
        }
    }

    pub fn eval(&mut self, e: &E, env: &mut Env, st: &Rc<RefCell<StateNode>>, sty: Option<&Ty>) -> R<V> {
        self.steps += 1;
        if self.steps > 5_000_000 {
            return Err(Unsupported("step budget".into()));
        }
        Ok(match e {
            E::Lit(t) => V::Num(t.parse::<f64>().map_err(|_| Unsupported("literal".into()))?),
            E::Var(n) => match self.lookup(n, env) {
                Some(c) => c.borrow().clone(),
                None if self.fns.contains_key(n) => V::Fn(n.clone()),
                None => return Err(Unsupported(format!("unbound {n}"))),
            },
            E::Bin(op, a, b) => {
                let x = self.num(a, env, st, sty)?;
                let y = self.num(b, env, st, sty)?;
                V::Num(match op {
                    Bop::Add => x + y,
                    Bop::Sub => x - y,
                    Bop::Mul => x * y,
                    Bop::Div => x / y,
                    Bop::Mod => x % y,
                    Bop::Pow => x.powf(y),
                    Bop::Eq => b2f(x == y),
                    Bop::Ne => b2f(x != y),
                    Bop::Lt => b2f(x < y),
                    Bop::Le => b2f(x <= y),
                    Bop::Gt => b2f(x > y),
                    Bop::Ge => b2f(x >= y),
                    Bop::And => b2f(truth(x) && truth(y)),
                    Bop::Or => b2f(truth(x) || truth(y)),
                })
            }
            // the language defines unary minus as `0.0 - x` (convert_pronoun.rs), so -(0.0) is +0.0
            E::Neg(a) => V::Num(0.0 - self.num(a, env, st, sty)?),
            E::B1(f, a) => {
                let x = self.num(a, env, st, sty)?;
                V::Num(match *f {
                    "sin" => x.sin(),
                    "cos" => x.cos(),
                    "tan" => x.tan(),
                    "sinh" => x.sinh(),
                    "cosh" => x.cosh(),
                    "tanh" => x.tanh(),
                    "atan" => x.atan(),
                    "abs" => x.abs(),
                    "sqrt" => x.sqrt(),
                    "log" => x.ln(),
                    "floor" => x.floor(),
                    "ceil" => x.ceil(),
                    "round" => x.round(),
                    other => return Err(Unsupported(format!("builtin {other}"))),
                })
            }
            E::B2(f, a, b) => {
                let x = self.num(a, env, st, sty)?;
                let y = self.num(b, env, st, sty)?;
                V::Num(match *f {
                    "min" => x.min(y),
                    "max" => x.max(y),
                    "atan2" => x.atan2(y),
                    "pow" => x.powf(y),
                    other => return Err(Unsupported(format!("builtin {other}"))),
                })
            }
            E::If(c, a, b) => {
                let cv = self.num(c, env, st, sty)?;
                if truth(cv) { self.eval(a, env, st, sty)? } else { self.eval(b, env, st, sty)? }
            }
            E::Block(ss, last) => {
                let mark = env.vars.len();
                for s in ss {
                    match s {
                        S::Let(p, x) => {
                            let v = self.eval(x, env, st, sty)?;
                            self.bind_pat(p, v, env)?;
                        }
                        S::Assign(n, x) => {
                            let v = self.eval(x, env, st, sty)?;
                            let c = self.lookup(n, env).ok_or_else(|| Unsupported(format!("assign to unbound {n}")))?;
                            *c.borrow_mut() = v;
                        }
                        S::LetRec(n, x) => {
                            // the binder is in scope inside its own right-hand side
                            self.bind_pat(&Pat::Var(n.clone()), V::Num(0.0), env)?;
                            let v = self.eval(x, env, st, sty)?;
                            let c = self.lookup(n, env).ok_or_else(|| Unsupported(format!("letrec {n}")))?;
                            *c.borrow_mut() = v;
                        }
                    }
                }
                let v = self.eval(last, env, st, sty)?;
                env.vars.truncate(mark);
                v
            }
            E::Tup(es) => {
                let mut vs = vec![];
                for x in es {
                    vs.push(self.eval(x, env, st, sty)?);
                }
                V::Tup(vs)
            }
            E::Proj(a, i) => match self.eval(a, env, st, sty)? {
                V::Tup(vs) => vs.get(*i).cloned().ok_or_else(|| Unsupported("projection index".into()))?,
                other => return Err(Unsupported(format!("projection of {other:?}"))),
            },
            E::Rec(fs) => {
                let mut vs = vec![];
                for (n, x) in fs {
                    vs.push((n.clone(), self.eval(x, env, st, sty)?));
                }
                V::Rec(vs)
            }
            E::Field(a, n) => match self.eval(a, env, st, sty)? {
                V::Rec(vs) => vs.iter().find(|(k, _)| k == n).map(|(_, v)| v.clone()).ok_or_else(|| Unsupported("field".into()))?,
                other => return Err(Unsupported(format!("field of {other:?}"))),
            },
            E::RecUpd(a, fs) => {
                let base = self.eval(a, env, st, sty)?;
                let V::Rec(mut vs) = base else { return Err(Unsupported("record update of non-record".into())) };
                for (n, x) in fs {
                    let v = self.eval(x, env, st, sty)?;
                    if let Some(slot) = vs.iter_mut().find(|(k, _)| k == n) {
                        slot.1 = v;
                    }
                }
                V::Rec(vs)
            }
            E::Lam(ps, body) => V::Clo(Rc::new(Closure { params: ps.clone(), body: (**body).clone(), env: env.clone(), state: Rc::new(RefCell::new(StateNode::default())) })),
            E::Call(id, f, args) => {
                // left to right as written: a computed callee (`mk(e)(x)`, a block, a lambda) is
                // evaluated before the arguments, so its side effects are visible to them
                let fe: &E = f;
                let pre = if matches!(fe, E::Var(_)) { None } else { Some(self.eval(fe, env, st, sty)?) };
                let mut vs = vec![];
                for a in args {
                    vs.push(self.eval(a, env, st, sty)?);
                }
                match pre {
                    Some(fv) => self.apply_value(*id, fv, vs, st)?,
                    None => self.apply(*id, fe, vs, env, st, sty)?,
                }
            }
            E::Pipe(id, x, f) => {
                let v = self.eval(x, env, st, sty)?;
                self.apply(*id, f, vec![v], env, st, sty)?
            }
            E::Spread(ids, fname, es) => {
                let mut vs = vec![];
                for e in es {
                    vs.push(self.eval(e, env, st, sty)?);
                }
                let mut out = vec![];
                for (i, v) in vs.into_iter().enumerate() {
                    out.push(self.apply(ids[i], &E::Var(fname.clone()), vec![v], env, st, sty)?);
                }
                V::Tup(out)
            }
            E::Pack(id, fname, fields, _dots) => {
                let def: &FnDef = self.fns.get(fname.as_str()).copied().ok_or_else(|| Unsupported("pack into an unknown function".into()))?;
                let pnames: Vec<String> = def.params.iter().map(|p| p.name.clone()).collect();
                let defaults = def.defaults.clone();
                let mut vs: Vec<Option<V>> = vec![None; pnames.len()];
                if fields.iter().all(|(n, _)| n.is_none()) {
                    for (i, (_, e)) in fields.iter().enumerate() {
                        let v = self.eval(e, env, st, sty)?;
                        if i < vs.len() {
                            vs[i] = Some(v);
                        }
                    }
                } else {
                    // a record literal is laid out (and its fields evaluated) in alphabetical key order
                    let mut sorted: Vec<&(Option<String>, E)> = fields.iter().collect();
                    sorted.sort_by(|a, b| a.0.cmp(&b.0));
                    for (n, e) in sorted {
                        let v = self.eval(e, env, st, sty)?;
                        if let Some(i) = pnames.iter().position(|p| Some(p) == n.as_ref()) {
                            vs[i] = Some(v);
                        }
                    }
                }
                let mut args = vec![];
                for (i, v) in vs.into_iter().enumerate() {
                    match v {
                        Some(v) => args.push(v),
                        None => {
                            let d = defaults.get(i).cloned().flatten().ok_or_else(|| Unsupported("missing pack field without default".into()))?;
                            args.push(V::Num(d.parse::<f64>().map_err(|_| Unsupported("default literal".into()))?));
                        }
                    }
                }
                self.apply(*id, &E::Var(fname.clone()), args, env, st, sty)?
            }
            E::SelfV => {
                let cur = st.borrow().self_val.clone();
                match cur {
                    Some(v) => v,
                    None => zero_of(sty.ok_or_else(|| Unsupported("self outside a function".into()))?),
                }
            }
            E::Mem(id, a) => {
                let x = self.num(a, env, st, sty)?;
                let mut s = st.borrow_mut();
                let prev = s.mems.get(id).copied().unwrap_or(0.0);
                s.mems.insert(*id, x);
                V::Num(prev)
            }
            E::Delay(id, n, x, t) => {
                let xv = self.num(x, env, st, sty)?;
                let tv = self.num(t, env, st, sty)?;
                if !(tv >= 1.0 && tv <= (crate::gens::prog::delay_max_value(*n) - 1.0)) {
                    return Err(Unsupported("delay time outside [1, N-1]".into()));
                }
                let d = tv.floor() as usize;
                let mut s = st.borrow_mut();
                let h = s.delays.entry(*id).or_default();
                let k = h.len();
                let y = if k >= d { h[k - d] } else { 0.0 };
                h.push(xv);
                V::Num(y)
            }
            E::MatchNum(sc, arms, d) => {
                // the scrutinee is cast to an integer by truncation towards zero (saturating, NaN -> 0)
                let x = self.num(sc, env, st, sty)?;
                let k = x as i64;
                match arms.iter().find(|(a, _)| *a == k) {
                    Some((_, e)) => self.eval(e, env, st, sty)?,
                    None => self.eval(d, env, st, sty)?,
                }
            }
            E::ArrLit(es) => {
                let mut vs = vec![];
                for e in es {
                    vs.push(self.eval(e, env, st, sty)?);
                }
                V::Tup(vs)
            }
            E::Index(a, i) => {
                let av = self.eval(a, env, st, sty)?;
                let x = self.num(i, env, st, sty)?;
                let V::Tup(items) = av else { return Err(Unsupported("index of a non-array".into())) };
                if items.is_empty() {
                    return Err(Unsupported("empty array".into()));
                }
                // index: non-finite -> 0, truncation towards zero, clamped to the array
                let k = if !x.is_finite() { 0 } else { (x as i64).clamp(0, items.len() as i64 - 1) as usize };
                items[k].clone()
            }
            E::Now => V::Num(self.now),
            E::SampleRate => V::Num(48000.0),
            E::Raw(_) => return Err(Unsupported("raw text".into())),
        })
    }
}
