//! Entry point shared by the cargo-fuzz targets (`fuzz/fuzz_targets/*.rs`) and `mmv fuzzcase`.
//!
//! A coverage-guided campaign mutates raw bytes; this module turns the bytes into a case of one
//! property and runs that property's ordinary oracle on it (non-strict, i.e. with the same
//! known-finding tolerances as the random search).  Three decodings:
//!
//! * `text`  (C04, C13, C14, C16c): the bytes, read as UTF-8 (lossy), are the source text.  C14
//!   takes line width and indent from the first byte.
//! * `bytes` (C20): the bytes are a wire message handed to the decoders.
//! * `tape`  (C08, C17, C20v, C09, C10, C11): the bytes are the choice tape of one of the property's
//!   generators (two bytes per draw, reduced modulo the number of alternatives), so the fuzzer
//!   mutates *structured* cases.
//!
//! `decode` yields a replayable description (`direct` input or tape) so that a fuzzer artefact
//! becomes an ordinary replay file of the driver.

use crate::engine::case::*;
use crate::engine::panics;
use crate::engine::tape::Gen;
use crate::props;
use serde_json::{json, Value};

#[derive(Clone, Copy, Debug, PartialEq)]
pub enum Kind {
    Text,
    Bytes,
    Tape,
}

/// (target name, property id, decoding, space for tape targets)
pub const TARGETS: &[(&str, &str, Kind, &str)] = &[
    ("c04_text", "C04", Kind::Text, ""),
    ("c13_text", "C13", Kind::Text, ""),
    ("c14_text", "C14", Kind::Text, ""),
    ("c20_bytes", "C20", Kind::Bytes, ""),
    ("c20_values", "C20", Kind::Tape, "values"),
    ("c20_args", "C20", Kind::Tape, "args"),
    ("c08_edit", "C08", Kind::Tape, "edit"),
    ("c08_indep", "C08", Kind::Tape, "indep"),
    ("c17_positive", "C17", Kind::Tape, "positive"),
    ("c17_negative", "C17", Kind::Tape, "negative"),
];

pub fn target(name: &str) -> Option<(&'static str, Kind, &'static str)> {
    TARGETS.iter().find(|t| t.0 == name).map(|t| (t.1, t.2, t.3))
}

const WIDTHS: [u64; 8] = [80, 1, 20, 40, 60, 100, 120, 200];
const INDENTS: [u64; 4] = [4, 2, 0, 8];

fn hex(b: &[u8]) -> String {
    b.iter().map(|x| format!("{x:02x}")).collect()
}

/// the direct input a text/bytes target hands to the property
pub fn direct_of(prop: &str, kind: Kind, data: &[u8]) -> Option<Value> {
    match kind {
        Kind::Text => {
            if prop == "C14" {
                let (h, rest) = data.split_first()?;
                let text = String::from_utf8_lossy(rest).to_string();
                Some(json!({"text": text, "width": WIDTHS[(*h & 7) as usize], "indent": INDENTS[((*h >> 3) & 3) as usize]}))
            } else {
                Some(json!({"text": String::from_utf8_lossy(data).to_string()}))
            }
        }
        Kind::Bytes => Some(json!({"kind": "bytes", "hex": hex(data)})),
        Kind::Tape => None,
    }
}

pub struct Outcome {
    pub result: CaseResult,
    /// replay description: {"direct": ..} or {"space": .., "tape": [..]}
    pub replay: Value,
}

fn cx(strict: bool, render: bool) -> Cx {
    Cx { tier: Tier::Thorough, seed: 0, render, strict, no_exclude: vec![], dry: false }
}

/// run one fuzzer input through the property's oracle
pub fn run(target_name: &str, data: &[u8], strict: bool, render: bool) -> Option<Outcome> {
    let (pid, kind, space) = target(target_name)?;
    let prop = props::get(pid)?;
    let cx = cx(strict, render);
    match kind {
        Kind::Text | Kind::Bytes => {
            let d = direct_of(pid, kind, data)?;
            let r = match panics::catch(|| prop.run_direct(&d, &cx)) {
                Ok(Some(r)) => r,
                Ok(None) => return None,
                Err(p) => CaseResult::fail(0, p.signature(), p.describe()),
            };
            Some(Outcome { result: r, replay: json!({"direct": d}) })
        }
        Kind::Tape => {
            let mut g = Gen::fuzz(data);
            g.max_draws = 6000;
            let r = panics::catch(|| prop.run(space, 0, &mut g, &cx));
            let used = std::mem::take(&mut g.used);
            let r = match r {
                Ok(r) => r,
                Err(p) => CaseResult::fail(0, p.signature(), p.describe()),
            };
            let mut rep = json!({"space": space, "tape": used});
            if let Some(d) = &r.direct {
                rep["direct"] = d.clone();
            }
            Some(Outcome { result: r, replay: rep })
        }
    }
}

/// called by every fuzz target: abort (so that libFuzzer keeps the input) when the oracle fails
pub fn fuzz_one(target_name: &str, data: &[u8]) {
    static INIT: std::sync::Once = std::sync::Once::new();
    INIT.call_once(|| {
        panics::install_hook();
        let _ = std::env::set_current_dir("/repo");
    });
    if let Some(o) = run(target_name, data, false, false) {
        if let Status::Fail { sig, msg } = &o.result.status {
            // the driver re-runs the saved input through `mmv fuzzcase`; the text here is for a human
            // who runs the target by hand
            let _ = std::io::Write::write_all(&mut std::io::stdout(), format!("MMV-FUZZ-FAIL {target_name} {sig}: {}\n", msg.chars().take(300).collect::<String>()).as_bytes());
            std::process::abort();
        }
    }
}
