//! C17 helper: route builder, random generator and the exhaustive single-route family.

use super::model::*;
use crate::engine::tape::Gen;

#[derive(Clone, Debug)]
pub struct Link {
    pub exporter: Path,
    pub rel: bool,
    pub multi: bool,
    pub public: bool,
}

#[derive(Clone, Debug)]
pub enum Fin {
    Path,
    Use { multi: bool },
    Wild,
}

#[derive(Clone, Debug)]
pub enum Kind {
    Qual { rel: bool },
    Own,
    Use { rel: bool, multi: bool, extras: Vec<String>, n_at: usize, at_start: bool },
    Wild { at_start: bool },
    Reexp { links: Vec<Link>, fin: Fin },
}

#[derive(Clone, Debug)]
pub struct RouteSpec {
    pub target: (Path, String),
    pub pos: Path,
    pub kind: Kind,
    pub wrap: Wrap,
}

fn path_to(from: &Path, to: &Path, rel: bool) -> Option<Path> {
    if to.is_empty() {
        return None;
    }
    if rel {
        if from.is_empty() || !to.starts_with(from) || to.len() <= from.len() {
            return None;
        }
        Some(to[from.len()..].to_vec())
    } else {
        Some(to.clone())
    }
}

fn add_use(p: &mut Prog, at: &Path, u: UseStmt) -> Option<()> {
    p.module_mut(at)?.uses.push(u);
    Some(())
}

/// add the `use` statements and the probe function of one route
pub fn apply_route(p: &mut Prog, s: &RouteSpec, id: u32) -> Option<()> {
    let (tm, n) = (&s.target.0, &s.target.1);
    p.module(tm)?;
    p.module(&s.pos)?;
    let segs: Vec<String> = match &s.kind {
        Kind::Qual { rel } => {
            let mut v = path_to(&s.pos, tm, *rel)?;
            v.push(n.clone());
            v
        }
        Kind::Own => {
            if s.pos != *tm {
                return None;
            }
            vec![n.clone()]
        }
        Kind::Use { rel, multi, extras, n_at, at_start } => {
            let mut names = vec![];
            if *multi {
                names.extend(extras.iter().cloned());
            }
            names.insert((*n_at).min(names.len()), n.clone());
            add_use(p, &s.pos, UseStmt { public: false, path: path_to(&s.pos, tm, *rel)?, names, kind: if *multi { UseKind::Multi } else { UseKind::Single }, at_start: *at_start })?;
            vec![n.clone()]
        }
        Kind::Wild { at_start } => {
            add_use(p, &s.pos, UseStmt { public: false, path: path_to(&s.pos, tm, false)?, names: vec![], kind: UseKind::Wild, at_start: *at_start })?;
            vec![n.clone()]
        }
        Kind::Reexp { links, fin } => {
            let mut prev = tm.clone();
            for l in links {
                if l.exporter.is_empty() {
                    return None;
                }
                add_use(p, &l.exporter, UseStmt { public: l.public, path: path_to(&l.exporter, &prev, l.rel)?, names: vec![n.clone()], kind: if l.multi { UseKind::Multi } else { UseKind::Single }, at_start: false })?;
                prev = l.exporter.clone();
            }
            match fin {
                Fin::Path => {
                    let mut v = path_to(&s.pos, &prev, false)?;
                    v.push(n.clone());
                    v
                }
                Fin::Use { multi } => {
                    add_use(p, &s.pos, UseStmt { public: false, path: path_to(&s.pos, &prev, false)?, names: vec![n.clone()], kind: if *multi { UseKind::Multi } else { UseKind::Single }, at_start: false })?;
                    vec![n.clone()]
                }
                Fin::Wild => {
                    add_use(p, &s.pos, UseStmt { public: false, path: path_to(&s.pos, &prev, false)?, names: vec![], kind: UseKind::Wild, at_start: false })?;
                    vec![n.clone()]
                }
            }
        }
    };
    if s.wrap.needs_unqualified() && segs.len() != 1 {
        return None;
    }
    p.module_mut(&s.pos)?.probes.push(Probe { id, segs, wrap: s.wrap });
    Some(())
}

// ------------------------------------------------------------------------------------------
// random trees and routes
// ------------------------------------------------------------------------------------------

/// two pairs in which one name is a proper string prefix of the other (a privacy or resolution test on the
/// mangled string instead of on path segments confuses `ma` with `mab`)
const MOD_NAMES: [&str; 4] = ["ma", "mab", "mc", "mc2"];
const FN_NAMES: [&str; 5] = ["fa", "fb", "fc", "fd", "fe"];

fn gen_module(g: &mut Gen, name: &str, depth: usize, next_val: &mut f64, budget: &mut usize) -> Module {
    let mut m = Module { name: name.to_string(), public: g.bool(3, 5), fns_first: g.coin(), ..Default::default() };
    let nf = g.weighted(&[2, 4, 3, 1]);
    let perm = g.perm(FN_NAMES.len());
    for k in 0..nf {
        *next_val += 1.0;
        m.fns.push(Func { name: FN_NAMES[perm[k]].to_string(), public: g.bool(3, 5), val: *next_val });
    }
    if depth < 3 && *budget > 0 {
        let nc = g.weighted(if depth == 1 { &[3, 4, 2] } else { &[5, 3, 1] });
        let perm = g.perm(MOD_NAMES.len());
        for k in 0..nc {
            if *budget == 0 {
                break;
            }
            *budget -= 1;
            m.mods.push(gen_module(g, MOD_NAMES[perm[k]], depth + 1, next_val, budget));
        }
    }
    m
}

pub fn gen_tree(g: &mut Gen) -> Prog {
    let mut p = Prog::default();
    let ntop = 1 + g.weighted(&[3, 4, 2]);
    let perm = g.perm(MOD_NAMES.len());
    let mut next_val = 100.0;
    let mut budget = 7usize;
    for k in 0..ntop {
        let m = g.span(|g| gen_module(g, MOD_NAMES[perm[k]], 1, &mut next_val, &mut budget));
        p.root.mods.push(m);
    }
    // at least one function that can be reached from everywhere
    if !p.root.mods.iter().any(|m| m.fns.iter().any(|f| f.public)) {
        let m = &mut p.root.mods[0];
        if m.fns.is_empty() {
            m.fns.push(Func { name: "fa".into(), public: true, val: 100.0 });
        } else {
            m.fns[0].public = true;
        }
    }
    p
}

fn pick_path(g: &mut Gen, xs: &[Path]) -> Path {
    xs[g.usize_below(xs.len())].clone()
}

/// a random route over the given tree (may be inapplicable or illegal: the caller validates)
pub fn gen_route(g: &mut Gen, p: &Prog) -> RouteSpec {
    let fns = p.all_fns();
    let mods = p.all_module_paths();
    let target = fns[g.usize_below(fns.len())].clone();
    let tm = target.0.clone();
    let any_pos = |g: &mut Gen| -> Path { if g.bool(2, 5) { vec![] } else { pick_path(g, &mods) } };
    let anc = |g: &mut Gen| -> Path {
        // a proper ancestor of the target module (root excluded when possible)
        if tm.len() <= 1 { vec![] } else { tm[..1 + g.usize_below(tm.len() - 1)].to_vec() }
    };
    let k = g.weighted(&[3, 2, 1, 3, 2, 2, 5]);
    let (kind, pos) = match k {
        0 => (Kind::Qual { rel: false }, any_pos(g)),
        1 => (Kind::Qual { rel: true }, anc(g)),
        2 => (Kind::Own, tm.clone()),
        3 | 4 => {
            let rel = g.bool(1, 4);
            let pos = if rel { anc(g) } else { any_pos(g) };
            let multi = k == 4;
            let mut extras = vec![];
            if multi {
                let others: Vec<String> = p.module(&tm).unwrap().fns.iter().map(|f| f.name.clone()).filter(|x| *x != target.1).collect();
                for o in others {
                    if g.coin() {
                        extras.push(o);
                    }
                }
            }
            let n_at = g.usize_below(extras.len() + 1);
            (Kind::Use { rel, multi, extras, n_at, at_start: g.bool(1, 4) }, pos)
        }
        5 => (Kind::Wild { at_start: g.bool(1, 4) }, any_pos(g)),
        _ => {
            let nl = 1 + g.weighted(&[4, 3, 2]);
            let mut links = vec![];
            let mut prev = tm.clone();
            for _ in 0..nl {
                // exporter: an ancestor of the previous module (facade idiom) or any other module
                let exporter = if prev.len() > 1 && g.bool(2, 5) { prev[..1 + g.usize_below(prev.len() - 1)].to_vec() } else { pick_path(g, &mods) };
                let rel = prev.starts_with(&exporter) && prev.len() > exporter.len() && g.coin();
                links.push(Link { exporter: exporter.clone(), rel, multi: g.bool(1, 3), public: true });
                prev = exporter;
            }
            let fin = match g.weighted(&[4, 1, 1]) {
                0 => Fin::Path,
                1 => Fin::Use { multi: g.bool(1, 3) },
                _ => Fin::Wild,
            };
            (Kind::Reexp { links, fin }, any_pos(g))
        }
    };
    let unq = !matches!(kind, Kind::Qual { .. } | Kind::Own | Kind::Reexp { fin: Fin::Path, .. });
    let wrap = if unq { Wrap::ALL[g.weighted(&[5, 2, 1, 1, 1, 1, 1, 0, 2])] } else { Wrap::ALL[g.weighted(&[5, 2])] };
    RouteSpec { target, pos, kind, wrap }
}

// ------------------------------------------------------------------------------------------
// exhaustive single-route family over a fixed two-level tree
// ------------------------------------------------------------------------------------------

fn s(x: &[&str]) -> Path {
    x.iter().map(|s| s.to_string()).collect()
}

/// `mod ma { fn fa  mod mb { fn fb } }  mod mc { }`; bit0: fa pub, bit1: mb pub, bit2: fb pub
pub fn base_tree(flags: u8) -> Prog {
    let mb = Module { name: "mb".into(), public: flags & 2 != 0, fns_first: true, fns: vec![Func { name: "fb".into(), public: flags & 4 != 0, val: 102.0 }], ..Default::default() };
    let ma = Module { name: "ma".into(), public: false, fns_first: true, fns: vec![Func { name: "fa".into(), public: flags & 1 != 0, val: 101.0 }], mods: vec![mb], ..Default::default() };
    let mc = Module { name: "mc".into(), public: false, fns_first: true, ..Default::default() };
    Prog { root: Module { mods: vec![ma, mc], ..Default::default() } }
}

pub fn exhaustive_specs() -> Vec<(u8, RouteSpec)> {
    let targets = [(s(&["ma"]), "fa".to_string()), (s(&["ma", "mb"]), "fb".to_string())];
    let positions = [s(&[]), s(&["ma"]), s(&["ma", "mb"]), s(&["mc"])];
    let exporters = [s(&["mc"]), s(&["ma"]), s(&["ma", "mb"])];
    let mut kinds: Vec<Kind> = vec![
        Kind::Qual { rel: false },
        Kind::Qual { rel: true },
        Kind::Own,
        Kind::Use { rel: false, multi: false, extras: vec![], n_at: 0, at_start: false },
        Kind::Use { rel: true, multi: false, extras: vec![], n_at: 0, at_start: false },
        Kind::Use { rel: false, multi: true, extras: vec![], n_at: 0, at_start: false },
        Kind::Use { rel: true, multi: true, extras: vec![], n_at: 0, at_start: false },
        Kind::Use { rel: false, multi: false, extras: vec![], n_at: 0, at_start: true },
        Kind::Wild { at_start: false },
    ];
    for e in &exporters {
        for rel in [false, true] {
            for public in [true, false] {
                for multi in [false, true] {
                    kinds.push(Kind::Reexp { links: vec![Link { exporter: e.clone(), rel, multi, public }], fin: Fin::Path });
                }
            }
        }
        kinds.push(Kind::Reexp { links: vec![Link { exporter: e.clone(), rel: false, multi: false, public: true }], fin: Fin::Use { multi: false } });
        kinds.push(Kind::Reexp { links: vec![Link { exporter: e.clone(), rel: false, multi: false, public: true }], fin: Fin::Wild });
        for e2 in &exporters {
            if e2 == e {
                continue;
            }
            for rel2 in [false, true] {
                kinds.push(Kind::Reexp { links: vec![Link { exporter: e.clone(), rel: false, multi: false, public: true }, Link { exporter: e2.clone(), rel: rel2, multi: false, public: true }], fin: Fin::Path });
            }
        }
    }
    let mut out = vec![];
    for flags in 0..8u8 {
        for t in &targets {
            for pos in &positions {
                for k in &kinds {
                    let unq = !matches!(k, Kind::Qual { .. } | Kind::Own | Kind::Reexp { fin: Fin::Path, .. });
                    for w in Wrap::ALL {
                        if !unq && w.needs_unqualified() {
                            continue;
                        }
                        out.push((flags, RouteSpec { target: t.clone(), pos: pos.clone(), kind: k.clone(), wrap: w }));
                    }
                }
            }
        }
    }
    out
}
