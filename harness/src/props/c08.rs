//! C08 — state migration plans are well-formed and keep everything that survives.
//!
//! Subject: `state_tree::build_state_storage_patch_plan` / `apply_state_storage_patch_plan`.
//! Oracle: validity predicates over the plan + tagged-storage application + an independent
//! reference for "everything that survives": the maximum number of words any
//! removal/addition edit script between the two layouts leaves in place (W*).

use crate::engine::case::*;
use crate::engine::tape::Gen;
use crate::engine::rng::hash64;
use serde_json::{json, Value};
use state_tree::tree::StateTreeSkeleton as Sk;
use state_tree::{apply_state_storage_patch_plan, build_state_storage_patch_plan};
use std::sync::OnceLock;

type T = Sk<u64>;

pub struct C08;

// ---------------------------------------------------------------- tree utilities

pub fn show(t: &T) -> String {
    match t {
        Sk::Mem(n) => format!("M{n}"),
        Sk::Feed(n) => format!("E{n}"),
        Sk::Delay { len } => format!("D{len}"),
        Sk::FnCall(cs) => format!("F[{}]", cs.iter().map(|c| show(c)).collect::<Vec<_>>().join(",")),
    }
}

pub fn parse(s: &str) -> Option<T> {
    fn p(b: &[u8], i: &mut usize) -> Option<T> {
        let c = *b.get(*i)?;
        *i += 1;
        match c {
            b'M' | b'E' | b'D' => {
                let st = *i;
                while *i < b.len() && b[*i].is_ascii_digit() {
                    *i += 1;
                }
                let n: u64 = std::str::from_utf8(&b[st..*i]).ok()?.parse().ok()?;
                Some(match c {
                    b'M' => Sk::Mem(n),
                    b'E' => Sk::Feed(n),
                    _ => Sk::Delay { len: n },
                })
            }
            b'F' => {
                if *b.get(*i)? != b'[' {
                    return None;
                }
                *i += 1;
                let mut cs = vec![];
                if *b.get(*i)? == b']' {
                    *i += 1;
                    return Some(Sk::FnCall(cs));
                }
                loop {
                    cs.push(Box::new(p(b, i)?));
                    match *b.get(*i)? {
                        b',' => *i += 1,
                        b']' => {
                            *i += 1;
                            return Some(Sk::FnCall(cs));
                        }
                        _ => return None,
                    }
                }
            }
            _ => None,
        }
    }
    let b: Vec<u8> = s.bytes().filter(|c| !c.is_ascii_whitespace()).collect();
    let mut i = 0;
    let t = p(&b, &mut i)?;
    if i == b.len() { Some(t) } else { None }
}

fn size(t: &T) -> u64 {
    match t {
        Sk::Mem(n) | Sk::Feed(n) => *n,
        Sk::Delay { len } => 2 + *len,
        Sk::FnCall(cs) => cs.iter().map(|c| size(c)).sum(),
    }
}

fn node_count(t: &T) -> usize {
    match t {
        Sk::FnCall(cs) => 1 + cs.iter().map(|c| node_count(c)).sum::<usize>(),
        _ => 1,
    }
}

/// independent shape equality (not the repository's `nodes_match` / `PartialEq`)
fn same_shape(a: &T, b: &T) -> bool {
    match (a, b) {
        (Sk::Mem(x), Sk::Mem(y)) => x == y,
        (Sk::Feed(x), Sk::Feed(y)) => x == y,
        (Sk::Delay { len: x }, Sk::Delay { len: y }) => x == y,
        (Sk::FnCall(xs), Sk::FnCall(ys)) => xs.len() == ys.len() && xs.iter().zip(ys).all(|(x, y)| same_shape(x, y)),
        _ => false,
    }
}

/// all nodes with (address, size)
fn nodes<'a>(t: &'a T, base: u64, out: &mut Vec<(u64, u64, &'a T)>) {
    out.push((base, size(t), t));
    if let Sk::FnCall(cs) = t {
        let mut off = base;
        for c in cs {
            nodes(c, off, out);
            off += size(c);
        }
    }
}

fn has_wide_call(t: &T) -> bool {
    match t {
        Sk::FnCall(cs) => cs.len() >= 2 || cs.iter().any(|c| has_wide_call(c)),
        _ => false,
    }
}

/// W*: the maximum number of words that survive in place under any script of subtree
/// removals and additions turning `a` into `b` (ordered tree embedding, leaves of identical
/// shape only, call nodes matched with call nodes).
fn wstar(a: &T, b: &T) -> u64 {
    match (a, b) {
        (Sk::FnCall(xs), Sk::FnCall(ys)) => {
            let n = xs.len();
            let m = ys.len();
            let mut dp = vec![vec![0u64; m + 1]; n + 1];
            for i in 1..=n {
                for j in 1..=m {
                    let w = wstar(&xs[i - 1], &ys[j - 1]);
                    dp[i][j] = (dp[i - 1][j - 1] + w).max(dp[i - 1][j]).max(dp[i][j - 1]);
                }
            }
            dp[n][m]
        }
        (Sk::FnCall(_), _) | (_, Sk::FnCall(_)) => 0,
        _ => {
            if same_shape(a, b) {
                size(a)
            } else {
                0
            }
        }
    }
}

// ---------------------------------------------------------------- the oracle

pub struct Outcome {
    pub fail: Option<(String, String)>,
    pub carried: u64,
    pub wstar: u64,
    pub npatches: usize,
    pub demanded: bool,
}

pub fn check_pair(old: &T, new: &T, unambiguous: bool) -> Outcome {
    let mut o = Outcome { fail: None, carried: 0, wstar: 0, npatches: 0, demanded: false };
    macro_rules! fail {
        ($sig:expr, $($arg:tt)*) => {{ o.fail = Some((format!("c08:{}", $sig), format!($($arg)*))); return o; }};
    }
    let identical = same_shape(old, new);
    let plan = build_state_storage_patch_plan(old.clone(), new.clone());
    let plan = match plan {
        None => {
            if !identical {
                fail!("none-for-different-layouts", "no plan although the layouts differ");
            }
            return o;
        }
        Some(p) => {
            if identical {
                fail!("plan-for-identical-layouts", "identical layouts must be a no-op, got {} patches", p.patches.len());
            }
            p
        }
    };
    let old_total = size(old);
    let new_total = size(new);
    if plan.total_size as u64 != new_total {
        fail!("total-size", "plan.total_size {} != new layout size {}", plan.total_size, new_total);
    }
    let mut on = vec![];
    nodes(old, 0, &mut on);
    let mut nn = vec![];
    nodes(new, 0, &mut nn);
    o.npatches = plan.patches.len();
    let mut ps = plan.patches.clone();
    ps.sort_by_key(|p| (p.dst_addr, p.src_addr, p.size));
    for p in &ps {
        let (s, d, z) = (p.src_addr as u64, p.dst_addr as u64, p.size as u64);
        if s + z > old_total {
            fail!("src-out-of-bounds", "patch {p:?} reads past old storage of {old_total} words");
        }
        if d + z > new_total {
            fail!("dst-out-of-bounds", "patch {p:?} writes past new storage of {new_total} words");
        }
        // identical shape: some old node with exactly the source range and some new node with
        // exactly the destination range have the same shape
        let ok = on.iter().filter(|(a, sz, _)| *a == s && *sz == z).any(|(_, _, x)| nn.iter().filter(|(a, sz, _)| *a == d && *sz == z).any(|(_, _, y)| same_shape(x, y)));
        if !ok {
            fail!("shape-mismatch", "patch {p:?} does not connect two subtrees of identical shape");
        }
    }
    let nz: Vec<_> = ps.iter().filter(|p| p.size > 0).collect();
    for w in nz.windows(2) {
        if w[0].dst_addr + w[0].size > w[1].dst_addr {
            fail!("dst-overlap", "destination words written twice: {:?} and {:?}", w[0], w[1]);
        }
    }
    for i in 0..nz.len() {
        for j in 0..nz.len() {
            if nz[i].src_addr < nz[j].src_addr && nz[i].dst_addr > nz[j].dst_addr {
                fail!("order-not-preserved", "patches {:?} and {:?} exchange the order of their subtrees", nz[i], nz[j]);
            }
        }
    }
    // application on tagged storage
    let old_storage: Vec<u64> = (0..old_total).map(|i| 0xA000_0000 + i).collect();
    let res = apply_state_storage_patch_plan(&old_storage, &plan);
    if res.len() as u64 != new_total {
        fail!("applied-size", "applied storage has {} words, new layout has {new_total}", res.len());
    }
    let mut expect = vec![0u64; new_total as usize];
    for p in &nz {
        for k in 0..p.size {
            expect[p.dst_addr + k] = old_storage[p.src_addr + k];
        }
    }
    if res != expect {
        fail!("apply-mismatch", "applied storage differs from the plan's meaning: got {res:x?} expected {expect:x?}");
    }
    // plan is independent of hash iteration order: recompute and re-apply
    if let Some(plan2) = build_state_storage_patch_plan(old.clone(), new.clone()) {
        let res2 = apply_state_storage_patch_plan(&old_storage, &plan2);
        if res2 != res {
            fail!("nondeterministic-plan", "two computations of the plan give different storages");
        }
    }
    o.carried = res.iter().filter(|w| **w != 0).count() as u64;
    o.wstar = wstar(old, new);
    // "every word of every surviving subtree is carried over" is demanded where the set of
    // survivors does not depend on which removal/addition script one reads into the pair:
    //  - pure removal (the whole new layout embeds in the old one): all words of `new` are survivors
    //  - pure addition (the whole old layout embeds in the new one): all words of `old` are survivors
    //  - layouts with pairwise distinct leaf shapes edited with fresh shapes (`unambiguous`)
    // For pairs like F[D1,M1] -> F[M1,D1] two scripts name different survivors and no plan can
    // serve both, so nothing beyond the structural rules is demanded there.
    let pure = o.wstar == new_total || o.wstar == old_total;
    o.demanded = pure || unambiguous;
    if o.demanded && o.carried < o.wstar {
        let kind = if o.wstar == new_total { "pure-removal" } else if o.wstar == old_total { "pure-addition" } else { "distinct-shapes" };
        fail!(
            "survivor-lost",
            "{kind}: only {} words carried over although {} words survive the removals/additions",
            o.carried,
            o.wstar
        );
    }
    o
}

// ---------------------------------------------------------------- enumeration

const LEAVES: [(u8, u64); 6] = [(b'M', 1), (b'E', 1), (b'E', 2), (b'D', 0), (b'D', 1), (b'D', 3)];

fn leaf(k: usize) -> T {
    let (c, n) = LEAVES[k];
    match c {
        b'M' => Sk::Mem(n),
        b'E' => Sk::Feed(n),
        _ => Sk::Delay { len: n },
    }
}

/// all trees with exactly `n` nodes (call arity 0..=3)
fn trees_exact(n: usize, memo: &mut Vec<Vec<T>>) -> Vec<T> {
    if let Some(v) = memo.get(n) {
        if !v.is_empty() || n == 0 {
            return v.clone();
        }
    }
    let mut out = vec![];
    if n == 1 {
        for k in 0..LEAVES.len() {
            out.push(leaf(k));
        }
        out.push(Sk::FnCall(vec![]));
    } else if n >= 2 {
        let rest = n - 1;
        // arity 1
        for c in trees_exact(rest, memo) {
            out.push(Sk::FnCall(vec![Box::new(c)]));
        }
        // arity 2
        for a in 1..rest {
            let b = rest - a;
            let ta = trees_exact(a, memo);
            let tb = trees_exact(b, memo);
            for x in &ta {
                for y in &tb {
                    out.push(Sk::FnCall(vec![Box::new(x.clone()), Box::new(y.clone())]));
                }
            }
        }
        // arity 3
        for a in 1..rest {
            for b in 1..(rest - a) {
                let c = rest - a - b;
                if c < 1 {
                    continue;
                }
                let ta = trees_exact(a, memo);
                let tb = trees_exact(b, memo);
                let tc = trees_exact(c, memo);
                for x in &ta {
                    for y in &tb {
                        for z in &tc {
                            out.push(Sk::FnCall(vec![Box::new(x.clone()), Box::new(y.clone()), Box::new(z.clone())]));
                        }
                    }
                }
            }
        }
    }
    while memo.len() <= n {
        memo.push(vec![]);
    }
    memo[n] = out.clone();
    out
}

fn trees_upto(n: usize) -> Vec<T> {
    let mut memo = vec![vec![]];
    let mut all = vec![];
    for k in 1..=n {
        all.extend(trees_exact(k, &mut memo));
    }
    all
}

static T4: OnceLock<Vec<T>> = OnceLock::new();
static T5: OnceLock<Vec<T>> = OnceLock::new();

fn small(n: usize) -> &'static Vec<T> {
    if n <= 4 { T4.get_or_init(|| trees_upto(4)) } else { T5.get_or_init(|| trees_upto(5)) }
}

// ---------------------------------------------------------------- random generation

fn gen_leaf(g: &mut Gen, sizes: &[u64]) -> T {
    let n = *g.pick(sizes);
    match g.below(3) {
        0 => Sk::Mem(n),
        1 => Sk::Feed(n),
        // a delay of length 0 still owns its two index words
        // (not among the fresh shapes of the `distinct` space, which must match nothing)
        _ => Sk::Delay { len: if sizes[0] < 1000 && g.bool(1, 4) { 0 } else { n } },
    }
}

fn gen_tree(g: &mut Gen, budget: &mut i64, depth: u32, sizes: &[u64]) -> T {
    *budget -= 1;
    if *budget <= 0 || depth >= 5 || g.bool(2, 5) {
        return gen_leaf(g, sizes);
    }
    let cs = g.vec(0, 5, |g| {
        let c = gen_tree(g, budget, depth + 1, sizes);
        Box::new(c)
    });
    Sk::FnCall(cs)
}

fn gen_root(g: &mut Gen, sizes: &[u64]) -> T {
    let mut budget = g.int(2, 40);
    let cs = g.vec(1, 6, |g| Box::new(gen_tree(g, &mut budget, 1, sizes)));
    Sk::FnCall(cs)
}

/// all paths to nodes (excluding the root)
fn paths(t: &T, cur: &mut Vec<usize>, out: &mut Vec<Vec<usize>>) {
    if let Sk::FnCall(cs) = t {
        for (i, c) in cs.iter().enumerate() {
            cur.push(i);
            out.push(cur.clone());
            paths(c, cur, out);
            cur.pop();
        }
    }
}
fn call_paths(t: &T, cur: &mut Vec<usize>, out: &mut Vec<Vec<usize>>) {
    if let Sk::FnCall(cs) = t {
        out.push(cur.clone());
        for (i, c) in cs.iter().enumerate() {
            cur.push(i);
            call_paths(c, cur, out);
            cur.pop();
        }
    }
}
fn node_mut<'a>(t: &'a mut T, p: &[usize]) -> &'a mut T {
    let mut cur = t;
    for &i in p {
        match cur {
            Sk::FnCall(cs) => cur = &mut cs[i],
            _ => unreachable!(),
        }
    }
    cur
}

/// apply a random edit script; returns labels of the edits used
fn edit(g: &mut Gen, t: &mut T, sizes: &[u64], allow_reshape: bool) -> Vec<&'static str> {
    let mut labels = vec![];
    let n = g.int(1, 4);
    for _ in 0..n {
        let kinds: &[&'static str] = if allow_reshape { &["delete", "insert", "resize", "duplicate", "wrap", "unwrap"] } else { &["delete", "insert"] };
        let k = *g.pick(kinds);
        match k {
            "delete" => {
                let mut ps = vec![];
                paths(t, &mut vec![], &mut ps);
                if ps.is_empty() {
                    continue;
                }
                let p = g.pick(&ps).clone();
                let (parent, last) = p.split_at(p.len() - 1);
                if let Sk::FnCall(cs) = node_mut(t, parent) {
                    cs.remove(last[0]);
                }
            }
            "insert" => {
                let mut ps = vec![];
                call_paths(t, &mut vec![], &mut ps);
                if ps.is_empty() {
                    continue;
                }
                let p = g.pick(&ps).clone();
                let mut b = g.int(1, 6);
                let sub = gen_tree(g, &mut b, 3, sizes);
                if let Sk::FnCall(cs) = node_mut(t, &p) {
                    let at = g.usize_below(cs.len() + 1);
                    cs.insert(at, Box::new(sub));
                }
            }
            "resize" => {
                let mut ps = vec![];
                paths(t, &mut vec![], &mut ps);
                let ps: Vec<_> = ps.into_iter().filter(|p| !matches!(node_mut(t, p), Sk::FnCall(_))).collect();
                if ps.is_empty() {
                    continue;
                }
                let p = g.pick(&ps).clone();
                let nl = gen_leaf(g, sizes);
                *node_mut(t, &p) = nl;
            }
            "duplicate" => {
                let mut ps = vec![];
                paths(t, &mut vec![], &mut ps);
                if ps.is_empty() {
                    continue;
                }
                let p = g.pick(&ps).clone();
                let (parent, last) = p.split_at(p.len() - 1);
                if let Sk::FnCall(cs) = node_mut(t, parent) {
                    let c = cs[last[0]].clone();
                    cs.insert(last[0], c);
                }
            }
            "wrap" => {
                let mut ps = vec![];
                paths(t, &mut vec![], &mut ps);
                if ps.is_empty() {
                    continue;
                }
                let p = g.pick(&ps).clone();
                let n = node_mut(t, &p);
                let inner = n.clone();
                *n = Sk::FnCall(vec![Box::new(inner)]);
            }
            _ => {
                // unwrap: replace a call node (non-root) by its children in the parent
                let mut ps = vec![];
                paths(t, &mut vec![], &mut ps);
                let ps: Vec<_> = ps.into_iter().filter(|p| matches!(node_mut(t, p), Sk::FnCall(_))).collect();
                if ps.is_empty() {
                    continue;
                }
                let p = g.pick(&ps).clone();
                let (parent, last) = p.split_at(p.len() - 1);
                if let Sk::FnCall(cs) = node_mut(t, parent) {
                    if let Sk::FnCall(inner) = *cs.remove(last[0]) {
                        for (k, c) in inner.into_iter().enumerate() {
                            cs.insert(last[0] + k, c);
                        }
                    }
                }
            }
        }
        labels.push(k);
    }
    labels
}

/// Tree whose leaves all have pairwise distinct shapes (sizes 1,2,3,… assigned in order).
fn gen_distinct(g: &mut Gen, next: &mut u64, budget: &mut i64, depth: u32) -> T {
    *budget -= 1;
    if *budget <= 0 || depth >= 4 || g.bool(2, 5) {
        let n = *next;
        *next += 1;
        return match g.below(3) {
            0 => Sk::Mem(n),
            1 => Sk::Feed(n),
            // n is unique per leaf, so n - 1 keeps delays pairwise distinct and reaches length 0
            _ => Sk::Delay { len: n - 1 },
        };
    }
    let cs = g.vec(0, 4, |g| Box::new(gen_distinct(g, next, budget, depth + 1)));
    Sk::FnCall(cs)
}

/// leaves with addresses, in order
fn leaves(t: &T, base: u64, out: &mut Vec<(u64, T)>) {
    match t {
        Sk::FnCall(cs) => {
            let mut off = base;
            for c in cs {
                leaves(c, off, out);
                off += size(c);
            }
        }
        l => out.push((base, l.clone())),
    }
}

fn finish(old: &T, new: &T, extra: Vec<String>, cx: &Cx, mode: &str) -> CaseResult {
    let text = format!("{} => {}", show(old), show(new));
    let hash = hash64(text.as_bytes());
    let o = check_pair(old, new, mode == "distinct");
    let mut r = match &o.fail {
        Some((sig, msg)) => CaseResult::fail(hash, sig.clone(), msg.clone()),
        None => CaseResult::held(hash),
    };
    // exact survivors for all-distinct leaf shapes: every leaf of `new` whose shape occurs in `old`
    // must hold exactly the tags of that old leaf
    if mode == "distinct" && o.fail.is_none() && !same_shape(old, new) {
        let mut ol = vec![];
        leaves(old, 0, &mut ol);
        let mut nl = vec![];
        leaves(new, 0, &mut nl);
        let total = size(old);
        let storage: Vec<u64> = (0..total).map(|i| 0xB000_0000 + i).collect();
        if let Some(plan) = build_state_storage_patch_plan(old.clone(), new.clone()) {
            let res = apply_state_storage_patch_plan(&storage, &plan);
            for (addr, l) in &nl {
                if let Some((oa, _)) = ol.iter().find(|(_, x)| same_shape(x, l)) {
                    // the leaf survives iff its chain of ancestors is an embedding; W* already
                    // bounds the count, here we check that what was carried sits at the right place
                    let got = &res[*addr as usize..(*addr + size(l)) as usize];
                    let want: Vec<u64> = (0..size(l)).map(|k| storage[(*oa + k) as usize]).collect();
                    if got.iter().any(|w| *w != 0) && got != want.as_slice() {
                        r = CaseResult::fail(hash, "c08:wrong-survivor-position", format!("leaf {} at {} holds {:x?}, expected {:x?}", show(l), addr, got, want));
                    }
                }
            }
        }
    }
    r.nontrivial = !same_shape(old, new) && has_wide_call(old) && has_wide_call(new);
    r.classes.push(format!("mode:{mode}"));
    if o.npatches > 0 {
        r.classes.push("has-patches".into());
    }
    if o.wstar > 0 && o.wstar < size(old).min(size(new)) {
        r.classes.push("partial-survival".into());
    }
    if same_shape(old, new) {
        r.classes.push("identical".into());
    }
    if o.demanded && o.wstar > 0 && !same_shape(old, new) {
        r.classes.push("survivors-demanded".into());
    }
    for e in extra {
        r.classes.push(e);
    }
    if cx.render || r.is_fail() {
        r.render = Some(json!({"old": show(old), "new": show(new), "old_words": size(old), "new_words": size(new), "nodes": [node_count(old), node_count(new)], "patches": o.npatches, "carried": o.carried, "wstar": o.wstar}));
    }
    r.direct = Some(json!({"old": show(old), "new": show(new), "mode": mode}));
    r
}

fn shrink_tree(t: &T) -> Vec<T> {
    let mut out = vec![];
    let mut ps = vec![];
    paths(t, &mut vec![], &mut ps);
    // delete a subtree
    for p in &ps {
        let mut c = t.clone();
        let (parent, last) = p.split_at(p.len() - 1);
        if let Sk::FnCall(cs) = node_mut(&mut c, parent) {
            cs.remove(last[0]);
        }
        out.push(c);
    }
    // replace a call by one of its children / reduce leaf sizes
    for p in ps.iter().chain(std::iter::once(&vec![])) {
        let mut c = t.clone();
        let n = node_mut(&mut c, p);
        match n.clone() {
            Sk::FnCall(cs) => {
                for ch in cs {
                    let mut c2 = t.clone();
                    *node_mut(&mut c2, p) = *ch;
                    out.push(c2);
                }
            }
            Sk::Mem(k) if k > 1 => {
                *n = Sk::Mem(k - 1);
                out.push(c);
            }
            Sk::Feed(k) if k > 1 => {
                *n = Sk::Feed(k - 1);
                out.push(c);
            }
            Sk::Delay { len } if len > 0 => {
                *n = Sk::Delay { len: len - 1 };
                out.push(c);
            }
            _ => {}
        }
    }
    out
}

impl Prop for C08 {
    fn id(&self) -> &'static str {
        "C08"
    }
    fn spaces(&self, tier: Tier) -> Vec<Space> {
        let n4 = small(4).len() as u64;
        let mut v = vec![Space { name: "pairs4", size: n4 * n4, exhaustive: true, chunk: 8192, case_timeout_s: 5.0, what: "all ordered pairs of layouts with <= 4 nodes (leaves M1,E1,E2,D0,D1,D3; calls of arity 0-3)" }];
        match tier {
            Tier::Quick => {
                v.push(Space { name: "edit", size: 400_000, exhaustive: false, chunk: 2000, case_timeout_s: 5.0, what: "random layouts (<= 40 nodes, leaf sizes <= 64) paired with an edit-script derivative" });
                v.push(Space { name: "indep", size: 100_000, exhaustive: false, chunk: 2000, case_timeout_s: 5.0, what: "independent random layout pairs over a small leaf alphabet" });
                v.push(Space { name: "distinct", size: 300_000, exhaustive: false, chunk: 2000, case_timeout_s: 5.0, what: "layouts with pairwise distinct leaf shapes, new = old after removals/additions of subtrees (survivors unambiguous)" });
            }
            Tier::Thorough => {
                let n5 = small(5).len() as u64;
                v.push(Space { name: "pairs5", size: n5 * n5, exhaustive: true, chunk: 65536, case_timeout_s: 5.0, what: "all ordered pairs of layouts with <= 5 nodes" });
                v.push(Space { name: "edit", size: 7_500_000, exhaustive: false, chunk: 20000, case_timeout_s: 5.0, what: "random layouts (<= 40 nodes, leaf sizes <= 64) paired with an edit-script derivative" });
                v.push(Space { name: "indep", size: 2_500_000, exhaustive: false, chunk: 20000, case_timeout_s: 5.0, what: "independent random layout pairs over a small leaf alphabet" });
                v.push(Space { name: "distinct", size: 5_000_000, exhaustive: false, chunk: 20000, case_timeout_s: 5.0, what: "layouts with pairwise distinct leaf shapes, new = old after removals/additions of subtrees" });
            }
        }
        v
    }
    fn run(&self, space: &str, index: u64, g: &mut Gen, cx: &Cx) -> CaseResult {
        match space {
            "pairs4" | "pairs5" => {
                let ts = small(if space == "pairs4" { 4 } else { 5 });
                let n = ts.len() as u64;
                let (i, j) = (index / n, index % n);
                finish(&ts[i as usize], &ts[j as usize], vec![], cx, "exhaustive")
            }
            "edit" => {
                let sizes: Vec<u64> = if g.coin() { vec![1, 2, 3] } else { vec![1, 2, 3, 4, 7, 16, 64] };
                let old = gen_root(g, &sizes);
                let mut new = old.clone();
                let reshape = g.bool(1, 2);
                let labels = edit(g, &mut new, &sizes, reshape);
                let (old, new) = if g.bool(1, 4) { (new, old) } else { (old, new) };
                finish(&old, &new, labels.iter().map(|l| format!("edit:{l}")).collect(), cx, "edit")
            }
            "indep" => {
                let sizes = vec![1, 2];
                let old = gen_root(g, &sizes);
                let new = gen_root(g, &sizes);
                finish(&old, &new, vec![], cx, "indep")
            }
            _ => {
                let mut next = 1u64;
                let mut budget = g.int(2, 24);
                let cs = g.vec(1, 5, |g| Box::new(gen_distinct(g, &mut next, &mut budget, 1)));
                let old = Sk::FnCall(cs);
                let mut new = old.clone();
                // removals/additions only; inserted leaves get fresh sizes (>= 1000) so they match nothing
                let fresh: Vec<u64> = vec![1000, 1001, 1002, 1003];
                let labels = edit(g, &mut new, &fresh, false);
                finish(&old, &new, labels.iter().map(|l| format!("edit:{l}")).collect(), cx, "distinct")
            }
        }
    }
    fn run_direct(&self, input: &Value, cx: &Cx) -> Option<CaseResult> {
        let old = parse(input.get("old")?.as_str()?)?;
        let new = parse(input.get("new")?.as_str()?)?;
        let mode = input.get("mode").and_then(|m| m.as_str()).unwrap_or("direct").to_string();
        Some(finish(&old, &new, vec![], cx, if mode == "distinct" { "distinct" } else { "direct" }))
    }
    fn shrink_direct(&self, input: &Value) -> Vec<Value> {
        let (Some(old), Some(new)) = (input.get("old").and_then(|v| v.as_str()).and_then(parse), input.get("new").and_then(|v| v.as_str()).and_then(parse)) else {
            return vec![];
        };
        let mode = input.get("mode").cloned().unwrap_or(Value::Null);
        let mut out = vec![];
        for o in shrink_tree(&old) {
            out.push(json!({"old": show(&o), "new": show(&new), "mode": mode}));
        }
        for n in shrink_tree(&new) {
            out.push(json!({"old": show(&old), "new": show(&n), "mode": mode}));
        }
        out
    }
    fn rule(&self) -> String {
        "Cases are ordered pairs (old layout, new layout). Exhaustive: every ordered pair of layouts with at most 4 (quick) / 5 (thorough) nodes over leaves {Mem1,Feed1,Feed2,Delay0,Delay1,Delay3} and calls of arity 0-3. Random: a layout of <=40 nodes paired with the result of 1-4 edits (delete/insert subtree, resize leaf, duplicate sibling, wrap, unwrap), independent pairs over a 2-size alphabet, and layouts with pairwise distinct leaf shapes edited by removals/additions only. Oracle: None iff identical; total_size; every patch in bounds and connecting subtrees of identical shape; destination ranges disjoint; order preserved; tagged application leaves all other words zero; survivors: where the surviving set is script-independent (pure removal, pure addition, or pairwise distinct leaf shapes) words carried >= W* (max words surviving under a removal/addition script, independent DP) and, for distinct shapes, each carried leaf sits at its own new address. Non-trivial = layouts differ and both contain a call with >=2 children; distinct by the rendered pair.".into()
    }
    fn assumptions(&self) -> Vec<String> {
        vec![
            "W* (reference optimum of ordered tree embedding) is computed by the harness's own DP (leaves match only leaves of identical kind and size, calls only calls, children in order)".into(),
            "the survivor clause is only demanded on pairs whose surviving set is the same under every removal/addition script (pure removal, pure addition, distinct leaf shapes); ambiguous pairs such as F[D1,M1] -> F[M1,D1] get the structural rules only".into(),
            "flat order preservation of patches is taken as the meaning of 'preserves the order of siblings'".into(),
        ]
    }
    fn required_classes(&self, _tier: Tier) -> Vec<&'static str> {
        vec!["has-patches", "partial-survival", "survivors-demanded", "mode:exhaustive", "mode:edit", "mode:distinct"]
    }
}

pub fn prop() -> Option<&'static dyn Prop> {
    Some(&C08)
}
