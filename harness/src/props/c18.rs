//! C18 — generated Rust code behaves like the VM.
//!
//! `Context::emit_rust` either refuses a program (`Err`) or produces Rust source that compiles with
//! plain rustc (together with the repository's own test host template) and, run sample by sample,
//! yields bit-for-bit the output words the bytecode VM yields (`exec::run_vm`, NaN = NaN).

use crate::engine::case::*;
use crate::engine::panics;
use crate::engine::rng::hash64;
use crate::engine::shrink::text_candidates;
use crate::engine::tape::Gen;
use crate::gens::prog::{self, Layout, Prog, E, PG};
use crate::props::c01::{self, gen_inputs, line_candidates};
use crate::runners::exec::{self, canon, Exec, Inputs, RunOpts};
use mimium_lang::{Config, ExecContext};
use serde_json::{json, Value};
use std::path::{Path, PathBuf};
use std::process::{Command, Stdio};
use std::sync::atomic::{AtomicU64, Ordering};
use std::time::{Duration, Instant};

pub struct C18;

pub fn prop() -> Option<&'static dyn Prop> {
    Some(&C18)
}

/// the host `main` scaffold the repository's own Rust-codegen tests use
const MAIN_TEMPLATE: &str = include_str!("/repo/crates/lib/mimium-lang/src/compiler/mimium_test_main.rs.template");

/// Host of crates/lib/mimium-test/tests/rust_codegen_test.rs, with `now` counted in samples (the
/// VM driven by `exec::run_vm` reports the sample index) instead of seconds.
const HOST_DECLS: &str = r#"
struct TestHost {
    now: f64,
    sample_rate: f64,
}

impl TestHost {
    fn advance_time(&mut self) {
        self.now += 1.0;
    }
}

impl MimiumHost for TestHost {
    fn call_ext(
        &mut self,
        name: &str,
        _args: &[Word],
        _ret_words: usize,
    ) -> Result<Vec<Word>, String> {
        Err(format!("unexpected external call: {}", name))
    }

    fn current_time(&mut self) -> f64 {
        self.now
    }

    fn sample_rate(&mut self) -> f64 {
        self.sample_rate
    }
}
"#;

const RUN_TIMEOUT: Duration = Duration::from_secs(30);
static CASE_NO: AtomicU64 = AtomicU64::new(0);

// ------------------------------------------------------------------ known findings (switches)

/// builtin math functions that are lowered to external calls (floor, tan, atan2, ...): the emitted
/// Rust forwards them to the host, the repository's host answers `Err`, the program panics
pub const KF_MATH_EXT: &str = "C18-math-builtins-unavailable";
/// builtins the generator uses that MIR lowers to `ExtFunction` calls the embedded runtime does
/// not implement (it implements min, max, probe, probeln, len, split_*, prepend, append)
const EXT_MATH_1: &[&str] = &["floor", "ceil", "round", "tanh", "atan", "tan", "sinh", "cosh"];
const EXT_MATH_2: &[&str] = &["atan2"];
/// `mem(t.0)` / `delay(N, t.0, ..)`: the operand is loaded from the aggregate memory inside the
/// argument list of a call on the mutably borrowed state storage: rustc error E0502
pub const KF_STATE_OPERAND_PROJ: &str = "C18-state-operand-projection-borrow";
/// `delay(N, x, t.0)`: the delay time is taken from the pointer word of the projection instead of
/// the projected value
pub const KF_DELAY_TIME_PROJ: &str = "C18-delay-time-projection";
/// `if c { t.0 } else { .. }`: the phi copies the element pointer, the result is the handle
pub const KF_IF_ARM_PROJ: &str = "C18-if-arm-projection";
/// a closure that captures a variable bound by a tuple/record pattern copies its value when it is
/// created; a later assignment to the variable is not seen by the closure (the VM shares it)
pub const KF_CAPTURE_BY_VALUE: &str = "C18-destructured-capture-by-value";
/// a one-element tuple where a number is expected (the parser reads `(e)` as a 1-tuple when a
/// comma follows within its lookahead; the type checker unifies 1-tuples with numbers): the Rust
/// backend mixes the pointer representation with the scalar one
pub const KF_ONE_TUPLE: &str = "C18-one-tuple-as-float";

/// `f({a = 1.0, ..})` with the remaining parameters defaulted: the Rust generator nests the
/// synthesized `self.__default_*()` calls in the argument list of `self.f(..)`: rustc error E0499
pub const KF_DEFAULT_ARGS: &str = "C18-default-arg-expansion-borrow";

/// a NaN used as an `if` condition selects the then-arm on the VM and the else-arm in the emitted
/// Rust (`truthy` is `> 0.0`); same shape as C01-nan-condition (VM vs WASM)
pub const KF_NAN_COND: &str = "C18-nan-condition";
/// a local recursive closure (`letrec` inside a function body): the generated program fails its first
/// call with "expected 1 words, got 0" (the VM runs it)
pub const KF_LOCAL_LETREC: &str = "C18-local-letrec-crashes";

const SIG_DIFF: &str = "c18:output-differs-from-vm";

/// Narrow tolerances: (finding id, does this failure belong to it?).  Each needs the failure
/// signature of the finding AND the finding's code shape in the emitted Rust / the source.
fn tolerated(sig: &str, msg: &str, src: &str, pat: &Patterns, cx: &Cx) -> Option<&'static str> {
    if cx.strict {
        return None;
    }
    let table: [(&'static str, bool); 8] = [
        (KF_LOCAL_LETREC, sig.starts_with("c18:generated-program-crashed:unwrap-err:expected-#-words-got-#") && src.contains("letrec ")),
        (KF_DEFAULT_ARGS, sig.starts_with("c18:emitted-rust-does-not-compile:E0499:") && pat.nested_default_call && src.contains("..")),
        (KF_STATE_OPERAND_PROJ, sig.starts_with("c18:emitted-rust-does-not-compile:E0502:") && pat.state_operand_load),
        (KF_MATH_EXT, sig.starts_with("c18:generated-program-crashed:unwrap-err:unexpected-external-call") && EXT_MATH_1.iter().chain(EXT_MATH_2.iter()).any(|f| src.contains(&format!("{f}(")))),
        (KF_ONE_TUPLE, (sig.starts_with("c18:generated-program-crashed:unwrap-err:invalid-memory-handle") || (sig == SIG_DIFF && pat.alloc_handle_as_number) || (sig.starts_with("c18:emitted-rust-does-not-compile:E0308:") && msg.contains("(u64,)"))) && pat.one_tuple),
        (KF_DELAY_TIME_PROJ, sig == SIG_DIFF && pat.delay_time_element_ptr),
        (KF_IF_ARM_PROJ, sig == SIG_DIFF && pat.phi_of_element_ptr),
        (KF_CAPTURE_BY_VALUE, sig == SIG_DIFF && pat.element_captured_by_value_and_assigned),
    ];
    table.iter().find(|(id, hit)| *hit && cx.excluded(id)).map(|(id, _)| *id)
}

fn render_host(n_in: usize, n: u64, inputs: &Inputs, call_main: bool) -> String {
    let mut rows = String::new();
    for t in 0..n {
        rows.push_str("    [");
        for ch in 0..n_in {
            rows.push_str(&format!("{:#x}u64, ", inputs.at(t, ch).to_bits()));
        }
        rows.push_str("],\n");
    }
    let decls = format!("{HOST_DECLS}\nconst INPUTS: [[Word; {n_in}]; {n}] = [\n{rows}];\n");
    let run_body = "    for row in INPUTS.iter() {\n        let output = program.call_dsp(&row[..]).unwrap();\n        let words: Vec<String> = output.iter().map(|w| format!(\"{:x}\", w)).collect();\n        println!(\"={}\", words.join(\" \"));\n        program.host.advance_time();\n    }\n";
    MAIN_TEMPLATE
        .replace("/*__DECLS__*/", &decls)
        .replace("/*__PROGRAM_INIT__*/", "let host = TestHost { now: 0.0, sample_rate: 48_000.0 };\n    let mut program = MimiumProgram::with_host(host);")
        .replace("/*__CALL_MAIN__*/", if call_main { "    program.call_main().unwrap();\n" } else { "" })
        .replace("/*__RUN_BODY__*/", run_body)
}

enum Child {
    Done { ok: bool, code: Option<i32>, stdout: String, stderr: String },
    Slow,
    Spawn(String),
}

/// run a command with stdout/stderr redirected to files; kill it after `RUN_TIMEOUT`
fn run_limited(mut cmd: Command, dir: &Path, tag: &str) -> Child {
    let so = dir.join(format!("{tag}.out"));
    let se = dir.join(format!("{tag}.err"));
    let (Ok(fo), Ok(fe)) = (std::fs::File::create(&so), std::fs::File::create(&se)) else { return Child::Spawn("cannot create output files".into()) };
    cmd.stdin(Stdio::null()).stdout(fo).stderr(fe);
    let mut ch = match cmd.spawn() {
        Ok(c) => c,
        Err(e) => return Child::Spawn(e.to_string()),
    };
    let t0 = Instant::now();
    let mut nap = 1u64;
    let status = loop {
        match ch.try_wait() {
            Ok(Some(s)) => break s,
            Ok(None) => {
                if t0.elapsed() > RUN_TIMEOUT {
                    let _ = ch.kill();
                    let _ = ch.wait();
                    return Child::Slow;
                }
                std::thread::sleep(Duration::from_millis(nap));
                nap = (nap * 2).min(20);
            }
            Err(e) => return Child::Spawn(e.to_string()),
        }
    };
    let rd = |p: &Path| String::from_utf8_lossy(&std::fs::read(p).unwrap_or_default()).to_string();
    Child::Done { ok: status.success(), code: status.code(), stdout: rd(&so), stderr: rd(&se) }
}

struct Scratch(PathBuf);
impl Scratch {
    fn new() -> Option<Scratch> {
        let k = CASE_NO.fetch_add(1, Ordering::Relaxed);
        let p = PathBuf::from(format!("/verif/target/rustgen/{}-{k}", std::process::id()));
        std::fs::create_dir_all(&p).ok()?;
        Some(Scratch(p))
    }
}
impl Drop for Scratch {
    fn drop(&mut self) {
        // debugging aid: keep the emitted source and the binary
        if std::env::var_os("C18_KEEP").is_some() {
            eprintln!("c18: kept {}", self.0.display());
            return;
        }
        let _ = std::fs::remove_dir_all(&self.0);
    }
}

#[derive(Default)]
struct Out {
    fail: Option<(String, String)>,
    discard: Option<String>,
    /// emit_rust answered Err
    refused: Option<String>,
    /// the front end (VM compile) rejects the program as well
    refused_by_frontend: bool,
    compiled: bool,
    ran: bool,
    n_out: u32,
    varying: bool,
    counters: Vec<String>,
    /// defect patterns found in the emitted Rust (for the narrow tolerances of known findings)
    pat: Patterns,
}

/// Syntactic patterns of the emitted Rust that identify the code shapes of recorded findings.
/// Registers are numbered per generated function, so every function is analysed on its own.
#[derive(Default, Clone, Debug)]
struct Patterns {
    /// a one-element tuple is built and projected (`alloc(1)` + `get_element(.., 0)`)
    one_tuple: bool,
    /// a phi copies a register that holds the *pointer* of a tuple/record element
    phi_of_element_ptr: bool,
    /// the time operand of a delay is the pointer of a tuple/record element
    delay_time_element_ptr: bool,
    /// `state.mem(self.memory.load(..))` / `state.delay(self.memory.load(..), ..)`
    state_operand_load: bool,
    /// a closure captures the value behind an element pointer and the element is stored to in
    /// the same function
    element_captured_by_value_and_assigned: bool,
    /// the handle of an aggregate allocation is read as a number (`word_to_f64(reg)` / `truthy(reg)`
    /// of a register assigned by `memory.alloc`)
    alloc_handle_as_number: bool,
    /// a synthesized `self.__default_*()` call is nested in the argument list of a `self.f(..)` call
    nested_default_call: bool,
}

fn reg_no(s: &str) -> Option<u32> {
    let r = s.strip_prefix("reg_")?;
    let d: String = r.chars().take_while(|c| c.is_ascii_digit()).collect();
    if d.is_empty() { None } else { d.parse().ok() }
}

fn analyse_fn(lines: &[&str], p: &mut Patterns) {
    use std::collections::BTreeSet;
    let mut elem: BTreeSet<u32> = BTreeSet::new();
    let mut alloc1: BTreeSet<u32> = BTreeSet::new();
    let mut alloc: BTreeSet<u32> = BTreeSet::new();
    for l in lines {
        let t = l.trim();
        if let Some(n) = reg_no(t) {
            if t.contains("[0] = self.memory.alloc(") {
                alloc.insert(n);
            }
            if t.contains("[0] = self.memory.get_element(") {
                elem.insert(n);
            }
            if t.ends_with("[0] = self.memory.alloc(1usize);") {
                alloc1.insert(n);
            }
        }
    }
    let mut captured: BTreeSet<u32> = BTreeSet::new();
    let mut stored: BTreeSet<u32> = BTreeSet::new();
    for l in lines {
        let t = l.trim();
        if let Some(i) = t.find("self.memory.get_element(reg_") {
            let rest = &t[i + "self.memory.get_element(".len()..];
            if let Some(n) = reg_no(rest) {
                if alloc1.contains(&n) && rest.contains("[0], 0usize)") {
                    p.one_tuple = true;
                }
            }
        }
        // phi: `reg_D = reg_S;`
        if let Some((d, s)) = t.split_once(" = ") {
            if reg_no(d).is_some() && !d.contains('[') && s.ends_with(';') && !s.contains('[') && !s.contains('(') {
                if let Some(n) = reg_no(s) {
                    if elem.contains(&n) {
                        p.phi_of_element_ptr = true;
                    }
                }
            }
        }
        for key in ["word_to_f64(reg_", "truthy(reg_"] {
            let mut from = 0;
            while let Some(i) = t[from..].find(key) {
                let at = from + i + key.len() - 4;
                if let Some(n) = reg_no(&t[at..]) {
                    if alloc.contains(&n) && t[at..].starts_with(&format!("reg_{n}[0])")) {
                        p.alloc_handle_as_number = true;
                    }
                }
                from = at + 4;
            }
        }
        if t.starts_with("let call_result = self.") && (t.contains(", self.__default_") || t.contains("(self.__default_")) {
            p.nested_default_call = true;
        }
        if t.contains("state.mem(self.memory.load(") || t.contains("state.delay(self.memory.load(") {
            p.state_operand_load = true;
        }
        if let Some(i) = t.find("state.delay(") {
            // `state.delay(SRC, TIME, Nusize);`
            let args = t[i + "state.delay(".len()..].trim_end_matches(';').trim_end_matches(')');
            let parts: Vec<&str> = args.rsplitn(3, ", ").collect();
            if parts.len() == 3 {
                if let Some(n) = reg_no(parts[1]) {
                    if parts[1].ends_with("[0]") && elem.contains(&n) {
                        p.delay_time_element_ptr = true;
                    }
                }
            }
        }
        if let Some(r) = t.strip_prefix("closure_upvalues.push(self.memory.load(") {
            if let Some(n) = reg_no(r) {
                if elem.contains(&n) {
                    captured.insert(n);
                }
            }
        }
        if let Some(r) = t.strip_prefix("self.memory.store(") {
            if let Some(n) = reg_no(r) {
                stored.insert(n);
            }
        }
    }
    if captured.iter().any(|n| stored.contains(n)) {
        p.element_captured_by_value_and_assigned = true;
    }
}

fn analyse(source: &str) -> Patterns {
    let mut p = Patterns::default();
    let lines: Vec<&str> = source.lines().collect();
    let mut start = None;
    for (i, l) in lines.iter().enumerate() {
        if l.starts_with("    fn ") || l.starts_with("    pub fn ") {
            if let Some(s) = start {
                analyse_fn(&lines[s..i], &mut p);
            }
            start = Some(i);
        }
    }
    if let Some(s) = start {
        analyse_fn(&lines[s..], &mut p);
    }
    p
}

fn first_error_line(stderr: &str) -> String {
    let l = stderr.lines().find(|l| l.starts_with("error")).or_else(|| stderr.lines().find(|l| !l.trim().is_empty())).unwrap_or("");
    l.trim().to_string()
}

/// message of the panic that ended the generated program (`thread 'main' panicked at ...:\n<msg>`)
fn panic_message(stderr: &str) -> String {
    let mut it = stderr.lines();
    while let Some(l) = it.next() {
        if l.contains("panicked at") {
            if let Some(m) = it.next() {
                return m.trim().to_string();
            }
        }
    }
    stderr.lines().find(|l| !l.trim().is_empty()).unwrap_or("").trim().to_string()
}

/// stable part of a message for signatures: rustc error code (when there is one) and the message
/// with quoted parts, identifiers with digits and numbers removed
fn qualifier(msg: &str) -> String {
    let mut code = String::new();
    let mut rest = msg.trim();
    // `called `Result::unwrap()` on an `Err` value: "text"`: the text is the interesting part
    let unq;
    if let Some(i) = rest.find("on an `Err` value: ") {
        unq = rest[i + "on an `Err` value: ".len()..].replace(['"', '\\'], "");
        rest = &unq;
        code = "unwrap-err".to_string();
        // the name of the missing external function is not part of the root cause
        if rest.starts_with("unexpected external call") {
            return "unwrap-err:unexpected-external-call".to_string();
        }
    }
    if let Some(r) = rest.strip_prefix("error[") {
        if let Some(i) = r.find(']') {
            code = r[..i].to_string();
            rest = r[i + 1..].trim_start_matches(':').trim();
        }
    } else if let Some(r) = rest.strip_prefix("error:") {
        rest = r.trim();
    }
    let mut out = String::new();
    let mut quoted = false;
    for ch in rest.chars() {
        if ch == '`' || ch == '\'' || ch == '"' {
            if !quoted {
                out.push('_');
            }
            quoted = !quoted;
            continue;
        }
        if quoted {
            continue;
        }
        if ch.is_ascii_digit() {
            if !out.ends_with('#') {
                out.push('#');
            }
        } else if ch.is_ascii_alphabetic() || ch == '_' {
            out.push(ch.to_ascii_lowercase());
        } else if !out.ends_with('-') {
            out.push('-');
        }
    }
    let out: String = out.trim_matches('-').chars().take(48).collect();
    if code.is_empty() { out } else { format!("{code}:{out}") }
}

/// The oracle on one source text.
fn check(src: &str, inputs: &Inputs, n: u64) -> Out {
    let mut o = Out::default();
    macro_rules! fail {
        ($sig:expr, $($arg:tt)*) => {{ o.fail = Some((format!("c18:{}", $sig), format!($($arg)*))); return o; }};
    }
    // exactly the calls of the repository's own Rust-codegen fixture test
    let mut ctx = ExecContext::new([].into_iter(), None, Config::default());
    ctx.prepare_compiler();
    let emitted = panics::catch(|| {
        let c = ctx.get_compiler().expect("prepare_compiler() leaves a compiler");
        c.emit_rust(src).map_err(|e| crate::runners::front::diags_of(&e))
    });
    let vm = exec::run_vm(src, inputs, &RunOpts { n, sched: false, want_state: false, want_counts: false, want_trace: false });
    let output = match emitted {
        Err(p) => {
            // a crash of the compiler front end is C03/C04's subject; one inside the Rust
            // generator is not a refusal "with an error"
            if p.file.contains("rustgen") {
                fail!(format!("emit-rust-panics:{}", panics::normalise(&p.msg)), "emit_rust panicked: {}", p.describe());
            }
            o.discard = Some("frontend-panic".into());
            return o;
        }
        Ok(Err(d)) => {
            let why = d.first().map(|x| panics::normalise(&x.message)).unwrap_or_default();
            o.refused_by_frontend = matches!(vm, Exec::Rejected(_));
            o.refused = Some(why);
            return o;
        }
        Ok(Ok(out)) => out,
    };
    let a = match vm {
        Exec::Ran(a) => a,
        Exec::Rejected(_) => {
            o.discard = Some("vm-rejects".into());
            return o;
        }
        Exec::NoIo => {
            o.discard = Some("no-dsp-io-on-vm".into());
            return o;
        }
        // a VM crash leaves no reference behaviour (C03's subject)
        Exec::Panic(..) | Exec::Error(..) => {
            o.discard = Some("vm-crash".into());
            return o;
        }
    };
    let Some(io) = output.io_channels else {
        o.discard = Some("no-dsp".into());
        return o;
    };
    o.pat = analyse(&output.source);
    if (io.input, io.output) != (a.n_in, a.n_out) {
        fail!("channel-count", "emit_rust reports {}/{} I/O channels, the VM {}/{}", io.input, io.output, a.n_in, a.n_out);
    }
    o.n_out = a.n_out;
    let Some(dir) = Scratch::new() else {
        o.discard = Some("no-scratch-dir".into());
        return o;
    };
    let call_main = output.source.contains("pub fn call_main");
    let host = render_host(io.input as usize, n, inputs, call_main);
    let src_path = dir.0.join("prog.rs");
    let bin_path = dir.0.join("prog");
    if std::fs::write(&src_path, format!("{}{host}", output.source)).is_err() {
        o.discard = Some("no-scratch-dir".into());
        return o;
    }
    let rustc = std::env::var("RUSTC").unwrap_or_else(|_| "rustc".to_string());
    let mut cmd = Command::new(&rustc);
    cmd.arg("--edition=2024").arg("-C").arg("debuginfo=0").arg("-C").arg("opt-level=0").arg("-Awarnings").arg(&src_path).arg("-o").arg(&bin_path).current_dir(&dir.0);
    match run_limited(cmd, &dir.0, "rustc") {
        Child::Slow => {
            o.discard = Some("slow".into());
            return o;
        }
        Child::Spawn(e) => {
            o.discard = Some(format!("cannot-run-rustc:{}", panics::normalise(&e)));
            return o;
        }
        Child::Done { ok: false, stderr, .. } => {
            let stderr = stderr.replace(&*dir.0.to_string_lossy(), "<scratch>");
            let line = first_error_line(&stderr);
            // a rustc killed by the environment (out of memory, signal) is not a verdict
            if !stderr.contains("error") {
                o.discard = Some("rustc-died".into());
                return o;
            }
            let detail: String = stderr.lines().filter(|l| !l.trim().is_empty()).take(12).collect::<Vec<_>>().join("\n");
            fail!(format!("emitted-rust-does-not-compile:{}", qualifier(&line)), "rustc rejects the emitted Rust: {line}\n{detail}");
        }
        Child::Done { .. } => {}
    }
    o.compiled = true;
    let mut run = Command::new(&bin_path);
    run.current_dir(&dir.0).env("RUST_BACKTRACE", "0");
    let stdout = match run_limited(run, &dir.0, "run") {
        Child::Slow => {
            o.discard = Some("slow".into());
            return o;
        }
        Child::Spawn(e) => {
            o.discard = Some(format!("cannot-run-binary:{}", panics::normalise(&e)));
            return o;
        }
        Child::Done { ok: false, code, stdout, stderr } => {
            let stderr = stderr.replace(&*dir.0.to_string_lossy(), "<scratch>");
            let msg = panic_message(&stderr);
            let done = stdout.lines().filter(|l| l.starts_with('=')).count();
            fail!(format!("generated-program-crashed:{}", qualifier(&msg)), "the generated program ended with {} after {done} of {n} samples (the VM ran all of them): {msg}", code.map(|c| format!("exit code {c}")).unwrap_or_else(|| "a signal".into()));
        }
        Child::Done { stdout, .. } => stdout,
    };
    o.ran = true;
    let lines: Vec<&str> = stdout.lines().filter(|l| l.starts_with('=')).collect();
    if lines.len() != a.samples.len() {
        fail!("sample-count", "the generated program printed {} samples, the VM produced {}", lines.len(), a.samples.len());
    }
    for (t, (l, x)) in lines.iter().zip(a.samples.iter()).enumerate() {
        let y: Vec<u64> = l[1..].split_whitespace().filter_map(|w| u64::from_str_radix(w, 16).ok()).collect();
        if y.len() != x.len() {
            fail!("output-width", "sample {t}: the generated program yields {} words, the VM {}", y.len(), x.len());
        }
        for ch in 0..x.len() {
            if canon(x[ch]) != canon(y[ch]) {
                fail!("output-differs-from-vm", "sample {t} channel {ch}: vm {:?} ({:#x}) rust {:?} ({:#x})", f64::from_bits(x[ch]), x[ch], f64::from_bits(y[ch]), y[ch]);
            }
        }
        if t > 0 && a.samples[t] != a.samples[0] {
            o.varying = true;
        }
    }
    o
}

/// crude syntactic feature test for direct inputs (no generator feature record)
fn text_stateful(src: &str) -> bool {
    src.contains("self") || src.contains("mem(") || src.contains("delay(") || src.contains('|')
}

fn finish(src: &str, inputs: &Inputs, n: u64, classes: Vec<String>, featureful: bool, cx: &Cx) -> CaseResult {
    let key = format!("{src}\u{1}{}\u{1}{n}", inputs.describe());
    let hash = hash64(key.as_bytes());
    let direct = json!({"text": src, "input_kind": inputs.kind, "input_scale": inputs.scale, "n": n});
    if cx.dry {
        let mut r = CaseResult::discard("dry");
        r.render = Some(direct.clone());
        r.direct = Some(direct);
        return r;
    }
    let o = check(src, inputs, n);
    if let Some(w) = &o.discard {
        let mut r = CaseResult::discard(w.clone());
        r.direct = Some(direct);
        return r;
    }
    let known = o.fail.as_ref().and_then(|(s, m)| tolerated(s, m, src, &o.pat, cx));
    let mut r = match (&o.fail, known) {
        (Some(_), Some(id)) => {
            let mut r = CaseResult::held(hash);
            r.count(&format!("excluded_by_known_finding:{id}"), 1);
            r.classes.push("tolerated-known-finding".into());
            r
        }
        (Some((s, m)), None) => CaseResult::fail(hash, s.clone(), m.clone()),
        (None, _) => CaseResult::held(hash),
    };
    r.classes.extend(classes);
    if o.pat.one_tuple {
        r.classes.push("pat:one-tuple".into());
    }
    if let Some(why) = &o.refused {
        r.classes.push("refused".into());
        r.classes.push(if o.refused_by_frontend { "refused:by-frontend".into() } else { "refused:by-rustgen".into() });
        r.count(&format!("refused:{why}"), 1);
    }
    if o.compiled {
        r.classes.push("compiled".into());
    }
    if o.ran {
        r.classes.push("ran".into());
        if o.varying {
            r.classes.push("output-varies".into());
        }
        if o.n_out >= 2 {
            r.classes.push("multi-out".into());
        }
    }
    for c in &o.counters {
        r.count(c, 1);
    }
    r.nontrivial = (o.ran && featureful && known.is_none()) || r.is_fail();
    if cx.render || r.is_fail() {
        r.render = Some(json!({"text": src, "inputs": inputs.describe(), "n": n}));
    }
    r.direct = Some(direct);
    r
}

/// generator configuration: C01's (VM-side findings stay off), WASM-only findings back on
fn pcfg(cx: &Cx) -> (prog::PCfg, Vec<&'static str>) {
    let (mut c, off) = c01::pcfg(cx);
    // recorded findings that concern the WASM backend only do not restrict this property
    c.tuple_inputs = true;
    c.modulo = true;
    c.self_in_tuple = true;
    c.multi_maker_instances = true;
    c.tuple_if = true;
    c.tuple_globals = true;
    c.block_operands = true;
    c.proj_in_cond = true;
    c.capture_destructured = true;
    c.raw_conditions = true;
    let vm_side = [c01::KF_IF_STATE, c01::KF_UNRESOLVED_SELF];
    let mut off: Vec<&'static str> = off.into_iter().filter(|id| vm_side.contains(id)).collect();
    if cx.excluded(KF_LOCAL_LETREC) {
        c.local_letrec = false;
        off.push(KF_LOCAL_LETREC);
    }
    (c, off)
}

/// generator exclusions that are expressed as rewrites of the generated AST
fn apply_exclusions(p: &mut Prog, cx: &Cx, r: &mut Vec<String>) {
    if cx.excluded(KF_MATH_EXT) {
        let mut hit = false;
        prog::visit_prog_mut(p, &mut |e| match e {
            E::B1(f, _) if EXT_MATH_1.contains(&*f) => {
                *f = match *f {
                    "floor" | "ceil" | "round" => "abs",
                    "tan" | "tanh" | "sinh" => "sin",
                    _ => "cos",
                };
                hit = true;
            }
            E::B2(f, _, _) if EXT_MATH_2.contains(&*f) => {
                *f = "max";
                hit = true;
            }
            _ => {}
        });
        if hit {
            r.push(format!("excluded_by_known_finding:{KF_MATH_EXT}"));
        }
    }
    // `e` -> `e + 0.0`: the value reaches the instruction through an arithmetic register
    fn plus_zero(e: &mut E) {
        let old = std::mem::replace(e, E::Now);
        *e = E::Bin(prog::Bop::Add, Box::new(old), Box::new(E::Lit("0.0".into())));
    }
    fn is_proj(e: &E) -> bool {
        matches!(e, E::Proj(..) | E::Field(..))
    }
    /// the expression whose value a block / parenthesis passes on
    fn tail(e: &mut E) -> &mut E {
        match e {
            E::Block(_, last) => tail(last),
            other => other,
        }
    }
    let ex_operand = cx.excluded(KF_STATE_OPERAND_PROJ);
    let ex_time = cx.excluded(KF_DELAY_TIME_PROJ);
    let ex_arm = cx.excluded(KF_IF_ARM_PROJ);
    let (mut hit_operand, mut hit_time, mut hit_arm) = (false, false, false);
    prog::visit_prog_mut(p, &mut |e| match e {
        E::Mem(_, x) => {
            if ex_operand && is_proj(tail(x)) {
                plus_zero(tail(x));
                hit_operand = true;
            }
        }
        E::Delay(_, _, x, t) => {
            if ex_operand && is_proj(tail(x)) {
                plus_zero(tail(x));
                hit_operand = true;
            }
            if ex_time && is_proj(tail(t)) {
                plus_zero(tail(t));
                hit_time = true;
            }
        }
        E::If(_, a, b) if ex_arm => {
            for arm in [a, b] {
                if is_proj(tail(arm)) {
                    plus_zero(tail(arm));
                    hit_arm = true;
                }
            }
        }
        // the arms of a numeric `match` are joined the same way as the arms of an `if`
        E::MatchNum(_, arms, d) if ex_arm => {
            for arm in arms.iter_mut().map(|(_, a)| a).chain(std::iter::once(&mut **d)) {
                if is_proj(tail(arm)) {
                    plus_zero(tail(arm));
                    hit_arm = true;
                }
            }
        }
        _ => {}
    });
    if hit_arm {
        r.push(format!("excluded_by_known_finding:{KF_IF_ARM_PROJ}"));
    }
    if cx.excluded(KF_CAPTURE_BY_VALUE) {
        // assignments to pattern-bound variables that some lambda mentions become fresh bindings
        let mut bound: Vec<String> = vec![];
        let mut in_lambda: Vec<String> = vec![];
        fn pat_names(p: &prog::Pat, out: &mut Vec<String>) {
            match p {
                prog::Pat::Var(n) => out.push(n.clone()),
                prog::Pat::Tup(ps) => ps.iter().for_each(|q| pat_names(q, out)),
                prog::Pat::Rec(fs) => fs.iter().for_each(|(_, q)| pat_names(q, out)),
            }
        }
        prog::visit_prog_mut(p, &mut |e| match e {
            E::Block(ss, _) => {
                for s in ss.iter() {
                    if let prog::S::Let(pt, _) = s {
                        if !matches!(pt, prog::Pat::Var(_)) {
                            pat_names(pt, &mut bound);
                        }
                    }
                }
            }
            E::Lam(_, body) => {
                let mut b = (**body).clone();
                prog::visit_mut(&mut b, &mut |x| {
                    if let E::Var(n) = x {
                        in_lambda.push(n.clone());
                    }
                });
            }
            _ => {}
        });
        let mut hit = false;
        prog::visit_prog_mut(p, &mut |e| {
            if let E::Block(ss, _) = e {
                for s in ss.iter_mut() {
                    if let prog::S::Assign(n, v) = s {
                        if bound.contains(n) && in_lambda.contains(n) {
                            let fresh = format!("{n}_na");
                            let v = std::mem::replace(v, E::Now);
                            *s = prog::S::Let(prog::Pat::Var(fresh), v);
                            hit = true;
                        }
                    }
                }
            }
        });
        if hit {
            r.push(format!("excluded_by_known_finding:{KF_CAPTURE_BY_VALUE}"));
        }
    }
    if hit_operand {
        r.push(format!("excluded_by_known_finding:{KF_STATE_OPERAND_PROJ}"));
    }
    if hit_time {
        r.push(format!("excluded_by_known_finding:{KF_DELAY_TIME_PROJ}"));
    }
}

impl Prop for C18 {
    fn id(&self) -> &'static str {
        "C18"
    }
    fn spaces(&self, tier: Tier) -> Vec<Space> {
        match tier {
            Tier::Quick => vec![
                Space { name: "gen", size: 320, exhaustive: false, chunk: 8, case_timeout_s: 120.0, what: "generated typed core-language programs x input streams x run lengths (1-16 samples)" },
                Space { name: "corpus", size: 64, exhaustive: false, chunk: 8, case_timeout_s: 120.0, what: "shipped sources without plugin calls and literal/operator mutants of them x run lengths" },
            ],
            Tier::Thorough => vec![
                Space { name: "gen", size: 5000, exhaustive: false, chunk: 8, case_timeout_s: 120.0, what: "generated typed core-language programs x input streams x run lengths (1-16 samples)" },
                Space { name: "corpus", size: 1000, exhaustive: false, chunk: 8, case_timeout_s: 120.0, what: "shipped sources without plugin calls and literal/operator mutants of them x run lengths" },
            ],
        }
    }
    fn run(&self, space: &str, _index: u64, g: &mut Gen, cx: &Cx) -> CaseResult {
        if space == "corpus" {
            let no_defaults = cx.excluded(KF_DEFAULT_ARGS);
            let (src, m) = c01::corpus_case(g, no_defaults);
            let inputs = gen_inputs(g);
            let n = *g.pick(&[8u64, 16, 4, 1]);
            // scheduler (`@`) and other plugin calls are outside the property's quantifier
            let code: String = src.lines().map(|l| l.split("//").next().unwrap_or("")).collect::<Vec<_>>().join("\n");
            if code.contains('@') || code.contains("_mimium_schedule_at") {
                return CaseResult::discard("plugin-call");
            }
            return finish(&src, &inputs, n, vec!["mode:corpus".to_string(), format!("mut:{m}")], text_stateful(&src), cx);
        }
        let (cfg, off) = pcfg(cx);
        // half of the programs are small (a handful of lines)
        let small = g.bool(1, 2);
        let cfg = if small { cfg.small(g) } else { cfg };
        let mut pg = PG::new(g, cfg);
        let mut p = pg.program();
        let feat = pg.feat.clone();
        let mut counters = vec![];
        apply_exclusions(&mut p, cx, &mut counters);
        let src = prog::render(&p, &Layout::default());
        let inputs = gen_inputs(g);
        let n = *g.pick(&[8u64, 16, 4, 12, 6, 2, 1]);
        let mut classes = feat.classes();
        classes.push(if small { "size:small".into() } else { "size:full".into() });
        let featureful = feat.stateful() || classes.iter().any(|c| matches!(c.as_str(), "f:local-closure" | "f:global-closure" | "f:maker-closure" | "f:hof" | "f:stateful-call"));
        let mut r = finish(&src, &inputs, n, classes, featureful, cx);
        for id in off {
            r.count(&format!("generator_switch_off:{id}"), 1);
        }
        for c in counters {
            r.count(&c, 1);
        }
        r
    }
    fn run_direct(&self, input: &Value, cx: &Cx) -> Option<CaseResult> {
        let t = input.get("text")?.as_str()?;
        let inputs = Inputs { kind: input.get("input_kind").and_then(|v| v.as_u64()).unwrap_or(1) as u8, scale: input.get("input_scale").and_then(|v| v.as_f64()).unwrap_or(1.0) };
        let n = input.get("n").and_then(|v| v.as_u64()).unwrap_or(4).clamp(1, 64);
        Some(finish(t, &inputs, n, vec![], text_stateful(t), cx))
    }
    fn shrink_direct(&self, input: &Value) -> Vec<Value> {
        let Some(t) = input.get("text").and_then(|v| v.as_str()) else { return vec![] };
        let mut out = vec![];
        let n = input.get("n").and_then(|v| v.as_u64()).unwrap_or(4);
        for m in [n / 2, n - 1] {
            if m >= 1 && m < n {
                let mut v = input.clone();
                v["n"] = json!(m);
                out.push(v);
            }
        }
        for s in line_candidates(t).into_iter().chain(text_candidates(t)) {
            let mut v = input.clone();
            v["text"] = json!(s);
            out.push(v);
        }
        out
    }
    fn rule(&self) -> String {
        "Cases are (program, input stream, run length 1-16). Space gen: type-directed generation over the core language (ProgGen: arithmetic/comparison/logic, builtins, let with tuple/record patterns, if, blocks, named functions, lambdas, local closures, counter-maker closures bound at global scope, higher-order functions, pipes, self (scalar and tuple), mem, delay, now, samplerate, globals, dsp with 0-3 inputs (one float or one tuple parameter) and 1-4 outputs), no plugin calls; program shapes of recorded findings are rewritten or switched off (counters). Space corpus: shipped .mmm sources without scheduler/plugin calls, unchanged or with one literal/operator mutation. Oracle: Context::emit_rust(src) either answers Err (refusal: legal, class `refused`) or Rust source which, concatenated with the repository's test host template (mimium_test_main.rs.template; host as in rust_codegen_test.rs: now = sample index, samplerate 48000, every external call answered Err; dsp inputs passed as words to call_dsp; call_main first when it exists), must compile with `rustc --edition=2024 -C debuginfo=0 -C opt-level=0`, exit with status 0 and print, for every sample, exactly the output words (f64 bits, NaN = NaN) that exec::run_vm yields for the same inputs; the I/O channel counts reported by emit_rust must equal the VM's; a panic inside the Rust generator is a failure. Programs the VM rejects, crashes on or reports no dsp I/O for are discarded; child processes are killed after 30 s (discarded as slow). Non-trivial = Rust was emitted, compiled and run, the verdict is not a tolerated known finding, and the program has a stateful or closure feature; distinct by source+inputs+length.".into()
    }
    fn assumptions(&self) -> Vec<String> {
        vec![
            "rustc on PATH (or $RUSTC) is a correct Rust compiler; scratch files live under /verif/target/rustgen/<pid>-<case>/ and are removed after each case".into(),
            "the bytecode VM is the reference: programs on which the VM itself crashes or is rejected are discarded, and program shapes with recorded VM-side findings (state in if arms, several delays per function, NaN conditions, unresolved self type) stay switched off".into(),
            "the host answers every external call with Err exactly like the repository's TestHost; builtin functions the embedded runtime does not implement therefore end the generated program".into(),
        ]
    }
    fn required_classes(&self, _tier: Tier) -> Vec<&'static str> {
        vec!["compiled", "ran", "output-varies", "multi-out", "f:self", "f:mem", "f:delay", "f:tuple", "f:record", "f:branch", "f:local-closure", "f:maker-closure", "f:hof", "f:stateful-call", "mode:corpus"]
    }
}
