//! C05 — compile-time state layout matches run-time state accesses.

use crate::engine::case::*;
use crate::engine::rng::hash64;
use crate::engine::tape::Gen;
use crate::gens::prog::{self, Layout, PG};
use crate::props::c01::{self, gen_inputs, line_candidates};
use crate::runners::exec::{self, canon, Exec, Inputs, RunOpts};
use serde_json::{json, Value};

pub struct C05;

pub fn prop() -> Option<&'static dyn Prop> {
    Some(&C05)
}

/// lambdas inside functions that own state: the WASM runtime keeps closure-related words in the
/// dsp state (known finding), so state words differ although samples agree
pub const KF_WASM_CLOSURE_WORDS: &str = "C05-wasm-closure-words-in-state";

struct Out {
    fail: Option<(String, String)>,
    leaves: usize,
    calls: usize,
    accesses: usize,
    compiled: bool,
}

fn check(src: &str, inputs: &Inputs, n: u64, sched: bool, vm_only: bool) -> Out {
    let mut o = Out { fail: None, leaves: 0, calls: 0, accesses: 0, compiled: false };
    macro_rules! fail {
        ($sig:expr, $($arg:tt)*) => {{ o.fail = Some((format!("c05:{}", $sig), format!($($arg)*))); return o; }};
    }
    let opts = RunOpts { n, sched, want_state: true, want_counts: false, want_trace: true };
    let vm = exec::run_vm(src, inputs, &opts);
    let a = match vm {
        Exec::Rejected(_) | Exec::NoIo => return o,
        Exec::Panic(stage, p) => {
            if p.msg.contains("verif-hooks: state") {
                let kind = if p.msg.contains("cursor underflow") || p.msg.contains("cursor overflow") { "cursor-out-of-range" } else { "access-outside-storage" };
                // global initialisation runs against a dsp storage of 0 words (recorded finding on
                // stateful calls at global scope): kept apart from accesses made by dsp
                let at = if stage == "main" { ":main" } else { "" };
                fail!(format!("{kind}{at}"), "VM {stage}: {}", p.msg);
            }
            // other crashes are C03's subject
            return o;
        }
        Exec::Error(..) => return o,
        Exec::Ran(a) => a,
    };
    o.compiled = true;
    o.leaves = a.leaves.len();
    o.calls = a.skeleton_calls;
    let total = a.skeleton_words.unwrap_or(0) as usize;
    for (t, tr) in a.trace.iter().enumerate() {
        if a.storage_len.get(t).copied().unwrap_or(total) != total {
            fail!("storage-size", "sample {t}: dsp state storage has {} words, the published layout {total}", a.storage_len[t]);
        }
        if a.cursor.get(t).copied().unwrap_or(0) != 0 {
            fail!("cursor-not-reset", "sample {t}: state cursor is {} after dsp returned", a.cursor[t]);
        }
        for (kind, global, pos, size) in tr {
            if !*global {
                continue; // closure-owned storages are only bounds-checked by the hook
            }
            o.accesses += 1;
            let ok = a.leaves.iter().any(|(off, sz, lk)| {
                off == pos
                    && sz == size
                    && match (lk, kind) {
                        (0, 0) | (0, 1) => true, // feed cell: read and write of the whole cell
                        (1, 1) | (1, 0) => true, // mem cell
                        (2, 2) => true,          // delay: ring buffer of len + 2 words
                        _ => false,
                    }
            });
            if !ok {
                let k = ["read", "write", "ring-buffer"][*kind as usize % 3];
                fail!(format!("access-not-a-layout-cell:{k}"), "sample {t}: {k} of {size} words at cursor {pos} matches no cell of the published layout {:?}", a.leaves);
            }
        }
    }
    if vm_only {
        // shipped sources keep array / closure handles in state cells, which are runtime-specific:
        // only the VM's accesses are judged against the layout there
        return o;
    }
    // VM words == WASM words (zero-extended) after every sample
    let wa = exec::run_wasm(src, inputs, &RunOpts { n, sched: false, want_state: true, want_counts: false, want_trace: false });
    if let Exec::Ran(b) = wa {
        // a dsp call that trapped leaves the WASM state region half-updated: report the trap
        // itself (the words after it describe nothing)
        if let Some((t, rc)) = b.bad_rc.first() {
            fail!("wasm-trap", "WASM run_dsp returned {rc} at sample {t}; the state words cannot be compared");
        }
        for (t, (x, y)) in a.state.iter().zip(b.state.iter()).enumerate() {
            if y.len() > total {
                fail!("wasm-state-larger-than-layout", "sample {t}: WASM state has {} words, the published layout {total}", y.len());
            }
            for i in 0..x.len().max(y.len()) {
                let xv = x.get(i).copied().unwrap_or(0);
                let yv = y.get(i).copied().unwrap_or(0);
                if canon(xv) != canon(yv) {
                    fail!("state-words-differ", "after sample {t}: state word {i} vm {xv:#x} wasm {yv:#x}");
                }
            }
        }
    }
    o
}

fn finish(src: &str, inputs: &Inputs, n: u64, sched: bool, vm_only: bool, classes: Vec<String>, cx: &Cx) -> CaseResult {
    let key = format!("{src}\u{1}{}\u{1}{n}", inputs.describe());
    let hash = hash64(key.as_bytes());
    let direct = json!({"text": src, "input_kind": inputs.kind, "input_scale": inputs.scale, "n": n, "sched": sched, "vm_only": vm_only});
    if cx.dry {
        let mut r = CaseResult::discard("dry");
        r.render = Some(direct.clone());
        r.direct = Some(direct);
        return r;
    }
    let o = check(src, inputs, n, sched, vm_only);
    let mut r = match &o.fail {
        Some((s, m)) => CaseResult::fail(hash, s.clone(), m.clone()),
        None => CaseResult::held(hash),
    };
    r.classes = classes;
    if o.compiled {
        r.classes.push("compiled".into());
    }
    if o.leaves >= 2 {
        r.classes.push("layout:>=2-cells".into());
    }
    if o.calls >= 1 {
        r.classes.push("layout:nested-call".into());
    }
    r.nontrivial = (o.leaves >= 2 && o.calls >= 1 && o.accesses > 0) || r.is_fail();
    if cx.render || r.is_fail() {
        r.render = Some(json!({"text": src, "inputs": inputs.describe(), "n": n, "cells": o.leaves, "accesses": o.accesses}));
    }
    r.direct = Some(direct);
    r
}

impl Prop for C05 {
    fn id(&self) -> &'static str {
        "C05"
    }
    fn spaces(&self, tier: Tier) -> Vec<Space> {
        match tier {
            Tier::Quick => vec![
                Space { name: "gen", size: 3000, exhaustive: false, chunk: 60, case_timeout_s: 60.0, what: "generated programs biased to stateful call trees x run lengths" },
                Space { name: "corpus", size: 1500, exhaustive: false, chunk: 50, case_timeout_s: 60.0, what: "shipped sources (sum types, arrays, macros, scheduler, modules) and literal/operator mutants of them: VM accesses against the published layout" },
            ],
            Tier::Thorough => vec![
                Space { name: "gen", size: 120_000, exhaustive: false, chunk: 200, case_timeout_s: 60.0, what: "generated programs biased to stateful call trees x run lengths" },
                Space { name: "corpus", size: 40_000, exhaustive: false, chunk: 100, case_timeout_s: 60.0, what: "shipped sources and literal/operator mutants of them: VM accesses against the published layout" },
            ],
        }
    }
    fn run(&self, space: &str, _index: u64, g: &mut Gen, cx: &Cx) -> CaseResult {
        if space == "corpus" {
            let (src, m) = c01::corpus_case(g, false);
            let inputs = gen_inputs(g);
            let n = *g.pick(&[8u64, 4, 16, 24]);
            let sched = src.contains('@') || src.contains("_mimium_schedule_at");
            return finish(&src, &inputs, n, sched, true, vec![format!("mut:{m}"), "mode:corpus".to_string()], cx);
        }
        let (mut cfg, off) = c01::pcfg(cx);
        cfg.max_fns = 6;
        cfg.records = false;
        cfg.nested_tuples = true;
        let no_lambda = cx.excluded(KF_WASM_CLOSURE_WORDS);
        if no_lambda {
            cfg.closures = false;
            cfg.hof = false;
            cfg.makers = false;
        }
        let mut pg = PG::new(g, cfg);
        let p = pg.program();
        let feat = pg.feat.clone();
        let src = prog::render(&p, &Layout::default());
        let inputs = gen_inputs(g);
        let n = *g.pick(&[8u64, 4, 16, 3, 32, 64]);
        let mut r = finish(&src, &inputs, n, false, false, feat.classes(), cx);
        for id in off {
            r.count(&format!("generator_switch_off:{id}"), 1);
        }
        if no_lambda {
            r.count(&format!("generator_switch_off:{KF_WASM_CLOSURE_WORDS}"), 1);
        }
        r
    }
    fn run_direct(&self, input: &Value, cx: &Cx) -> Option<CaseResult> {
        let t = input.get("text")?.as_str()?;
        let inputs = Inputs { kind: input.get("input_kind").and_then(|v| v.as_u64()).unwrap_or(1) as u8, scale: input.get("input_scale").and_then(|v| v.as_f64()).unwrap_or(1.0) };
        let n = input.get("n").and_then(|v| v.as_u64()).unwrap_or(8);
        let sched = input.get("sched").and_then(|v| v.as_bool()).unwrap_or(false);
        let vm_only = input.get("vm_only").and_then(|v| v.as_bool()).unwrap_or(false);
        Some(finish(t, &inputs, n, sched, vm_only, vec![], cx))
    }
    fn shrink_direct(&self, input: &Value) -> Vec<Value> {
        let Some(t) = input.get("text").and_then(|v| v.as_str()) else { return vec![] };
        let mut out = vec![];
        let n = input.get("n").and_then(|v| v.as_u64()).unwrap_or(8);
        for m in [n / 2, n - 1] {
            if m >= 1 && m < n {
                let mut v = input.clone();
                v["n"] = json!(m);
                out.push(v);
            }
        }
        for s in line_candidates(t).into_iter().chain(crate::engine::shrink::text_candidates(t)) {
            let mut v = input.clone();
            v["text"] = json!(s);
            out.push(v);
        }
        out
    }
    fn rule(&self) -> String {
        "Cases are (program, input stream, run length) from the core-language generator with up to 6 helper functions, nested stateful calls, the same function at several sites, tuple-valued self and delays of different sizes. Oracle (VM, with the access-recording hook): every read/write/ring-buffer access on the dsp state storage coincides exactly (offset and size, compatible kind) with a leaf of Program::get_dsp_state_skeleton(); the storage length equals the layout's total size; the state cursor is 0 after every dsp call; cursor moves never under/overflow and no access leaves the storage (hook assertions). After every sample the VM state words equal the WASM state words zero-extended, and the WASM state never exceeds the layout size. A second space runs shipped sources and literal/operator mutants of them (with the scheduler where they use it) through the VM part of the oracle only. Non-trivial = layout with >= 2 cells and a nested call, with >= 1 recorded access; distinct by source+inputs+length.".into()
    }
    fn assumptions(&self) -> Vec<String> {
        vec!["accesses on closure-owned storages are only bounds-checked (hook assertion), not matched against the closure's own layout".into(), "a VM crash that is not a state-bounds assertion is left to C03".into()]
    }
    fn required_classes(&self, _tier: Tier) -> Vec<&'static str> {
        vec!["compiled", "layout:>=2-cells", "layout:nested-call", "f:tuple-self", "f:delay", "f:same-fn-many-sites", "f:nested-stateful"]
    }
}
