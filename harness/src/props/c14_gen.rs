//! C14 helper — layout/comment mutations of a valid source text and a small grammar of
//! synthetic programs.  Everything is drawn from `Gen` (tape-replayable).

use crate::engine::tape::Gen;
use mimium_lang::compiler::parser::{self, TokenKind};

pub const MUTATION_KINDS: &[&str] = &[
    "eol-line-comment",
    "own-line-comment",
    "block-comment",
    "add-blank-line",
    "remove-blank-line",
    "reindent",
    "trailing-whitespace",
    "join-semicolon",
    "multi-space",
    "crlf",
    "split-line",
    "split-line-comment",
    "tight-block-comment",
    "file-start-comment",
];

/// Apply `n` random layout/comment mutations to `src`.  All edits are chosen on the token stream
/// of `src` (so never inside a string or a comment) and applied in one pass.  Returns the mutant
/// and the kinds applied.  Whether the mutant is still valid and has the same tree is checked by
/// the caller (construction-then-check).
pub fn mutate(src: &str, g: &mut Gen, n: usize) -> (String, Vec<&'static str>) {
    let tokens = parser::tokenize(src);
    // candidate token indices
    let mut newline_toks = vec![]; // LineBreak tokens that start with a real line break
    let mut multi_nl = vec![]; // LineBreak tokens made of >= 2 '\n'
    let mut single_nl = vec![]; // LineBreak tokens that are exactly "\n"
    let mut indent_ws = vec![]; // Whitespace directly after a LineBreak
    let mut inner_ws = vec![]; // other Whitespace
    let mut tight = vec![]; // non-trivia tokens directly followed by another non-trivia token
    for (i, t) in tokens.iter().enumerate() {
        if !t.is_trivia() && t.kind != TokenKind::Eof && tokens.get(i + 1).map(|n| !n.is_trivia() && n.kind != TokenKind::Eof).unwrap_or(false) {
            tight.push(i);
        }
        match t.kind {
            TokenKind::LineBreak => {
                let tx = t.text(src);
                if tx.starts_with('\n') || tx.starts_with('\r') {
                    newline_toks.push(i);
                }
                if tx.len() >= 2 && tx.bytes().all(|b| b == b'\n') {
                    multi_nl.push(i);
                }
                if tx == "\n" {
                    single_nl.push(i);
                }
            }
            TokenKind::Whitespace => {
                if i > 0 && tokens[i - 1].kind == TokenKind::LineBreak {
                    indent_ws.push(i);
                } else if i > 0 {
                    inner_ws.push(i);
                }
            }
            _ => {}
        }
    }
    // edit: (token index, replacement of the whole token text)
    let mut edits: Vec<(usize, String)> = vec![];
    let mut kinds: Vec<&'static str> = vec![];
    let mut crlf = false;
    let mut prefix = String::new();
    let mut serial = 0usize;
    let pick = |g: &mut Gen, v: &Vec<usize>| -> Option<usize> { if v.is_empty() { None } else { Some(v[g.usize_below(v.len())]) } };
    for _ in 0..n {
        let k = g.weighted(&[6, 5, 5, 2, 2, 3, 2, 2, 3, 1, 3, 4, 4, 1]);
        let kind = MUTATION_KINDS[k];
        serial += 1;
        let e: Option<(usize, String)> = match kind {
            "eol-line-comment" => pick(g, &newline_toks).map(|i| (i, format!(" // c{serial}{}{}", if g.bool(1, 8) { " コメント é" } else { "" }, tokens[i].text(src)))),
            "split-line" => pick(g, &inner_ws).map(|i| (i, format!("\n{}", " ".repeat(g.usize_below(9))))),
            "split-line-comment" => pick(g, &inner_ws).map(|i| (i, format!(" // c{serial}\n{}", " ".repeat(g.usize_below(9))))),
            "file-start-comment" => {
                prefix = match g.below(4) {
                    0 => format!("// c{serial}\n"),
                    1 => format!("/* c{serial} */ "),
                    2 => format!("/* c{serial} */\n"),
                    _ => format!("\n\n  // c{serial}\n/* d{serial} */ "),
                };
                kinds.push("file-start-comment");
                None
            }
            "tight-block-comment" => pick(g, &tight).map(|i| (i, format!("{}/* c{serial} */", tokens[i].text(src)))),
            "own-line-comment" => pick(g, &newline_toks).map(|i| {
                let ind = " ".repeat(g.usize_below(3) * 4);
                let block = g.bool(1, 4);
                let c = if block { format!("/* c{serial} */") } else { format!("// c{serial}") };
                (i, format!("\n{ind}{c}{}", tokens[i].text(src)))
            }),
            "block-comment" => pick(g, &inner_ws).map(|i| (i, if g.bool(1, 6) { format!(" /* c{serial}\n   second line */ ") } else { format!(" /* c{serial} */ ") })),
            "add-blank-line" => pick(g, &newline_toks).map(|i| (i, format!("{}{}", tokens[i].text(src), if g.coin() { "\n\n" } else { "\n" }))),
            "remove-blank-line" => pick(g, &multi_nl).map(|i| (i, "\n".to_string())),
            "reindent" => pick(g, &indent_ws).map(|i| {
                let r = match g.below(5) {
                    0 => String::new(),
                    1 => "\t".to_string(),
                    2 => "  ".to_string(),
                    3 => " ".repeat(1 + g.usize_below(12)),
                    _ => "\t\t ".to_string(),
                };
                (i, r)
            }),
            "trailing-whitespace" => pick(g, &newline_toks).map(|i| (i, format!("{}{}", if g.coin() { "  " } else { " \t" }, tokens[i].text(src)))),
            "join-semicolon" => pick(g, &single_nl).map(|i| (i, if g.coin() { "; ".to_string() } else { ";".to_string() })),
            "multi-space" => pick(g, &inner_ws).map(|i| (i, if g.bool(1, 5) { "\t".to_string() } else { " ".repeat(2 + g.usize_below(5)) })),
            _ => {
                crlf = true;
                kinds.push("crlf");
                None
            }
        };
        if let Some((i, r)) = e {
            if edits.iter().all(|(j, _)| *j != i) {
                edits.push((i, r));
                kinds.push(kind);
            }
        }
    }
    edits.sort_by_key(|(i, _)| *i);
    let mut out = String::with_capacity(src.len() + 64);
    out.push_str(&prefix);
    let mut ei = 0;
    for (i, t) in tokens.iter().enumerate() {
        if ei < edits.len() && edits[ei].0 == i {
            out.push_str(&edits[ei].1);
            ei += 1;
        } else {
            out.push_str(t.text(src));
        }
    }
    if crlf {
        out = out.replace("\r\n", "\n").replace('\n', "\r\n");
    }
    kinds.sort();
    kinds.dedup();
    (out, kinds)
}

// ---------------------------------------------------------------------------------------------
// synthetic programs
// ---------------------------------------------------------------------------------------------

const NAMES: &[&str] = &["x", "y", "freq", "gain", "phase", "input", "amp", "cutoff", "feedback_amount", "n", "acc", "left_channel", "right"];
const FNAMES: &[&str] = &["f", "osc", "filter", "mix", "lowpass_filter", "sin", "phasor", "make_voice", "g"];
const FIELDS: &[&str] = &["a", "b", "freq", "gain", "resonance"];
const MODS: &[&str] = &["m", "util", "dspmod"];
const TYPES: &[&str] = &["Shape", "Msg", "Tree"];
const CTORS: &[&str] = &["Circle", "Rect", "Leaf", "Node", "Empty"];
const OPS: &[&str] = &["+", "-", "*", "/", "%", "^", "==", "!=", "<", "<=", ">", ">=", "&&", "||", "|>", "@"];

/// constructs that hit an already triaged formatter defect: each program enables only some of
/// them (half of the programs none), so that the search also runs on programs free of them
const R_TYPED_PARAM: u32 = 1;
const R_RECORD_PATTERN: u32 = 2;
const R_RECORD_TYPE: u32 = 4;
const R_TYPE_DECL: u32 = 8;
const R_MATCH: u32 = 16;
const R_EMPTY_LAMBDA: u32 = 32;
const R_BARE_IF: u32 = 64;
const R_MACRO_DECL: u32 = 128;
const R_NESTED_UNARY: u32 = 256;
const R_SINGLE_TUPLE: u32 = 512;
const N_RISKY: u32 = 10;

struct Syn<'a> {
    g: &'a mut Gen,
    /// constructs used (class labels)
    used: Vec<&'static str>,
    risky: u32,
}

impl Syn<'_> {
    fn mark(&mut self, k: &'static str) {
        if !self.used.contains(&k) {
            self.used.push(k);
        }
    }
    fn on(&self, r: u32) -> bool {
        self.risky & r != 0
    }
    /// an expression that does not start with a record brace (lambda bodies, if branches and
    /// match arms read `{` as a block)
    fn expr_nb(&mut self, depth: usize) -> String {
        let e = self.expr(depth);
        if e.starts_with('{') && !e.starts_with("{\n") && !e.starts_with("{ ") { format!("({e})") } else { e }
    }
    fn name(&mut self) -> &'static str {
        *self.g.pick(NAMES)
    }
    fn ty(&mut self, depth: usize) -> String {
        let k = if depth == 0 { self.g.below(3) } else { self.g.weighted(&[5, 2, 1, 2, 2, 2, 1, 1, 1, 1, 1, 1, 1]) as u64 };
        match k {
            0 => "float".into(),
            1 => "int".into(),
            2 => "string".into(),
            3 => format!("({}, {})", self.ty(depth - 1), self.ty(depth - 1)),
            4 => format!("({})->{}", self.ty(depth - 1), self.ty(depth - 1)),
            5 => format!("[{}]", self.ty(depth - 1)),
            6 if self.on(R_RECORD_TYPE) => format!("{{a:{}, b:{}}}", self.ty(depth - 1), self.ty(depth - 1)),
            6 => format!("({}, {}, {})", self.ty(depth - 1), self.ty(depth - 1), self.ty(depth - 1)),
            7 => self.g.pick(TYPES).to_string(),
            8 => format!("({})", self.ty(depth - 1)),
            9 => format!("`{}", self.ty(depth - 1)),
            10 => format!("{}::{}", self.g.pick(MODS), self.g.pick(TYPES)),
            11 => format!("{} | {}", self.ty(0), self.ty(0)),
            _ => format!("()->{}", self.ty(depth - 1)),
        }
    }
    fn atom(&mut self) -> String {
        match self.g.weighted(&[6, 4, 3, 1, 1, 1, 1]) {
            0 => self.name().to_string(),
            1 => ["1.0", "0.5", "440.0", "3.14159", "0.0", "48000.0"][self.g.usize_below(6)].to_string(),
            2 => ["0", "1", "2", "100", "12345"][self.g.usize_below(5)].to_string(),
            3 => "self".into(),
            4 => "now".into(),
            5 => "samplerate".into(),
            _ => "\"text\"".into(),
        }
    }
    fn args(&mut self, depth: usize, lo: usize, hi: usize) -> String {
        let n = lo + self.g.usize_below(hi - lo + 1);
        let v: Vec<String> = (0..n).map(|_| self.expr(depth)).collect();
        let mut s = v.join(if self.g.bool(1, 6) { "," } else { ", " });
        if n >= 2 && self.g.bool(1, 10) {
            self.mark("trailing-comma");
            s.push(',');
        }
        s
    }
    fn expr(&mut self, depth: usize) -> String {
        if depth == 0 {
            return self.atom();
        }
        let d = depth - 1;
        match self.g.weighted(&[6, 6, 6, 2, 2, 2, 2, 2, 2, 2, 2, 3, 2, 2, 2, 1, 1, 1, 2, 1]) {
            0 => self.atom(),
            1 => {
                // binary chain, long enough to need breaking at small widths
                self.mark("binop-chain");
                let n = 2 + self.g.usize_below(6);
                let mut s = self.expr(d);
                for _ in 1..n {
                    let op = *self.g.pick(OPS);
                    if op == "|>" {
                        self.mark("pipe");
                        s = format!("{s} |> {}", self.g.pick(FNAMES));
                    } else {
                        let r = self.expr(d);
                        s = if self.g.bool(1, 6) { format!("{s}{op}{r}") } else { format!("{s} {op} {r}") };
                    }
                }
                s
            }
            2 => {
                self.mark("call");
                let f = *self.g.pick(FNAMES);
                format!("{f}({})", self.args(d, 0, 6))
            }
            3 => {
                self.mark("paren");
                format!("({})", self.expr(d))
            }
            4 => {
                self.mark("unary-minus");
                match self.g.below(6) {
                    0 | 1 => format!("-{}", self.atom()),
                    2 => format!("- {}", self.atom()),
                    3 => format!("+{}", self.atom()),
                    4 => format!("-(-{})", self.atom()),
                    _ if self.on(R_NESTED_UNARY) => {
                        self.mark("nested-unary");
                        format!("- {}{}", if self.g.coin() { "-" } else { "+" }, self.atom())
                    }
                    _ => format!("-({})", self.expr(d)),
                }
            }
            5 if self.on(R_SINGLE_TUPLE) && self.g.bool(1, 2) => {
                self.mark("single-element-tuple");
                format!("({},)", self.expr(d))
            }
            5 => {
                self.mark("tuple");
                format!("({})", self.args(d, 2, 4))
            }
            6 => {
                self.mark("array");
                format!("[{}]", self.args(d, 0, 5))
            }
            7 => {
                self.mark("record");
                let n = 1 + self.g.usize_below(4);
                let fs: Vec<String> = (0..n).map(|i| format!("{} = {}", FIELDS[i % FIELDS.len()], self.expr(d))).collect();
                match self.g.below(4) {
                    0 => {
                        self.mark("record-incomplete");
                        format!("{{{}, ..}}", fs.join(", "))
                    }
                    1 => {
                        self.mark("record-update");
                        format!("{{{} <- {}}}", self.name(), fs.join(", "))
                    }
                    _ => format!("{{{}}}", fs.join(", ")),
                }
            }
            8 => {
                self.mark("lambda");
                let n = 1 + self.g.usize_below(3);
                let ps: Vec<String> = (0..n)
                    .map(|i| {
                        let p = NAMES[i];
                        if self.g.bool(1, 3) {
                            self.mark("typed-lambda-param");
                            format!("{p}:{}", self.ty(1))
                        } else {
                            p.to_string()
                        }
                    })
                    .collect();
                let ret = if self.g.bool(1, 4) {
                    self.mark("lambda-return-type");
                    format!(" -> {}", self.ty(1))
                } else {
                    String::new()
                };
                if self.on(R_EMPTY_LAMBDA) && self.g.bool(1, 2) {
                    self.mark("empty-lambda");
                    return format!("| | {}", self.expr_nb(d));
                }
                if self.g.coin() {
                    format!("|{}|{ret} {}", ps.join(", "), self.expr_nb(d))
                } else {
                    format!("|{}|{ret} {}", ps.join(","), self.block(d, 1))
                }
            }
            9 => {
                self.mark("if-expr");
                let c = self.expr(d);
                let t = self.expr_nb(d);
                if self.on(R_BARE_IF) && self.g.bool(1, 2) {
                    self.mark("if-without-paren");
                    return format!("if {} > 0.0 {} else {}", self.name(), self.block(d, 1), self.block(d, 1));
                }
                match self.g.below(4) {
                    0 => format!("if ({c}) {t} else {}", self.expr_nb(d)),
                    1 => format!("if ({c}) {} else {}", self.block(d, 1), self.block(d, 1)),
                    2 => {
                        self.mark("else-if");
                        format!("if ({c}) {t} else if ({}) {} else {}", self.expr(d), self.expr_nb(d), self.expr_nb(d))
                    }
                    _ => {
                        self.mark("if-without-else");
                        format!("if ({c}) {}", self.block(d, 1))
                    }
                }
            }
            10 => {
                self.mark("block-expr");
                self.block(d, 1)
            }
            11 => {
                self.mark("nested-call");
                let f = *self.g.pick(FNAMES);
                let h = *self.g.pick(FNAMES);
                format!("{f}({h}({}), {})", self.args(d, 1, 4), self.args(d, 1, 4))
            }
            12 => {
                self.mark("field-or-proj");
                match self.g.below(6) {
                    0 => format!("{}.{}", self.name(), FIELDS[self.g.usize_below(FIELDS.len())]),
                    1 => format!("{}.{}", self.name(), self.g.below(3)),
                    2 => format!("{}[{}]", self.name(), self.expr(d)),
                    3 => format!("{}.{}.{}", self.name(), self.g.below(3), self.g.below(3)),
                    4 => format!("{}({})({})[{}].{}", self.g.pick(FNAMES), self.args(d, 0, 2), self.args(d, 0, 2), self.atom(), FIELDS[0]),
                    _ => format!("{}.{}.{}", self.name(), FIELDS[0], FIELDS[1]),
                }
            }
            13 => {
                self.mark("macro-expand");
                if self.g.bool(1, 4) {
                    format!("{}::{}!({})", self.g.pick(MODS), self.g.pick(FNAMES), self.args(d, 0, 3))
                } else {
                    format!("{}!({})", self.g.pick(FNAMES), self.args(d, 0, 3))
                }
            }
            14 => {
                self.mark("quote");
                match self.g.below(3) {
                    0 => format!("`{}", self.atom()),
                    1 => format!("`{}", self.block(d, 1)),
                    _ => format!("`({})", self.expr(d)),
                }
            }
            15 => {
                self.mark("splice");
                match self.g.below(3) {
                    0 => format!("${}", self.name()),
                    1 => format!("$({})", self.expr(d)),
                    _ => format!("${}({})", self.g.pick(FNAMES), self.args(d, 0, 2)),
                }
            }
            16 if !self.on(R_MATCH) => {
                self.mark("call");
                format!("{}({})", self.g.pick(FNAMES), self.args(d, 1, 3))
            }
            16 => {
                self.mark("match");
                let sc = self.name();
                let n = 1 + self.g.usize_below(3);
                let mut arms = vec![];
                for i in 0..n {
                    let p = match self.g.below(7) {
                        5 => format!("({i}, _)"),
                        6 => format!("float({})", self.name()),
                        0 => format!("{i}"),
                        1 => format!("{i}.0"),
                        2 => CTORS[self.g.usize_below(CTORS.len())].to_string(),
                        3 => format!("{}({})", CTORS[self.g.usize_below(CTORS.len())], self.name()),
                        _ => format!("{}(({}, {}))", CTORS[self.g.usize_below(CTORS.len())], NAMES[0], NAMES[1]),
                    };
                    let body = if self.g.bool(1, 4) { self.block(d, 1) } else { self.expr_nb(d) };
                    arms.push(format!("{p} => {body}"));
                }
                arms.push(format!("_ => {}", self.atom()));
                if self.g.coin() {
                    format!("match {sc} {{ {} }}", arms.join(", "))
                } else {
                    format!("match {sc} {{\n        {}\n    }}", arms.join("\n        "))
                }
            }
            17 => {
                self.mark("qualified-name");
                format!("{}::{}({})", self.g.pick(MODS), self.g.pick(FNAMES), self.args(d, 0, 2))
            }
            18 => {
                self.mark("placeholder-arg");
                format!("{}(_, {})", self.g.pick(FNAMES), self.expr(d))
            }
            _ => {
                self.mark("macro-pipe");
                format!("{} ||> {}", self.expr(d), self.g.pick(FNAMES))
            }
        }
    }
    fn pattern(&mut self) -> String {
        match self.g.weighted(&[5, 2, 2, 1, 1]) {
            0 => self.name().to_string(),
            1 => {
                self.mark("tuple-pattern");
                format!("({}, {})", NAMES[0], NAMES[1])
            }
            2 if self.on(R_RECORD_PATTERN) => {
                self.mark("record-pattern");
                format!("{{a = {}, b = {}}}", NAMES[2], NAMES[3])
            }
            2 => {
                self.mark("tuple-pattern");
                format!("({}, {}, {})", NAMES[2], NAMES[3], NAMES[4])
            }
            3 => "_".to_string(),
            _ => {
                self.mark("tuple-pattern");
                format!("({}, ({}, _), {})", NAMES[0], NAMES[1], NAMES[2])
            }
        }
    }
    /// statements of a block body, each on its own line
    fn stmts(&mut self, depth: usize, ind: usize, lo: usize) -> Vec<String> {
        let n = lo + self.g.usize_below(3);
        let mut v = vec![];
        for _ in 0..n {
            let s = match self.g.weighted(&[6, 1, 1, 1, 1]) {
                0 => {
                    self.mark("let");
                    let p = self.pattern();
                    let t = if self.g.bool(1, 5) {
                        self.mark("typed-let");
                        format!(":{}", self.ty(1))
                    } else {
                        String::new()
                    };
                    format!("let {p}{t} = {}", self.expr(depth))
                }
                1 => {
                    self.mark("assign");
                    match self.g.below(4) {
                        0 => format!("{}.{} = {}", self.name(), FIELDS[0], self.expr(depth)),
                        1 => format!("{}[{}] = {}", self.name(), self.atom(), self.expr(depth)),
                        _ => format!("{} = {}", self.name(), self.expr(depth)),
                    }
                }
                2 => {
                    self.mark("letrec");
                    format!("letrec {} = |{}| {}", self.g.pick(FNAMES), NAMES[0], self.expr_nb(depth))
                }
                3 => {
                    self.mark("if-statement");
                    let c = self.expr(depth);
                    format!("if ({c}) {{\n{i}    {} = {}\n{i}}}", self.name(), self.expr(depth), i = " ".repeat(ind))
                }
                _ => {
                    self.mark("call-statement");
                    format!("{}({})", self.g.pick(FNAMES), self.args(depth, 0, 3))
                }
            };
            v.push(s);
        }
        v.push(self.expr(depth));
        v
    }
    fn block(&mut self, depth: usize, lo: usize) -> String {
        if self.g.bool(1, 3) {
            // one-line block
            return format!("{{ {} }}", self.expr(depth));
        }
        let ss = self.stmts(depth, 8, lo.saturating_sub(1));
        format!("{{\n        {}\n    }}", ss.join("\n        "))
    }
    fn fndef(&mut self, depth: usize, ind: &str, vis: bool) -> String {
        self.mark("fn");
        let name = *self.g.pick(&["dsp", "f", "osc", "lowpass_filter", "make_voice", "helper"]);
        let n = self.g.usize_below(4);
        let ps: Vec<String> = (0..n)
            .map(|i| {
                let p = NAMES[(i * 3 + 2) % NAMES.len()];
                let mut s = p.to_string();
                if self.on(R_TYPED_PARAM) && self.g.bool(2, 3) {
                    self.mark("typed-param");
                    s = format!("{s}{}{}", if self.g.coin() { ":" } else { ": " }, self.ty(2));
                }
                if self.on(R_TYPED_PARAM) && self.g.bool(1, 4) {
                    self.mark("param-default");
                    s = format!("{s} = {}", self.atom());
                }
                s
            })
            .collect();
        let ret = if self.g.bool(1, 4) {
            self.mark("return-type");
            format!("{}{}", if self.g.coin() { "->" } else { " -> " }, self.ty(2))
        } else {
            String::new()
        };
        let body = self.stmts(depth, ind.len() + 4, 0);
        let vis = if vis && self.g.coin() {
            self.mark("pub");
            "pub "
        } else {
            ""
        };
        let sep = if self.g.bool(1, 5) { "," } else { ", " };
        let kw = if self.on(R_MACRO_DECL) && self.g.bool(1, 2) {
            self.mark("macro-decl");
            "macro"
        } else {
            "fn"
        };
        let mut plist = ps.join(sep);
        if n >= 1 && self.g.bool(1, 10) {
            self.mark("trailing-comma");
            plist.push(',');
        }
        format!("{ind}{vis}{kw} {name}({}){ret}{}{{\n{ind}    {}\n{ind}}}", plist, if self.g.coin() { "" } else { " " }, body.join(&format!("\n{ind}    ")))
    }
    fn top(&mut self, depth: usize) -> String {
        match self.g.weighted(&[8, 5, 1, 1, 2, 2, 2, 1, 2, 1]) {
            0 => self.fndef(depth, "", false),
            1 => {
                self.mark("global-let");
                let p = self.pattern();
                format!("let {p} = {}", self.expr(depth))
            }
            2 => {
                self.mark("stage-decl");
                let body = self.fndef(depth, "", false);
                format!("#stage(macro)\n{body}\n#stage(main)")
            }
            3 => {
                self.mark("include");
                "include(\"osc.mmm\")".to_string()
            }
            4 if !self.on(R_TYPE_DECL) => {
                self.mark("global-let");
                format!("let {} = {}", self.name(), self.expr(depth))
            }
            4 => {
                self.mark("type-decl");
                let t = *self.g.pick(TYPES);
                match self.g.below(4) {
                    0 => format!("type {t} = Circle(float) | Rect(float, float) | Empty"),
                    1 => format!("type rec {t} = Leaf(float) | Node({t}, {t})"),
                    2 => {
                        self.mark("type-alias");
                        format!("type alias {t} = {}", self.ty(2))
                    }
                    _ => format!("pub type {t} = Leaf | Node(int)"),
                }
            }
            5 if self.g.bool(1, 5) => {
                self.mark("external-module");
                format!("{}mod {}", if self.g.bool(1, 3) { "pub " } else { "" }, self.g.pick(MODS))
            }
            5 => {
                self.mark("module");
                let m = *self.g.pick(MODS);
                let n = 1 + self.g.usize_below(2);
                let fs: Vec<String> = (0..n).map(|_| self.fndef(depth.min(1), "    ", true)).collect();
                format!("{}mod {m} {{\n{}\n}}", if self.g.bool(1, 4) { "pub " } else { "" }, fs.join("\n"))
            }
            6 => {
                self.mark("use");
                let m = *self.g.pick(MODS);
                match self.g.below(4) {
                    0 => format!("use {m}::{}", self.g.pick(FNAMES)),
                    1 => format!("use {m}::{{{}, {}}}", FNAMES[0], FNAMES[1]),
                    2 => format!("use {m}::*"),
                    _ => format!("pub use {m}::inner::{}", self.g.pick(FNAMES)),
                }
            }
            7 => {
                self.mark("global-call");
                format!("{}({})", self.g.pick(FNAMES), self.args(depth, 0, 3))
            }
            8 => {
                self.mark("commented-fn");
                let f = self.fndef(depth, "", false);
                format!("// about the next function\n/* block\n   comment */\n{f}")
            }
            _ => {
                self.mark("global-letrec");
                format!("letrec {} = |{}| {}", self.g.pick(FNAMES), NAMES[0], self.expr_nb(depth))
            }
        }
    }
}

/// A small synthetic program (text, constructs used).
pub fn synthetic(g: &mut Gen) -> (String, Vec<&'static str>) {
    let mut used: Vec<&'static str> = vec![];
    let depth = 1 + g.int_small(0, 2) as usize;
    let mut risky = 0u32;
    if g.coin() {
        for b in 0..N_RISKY {
            if g.bool(1, 3) {
                risky |= 1 << b;
            }
        }
    }
    if risky == 0 {
        used.push("no-known-defect-construct");
    }
    let parts = g.vec(1, 5, |g| {
        let mut s = Syn { g, used: std::mem::take(&mut used), risky };
        let t = s.top(depth);
        used = s.used;
        t
    });
    let mut text = parts.join(if g.bool(1, 5) { "\n\n" } else { "\n" });
    text.push('\n');
    (text, used)
}
