//! C09 — staged (macro) code means the same as the code it generates.
//!
//! A case is a staged program C[e] (quotes, splices, macro-stage functions / let / recursion /
//! lift_f) together with its MANUAL expansion, which the harness computes by substitution over its
//! own AST (`c09_stage.rs`) — the repository's expander is never consulted for the expectation.

use crate::engine::case::*;
use crate::engine::rng::hash64;
use crate::engine::tape::Gen;
use crate::runners::exec::{self, canon, Exec, Inputs, RunOpts};
use serde_json::{json, Value};
use std::collections::BTreeSet;

#[path = "c09_stage.rs"]
mod stage;
use stage::*;

pub struct C09;

pub fn prop() -> Option<&'static dyn Prop> {
    Some(&C09)
}

const CTXS: &[&str] = &["quote-splice", "macro-fn", "code-param", "let-code", "recursion", "lift"];

fn bx<T>(x: T) -> Box<T> {
    Box::new(x)
}

enum Got {
    Ran(Vec<Vec<u64>>),
    Rejected(String),
    Panic(String, String),
    Other(String),
}

fn got(e: Exec) -> Got {
    match e {
        Exec::Ran(r) => Got::Ran(r.samples),
        Exec::Rejected(d) => Got::Rejected(d.iter().map(|x| x.message.clone()).collect::<Vec<_>>().join(" | ")),
        Exec::Panic(stage, p) => Got::Panic(format!("{}:{}", if stage.starts_with("dsp@") { "dsp" } else { stage.as_str() }, p.signature()), format!("{stage}: {}", p.describe())),
        Exec::NoIo => Got::Other("no dsp I/O information".into()),
        Exec::Error(s, e) => Got::Other(format!("{s}: {e}")),
    }
}

fn vm(src: &str, n: u64) -> Got {
    got(exec::run_vm(src, &Inputs { kind: 0, scale: 1.0 }, &RunOpts { n, sched: false, want_state: false, want_counts: false, want_trace: false }))
}
fn wasm(src: &str, n: u64) -> Got {
    got(exec::run_wasm(src, &Inputs { kind: 0, scale: 1.0 }, &RunOpts { n, sched: false, want_state: false, want_counts: false, want_trace: false }))
}

fn first_diff(a: &[Vec<u64>], b: &[Vec<u64>]) -> Option<String> {
    if a.len() != b.len() {
        return Some(format!("{} samples vs {}", a.len(), b.len()));
    }
    for (t, (x, y)) in a.iter().zip(b.iter()).enumerate() {
        if x.len() != y.len() {
            return Some(format!("sample {t}: {} channels vs {}", x.len(), y.len()));
        }
        for ch in 0..x.len() {
            if canon(x[ch]) != canon(y[ch]) {
                return Some(format!("sample {t} channel {ch}: {:?} ({:#x}) vs {:?} ({:#x})", f64::from_bits(x[ch]), x[ch], f64::from_bits(y[ch]), y[ch]));
            }
        }
    }
    None
}

struct Outc {
    fail: Option<(String, String)>,
    discard: Option<String>,
    varying: bool,
    wasm_compared: bool,
}

/// The oracle on texts.
fn judge(staged: &str, alt: Option<&str>, expanded: &str, n: u64, ctx: &str, expect: Option<u64>, wasm_leg: bool) -> Outc {
    let mut o = Outc { fail: None, discard: None, varying: false, wasm_compared: false };
    macro_rules! fail {
        ($sig:expr, $($arg:tt)*) => {{ o.fail = Some((format!("c09:{}", $sig), format!($($arg)*))); return o; }};
    }
    // the hand expansion defines the expected meaning: if it has none, the case is outside the domain
    let e = match vm(expanded, n) {
        Got::Ran(s) => s,
        Got::Rejected(d) => {
            o.discard = Some(format!("expansion-rejected:{}", crate::engine::panics::normalise(&d)));
            return o;
        }
        Got::Panic(sig, _) => {
            o.discard = Some(format!("expansion-crashes:{sig}"));
            return o;
        }
        Got::Other(w) => {
            o.discard = Some(format!("expansion-unusable:{}", crate::engine::panics::normalise(&w)));
            return o;
        }
    };
    o.varying = e.iter().any(|s| *s != e[0]);
    let s = match vm(staged, n) {
        Got::Ran(s) => s,
        Got::Rejected(d) => fail!("staged-rejected", "the hand expansion compiles and runs, the staged program is rejected: {d}"),
        Got::Panic(sig, d) => fail!(format!("panic:{sig}"), "the hand expansion runs, the staged program panics at {d}"),
        Got::Other(w) => fail!("staged-unusable", "the hand expansion runs, the staged program does not: {w}"),
    };
    if let Some(bits) = expect {
        for (t, smp) in s.iter().enumerate() {
            if smp.len() != 1 || canon(smp[0]) != canon(bits) {
                fail!("lift-inexact", "sample {t}: dsp returns {:?}, the lifted macro-stage number is {:?} ({:#x})", smp.iter().map(|w| f64::from_bits(*w)).collect::<Vec<_>>(), f64::from_bits(bits), bits);
            }
        }
    }
    if let Some(d) = first_diff(&s, &e) {
        fail!(format!("output-differs:{ctx}"), "staged program vs hand expansion (VM): {d}");
    }
    if let Some(a) = alt {
        match vm(a, n) {
            Got::Ran(sa) => {
                if let Some(d) = first_diff(&sa, &s) {
                    fail!("bang-vs-splice-differ", "f!(args) vs $(f(args)) (VM): {d}");
                }
            }
            Got::Rejected(d) => fail!("bang-vs-splice-differ", "the program with f!(args) and $(f(args)) exchanged is rejected: {d}"),
            Got::Panic(sig, d) => fail!(format!("panic:{sig}"), "the program with f!(args) and $(f(args)) exchanged panics at {d}"),
            Got::Other(w) => fail!("bang-vs-splice-differ", "the program with f!(args) and $(f(args)) exchanged does not run: {w}"),
        }
    }
    if wasm_leg {
        // same backend on both sides, so backend defects cancel; anything the WASM backend cannot do
        // with the plain expansion is not judged
        if let Got::Ran(we) = wasm(expanded, n) {
            o.wasm_compared = true;
            match wasm(staged, n) {
                Got::Ran(ws) => {
                    if let Some(d) = first_diff(&ws, &we) {
                        fail!(format!("wasm-output-differs:{ctx}"), "staged program vs hand expansion (WASM): {d}");
                    }
                }
                Got::Rejected(d) => fail!("wasm-staged-rejected", "WASM: the hand expansion runs, the staged program is rejected: {d}"),
                Got::Panic(sig, d) => fail!(format!("wasm-panic:{sig}"), "WASM: the hand expansion runs, the staged program panics at {d}"),
                Got::Other(w) => fail!("wasm-staged-unusable", "WASM: the hand expansion runs, the staged program does not: {w}"),
            }
        }
    }
    o
}

struct GenCase {
    ctx: &'static str,
    case: Case,
    expect: Option<f64>,
    wasm_leg: bool,
    n: u64,
    /// also run the variant with f!(args) and $(f(args)) exchanged
    check_alt: bool,
    extra: Vec<String>,
}

fn lift_number(g: &mut Gen, extra: &mut Vec<String>) -> N {
    let lit = |v: f64| N::Lit(v);
    let bin = |op: &'static str, a: f64, b: f64| N::Bin(op, bx(N::Lit(a)), bx(N::Lit(b)));
    let k = g.weighted(&[3, 3, 3, 3, 4, 1]);
    let (label, n) = match k {
        0 => ("lift:fractional", match g.usize_below(4) {
            0 => lit(2.5),
            1 => lit(0.1),
            2 => lit(0.7071067811865476),
            _ => bin("*", 1.5, 0.25),
        }),
        1 => ("lift:negative", match g.usize_below(4) {
            0 => lit(-2.5),
            1 => bin("-", 0.0, 0.1),
            2 => bin("*", 3.0, -0.3333333333333333),
            _ => lit(-123456.789),
        }),
        2 => ("lift:tiny", match g.usize_below(4) {
            0 => lit(0.000001),
            1 => bin("/", 1.0, 1000000.0),
            2 => lit(0.0000000001234),
            _ => bin("*", 0.000001, 0.000001),
        }),
        3 => ("lift:large", match g.usize_below(4) {
            0 => lit(123456789.0),
            1 => bin("*", 123456789.0, 1000.0),
            2 => lit(9007199254740993.0),
            _ => bin("+", 4294967296.0, 0.5),
        }),
        4 => ("lift:inexact-decimal", match g.usize_below(5) {
            0 => bin("+", 0.1, 0.2),
            1 => bin("/", 1.0, 3.0),
            2 => bin("*", 0.1, 3.0),
            3 => bin("-", 0.3, 0.1),
            _ => N::Bin("/", bx(bin("+", 0.1, 0.7)), bx(N::Lit(7.0))),
        }),
        _ => ("lift:special", match g.usize_below(3) {
            0 => bin("*", 0.0, -1.0),
            1 => bin("/", 1.0, 0.0),
            _ => bin("/", 0.0, 0.0),
        }),
    };
    extra.push(label.to_string());
    n
}

fn gen_case(g: &mut Gen) -> GenCase {
    let ci = g.weighted(&[3, 3, 4, 3, 3, 2]);
    let ctx = CTXS[ci];
    let wasm_leg = g.bool(1, 10);
    let n = *g.pick(&[4u64, 1, 2, 8, 3]);
    let check_alt = g.bool(1, 2);
    let mut extra = vec![];
    if ctx == "lift" {
        let num = lift_number(g, &mut extra);
        let pipe = g.bool(1, 3);
        let (fns, dsp) = match g.weighted(&[2, 2, 2]) {
            0 => (vec![], X::Splice(bx(M::Lift(num.clone(), pipe)))),
            1 => (vec![MFn { name: "lf0".into(), params: vec![], body: M::Lift(num.clone(), pipe) }], X::Splice(bx(M::Call("lf0".into(), vec![], g.coin())))),
            _ => {
                let k = *g.pick(&[1.0, 0.5, 3.0, 0.1]);
                let op = *g.pick(&["*", "+", "/", "-"]);
                (
                    vec![MFn { name: "lf0".into(), params: vec![("n".into(), false)], body: M::Lift(N::Bin(op, bx(N::Var("n".into())), bx(N::Lit(k))), pipe) }],
                    X::Splice(bx(M::Call("lf0".into(), vec![A::N(num.clone())], g.coin()))),
                )
            }
        };
        let case = Case { fns, kfn: None, dsp, lead_main: g.bool(1, 4) };
        let expect = match expand(&case, false) {
            Ok((_, X::Num(v))) => Some(v),
            _ => None,
        };
        return GenCase { ctx, case, expect, wasm_leg, n, check_alt, extra };
    }
    let mut sg = SG::new(g, false);
    sg.tuples = !wasm_leg;
    sg.lam_templates = sg.g.coin();
    let primary = match ctx {
        "quote-splice" => Use::QuoteSplice,
        "macro-fn" => sg.add_plain_macro(),
        "code-param" => {
            let mut u = sg.add_param_macro();
            if sg.g.bool(1, 2) {
                u = sg.add_param_macro();
            }
            u
        }
        "let-code" => {
            if sg.g.bool(1, 3) {
                Use::LetInline
            } else {
                sg.add_letcode_macro()
            }
        }
        _ => sg.add_recursive_macro(),
    };
    sg.uses.push(primary);
    if sg.g.bool(1, 5) {
        let second = if sg.g.coin() { Use::QuoteSplice } else { sg.add_plain_macro() };
        sg.uses.push(second);
        extra.push("ctx:mixed".into());
    }
    let in_fn = sg.g.bool(1, 4);
    let body = sg.top_body(in_fn);
    let case = sg.finish(body, in_fn);
    extra.push(if in_fn { "site:fn".into() } else { "site:dsp".into() });
    GenCase { ctx, case, expect: None, wasm_leg, n, check_alt, extra }
}

fn finish(staged: &str, alt: Option<&str>, expanded: &str, n: u64, ctx: &str, expect: Option<u64>, wasm_leg: bool, classes: Vec<String>, nontrivial: bool, cx: &Cx) -> CaseResult {
    let key = format!("{staged}\u{1}{n}");
    let hash = hash64(key.as_bytes());
    let direct = json!({"staged": staged, "alt": alt, "expanded": expanded, "n": n, "ctx": ctx, "expect_bits": expect, "wasm": wasm_leg});
    if cx.dry {
        let mut r = CaseResult::discard("dry");
        r.render = Some(direct.clone());
        r.direct = Some(direct);
        return r;
    }
    let o = judge(staged, alt, expanded, n, ctx, expect, wasm_leg);
    if let Some(w) = &o.discard {
        let mut r = CaseResult::discard(w.split(':').next().unwrap_or("discard").to_string());
        r.count(&format!("discard:{w}"), 1);
        r.direct = Some(direct);
        return r;
    }
    let mut r = match &o.fail {
        Some((s, m)) => CaseResult::fail(hash, s.clone(), m.clone()),
        None => CaseResult::held(hash),
    };
    r.classes = classes;
    r.classes.push("compiled".into());
    if o.varying {
        r.classes.push("output-varies".into());
    }
    if o.wasm_compared {
        r.classes.push("wasm-leg-compared".into());
    }
    r.nontrivial = nontrivial || r.is_fail();
    if cx.render || r.is_fail() {
        r.render = Some(direct.clone());
    }
    r.direct = Some(direct);
    r
}

impl Prop for C09 {
    fn id(&self) -> &'static str {
        "C09"
    }
    fn spaces(&self, tier: Tier) -> Vec<Space> {
        let what = "staging contexts (quote-splice, macro function, code parameters, macro-stage let of code, numeric recursion, lift_f) x generated stage-1 expressions x use sites";
        match tier {
            Tier::Quick => vec![Space { name: "gen", size: 12000, exhaustive: false, chunk: 100, case_timeout_s: 30.0, what }],
            Tier::Thorough => vec![Space { name: "gen", size: 400_000, exhaustive: false, chunk: 250, case_timeout_s: 30.0, what }],
        }
    }
    fn run(&self, _space: &str, _index: u64, g: &mut Gen, cx: &Cx) -> CaseResult {
        let gc = gen_case(g);
        let (k, d) = match expand(&gc.case, false) {
            Ok(v) => v,
            Err(e) => return CaseResult::discard(format!("generator:{e}")),
        };
        let staged = render_staged(&gc.case, false);
        let mut sites = (0u32, 0u32);
        if let Some(kf) = &gc.case.kfn {
            count_sites(kf, &mut sites);
        }
        count_sites(&gc.case.dsp, &mut sites);
        let alt = if sites.0 + sites.1 > 0 && gc.check_alt { Some(render_staged(&gc.case, true)) } else { None };
        let expanded = render_plain(&k, &d);
        // class labels
        let mut forms: BTreeSet<&'static str> = BTreeSet::new();
        if let Some(kf) = &gc.case.kfn {
            forms_x(kf, false, &mut forms);
        }
        forms_x(&gc.case.dsp, false, &mut forms);
        for f in &gc.case.fns {
            forms_m(&f.body, &mut forms);
        }
        let mut classes: Vec<String> = forms.iter().map(|s| s.to_string()).collect();
        classes.push(format!("ctx:{}", gc.ctx));
        classes.extend(gc.extra.iter().cloned());
        if sites.0 > 0 {
            classes.push("use:bang".into());
        }
        if sites.1 > 0 {
            classes.push("use:splice".into());
        }
        let tuple_free = !(has_tuple(&d) || k.as_ref().map(has_tuple).unwrap_or(false));
        let wasm_leg = gc.wasm_leg && tuple_free;
        if wasm_leg {
            classes.push("wasm-leg".into());
        }
        let nonleaf = forms.iter().filter(|f| !LEAF_FORMS.contains(f)).count();
        let nontrivial = if gc.ctx == "lift" { !gc.extra.is_empty() } else { forms.len() >= 2 && nonleaf >= 1 };
        finish(&staged, alt.as_deref(), &expanded, gc.n, gc.ctx, gc.expect.map(|v| v.to_bits()), wasm_leg, classes, nontrivial, cx)
    }
    fn run_direct(&self, input: &Value, cx: &Cx) -> Option<CaseResult> {
        let staged = input.get("staged")?.as_str()?;
        let expanded = input.get("expanded")?.as_str()?;
        let alt = input.get("alt").and_then(|v| v.as_str());
        let n = input.get("n").and_then(|v| v.as_u64()).unwrap_or(4);
        let ctx = input.get("ctx").and_then(|v| v.as_str()).unwrap_or("direct");
        let expect = input.get("expect_bits").and_then(|v| v.as_u64());
        let wasm_leg = input.get("wasm").and_then(|v| v.as_bool()).unwrap_or(false);
        Some(finish(staged, alt, expanded, n, ctx, expect, wasm_leg, vec!["mode:direct".into()], true, cx))
    }
    fn rule(&self) -> String {
        "A case is (staged program, manual expansion, optional variant with every f!(args) and $(f(args)) exchanged, run length 1-8). The generator draws a staging context — (1) $(`e) in place, (2) `fn m(){ `e }` used as m!() / $(m()), (3) macros with 1-3 code parameters applied to quoted use-site code (optionally through another macro: function application at the macro stage), (4) macro-stage `let c = `e` with c spliced one or more times (in a macro function or in a `${ ... }` block), (5) numeric recursion building code (power-style, optionally returning the code of a function that the use site applies, optionally lifting the counter), (6) lift_f of macro-stage numbers (fractional, negative, tiny, large, not exactly representable in short decimal, -0/inf/NaN) — and stage-1 expressions over arithmetic, comparisons, builtins, let (single, tuple and nested tuple patterns), if, lambdas applied in place and let-bound, tuples/projection, assignment to a let-bound local, pipe application, now, samplerate, self, mem and calls of pure and stateful stage-1 helpers. Binder names are globally unique, so the manual expansion is plain substitution computed by the harness over its own AST (never by the repository's expander). Oracle (VM): the expansion must compile and run (else discard); then the staged program must compile, and every output word of every sample must be bitwise equal (NaN = NaN) to the expansion's; for context (6) dsp's output must equal the number the harness computes with the same f64 operations; the exchanged variant (run for 1/2 of the cases) must produce the same output. Secondary, labelled c09:wasm-*: the same staged-vs-expansion comparison on the WASM backend for 1/10 of the cases, tuple-free programs only, only when the plain expansion runs there. Non-trivial = >= 2 distinct AST forms (at least one non-leaf) occur inside a quote; for (6) every case. Distinct by staged source + run length.".into()
    }
    fn assumptions(&self) -> Vec<String> {
        vec![
            "the manual expansion is trusted: substitution over the harness AST with globally unique binder names (capture is C10's subject)".into(),
            "macro-stage arithmetic is + - * / on f64, evaluated by the harness with the same IEEE operations".into(),
            "a bare `self` is generated inside a quote only where the enclosing function is unambiguous: in a quote spliced in place, inside a quoted lambda, or in argument code when no template of the case puts its holes under a lambda".into(),
            "cases whose plain expansion is rejected or crashes are discarded (counted under discard:*), they say nothing about staging".into(),
        ]
    }
    fn required_classes(&self, _tier: Tier) -> Vec<&'static str> {
        vec![
            "compiled", "output-varies", "ctx:quote-splice", "ctx:macro-fn", "ctx:code-param", "ctx:let-code", "ctx:recursion", "ctx:lift", "q:binop", "q:compare", "q:if", "q:let", "q:let-tuple", "q:let-nested-tuple", "q:lambda", "q:apply", "q:let-fn",
            "q:call", "q:stateful-call", "q:builtin", "q:self", "q:mem", "q:tuple", "q:proj", "q:splice", "q:assign", "q:pipe", "q:now", "q:samplerate", "use:bang", "use:splice", "site:fn", "site:dsp", "lift:fractional", "lift:negative", "lift:tiny", "lift:large", "lift:inexact-decimal", "wasm-leg-compared",
        ]
    }
}
