//! C06 — hot-swapping an unchanged program is inaudible.

use crate::engine::case::*;
use crate::engine::rng::hash64;
use crate::engine::tape::Gen;
use crate::gens::prog::{self, Layout, PG};
use crate::props::c01::{self, gen_inputs, line_candidates};
use crate::runners::exec::{canon, Inputs};
use crate::runners::swap::{run_vm_history, run_wasm_history, SwapOut};
use serde_json::{json, Value};

pub struct C06;

pub fn prop() -> Option<&'static dyn Prop> {
    Some(&C06)
}


struct Out {
    fail: Option<(String, String)>,
    discard: Option<String>,
    state_matters: bool,
    ran: bool,
}

fn flat(steps: &[Vec<Vec<u64>>]) -> Vec<Vec<u64>> {
    steps.iter().flatten().cloned().collect()
}

fn same(a: &[Vec<u64>], b: &[Vec<u64>]) -> Option<(usize, usize)> {
    for (t, (x, y)) in a.iter().zip(b.iter()).enumerate() {
        if x.len() != y.len() {
            return Some((t, usize::MAX));
        }
        for ch in 0..x.len() {
            if canon(x[ch]) != canon(y[ch]) {
                return Some((t, ch));
            }
        }
    }
    if a.len() != b.len() { Some((a.len().min(b.len()), usize::MAX)) } else { None }
}

fn check(src: &str, inputs: &Inputs, splits: &[u64], backend: &str) -> Out {
    let mut o = Out { fail: None, discard: None, state_matters: false, ran: false };
    let total: u64 = splits.iter().sum();
    let run = |h: &[(String, u64)], start: u64| if backend == "vm" { run_vm_history(h, inputs, start) } else { run_wasm_history(h, inputs, start) };
    // uninterrupted reference run
    let base = match run(&[(src.to_string(), total)], 0) {
        SwapOut::Ran { steps, .. } => flat(&steps),
        SwapOut::FirstRejected | SwapOut::NoIo => {
            o.discard = Some("not-compilable".into());
            return o;
        }
        other => {
            // crashes of a plain run are C03's subject
            o.discard = Some(format!("plain-run:{}", kind(&other)));
            return o;
        }
    };
    o.ran = true;
    // run with swaps to fresh compilations of the same source
    let hist: Vec<(String, u64)> = splits.iter().map(|n| (src.to_string(), *n)).collect();
    match run(&hist, 0) {
        SwapOut::Ran { steps, swapped } => {
            if swapped.iter().any(|s| !*s) {
                o.fail = Some((format!("c06:{backend}:recompile-failed"), "a fresh compilation of the running source failed".into()));
                return o;
            }
            let got = flat(&steps);
            if let Some((t, ch)) = same(&base, &got) {
                let k = {
                    let mut acc = 0;
                    let mut idx = 0;
                    for (i, n) in splits.iter().enumerate() {
                        acc += n;
                        if (t as u64) < acc {
                            idx = i;
                            break;
                        }
                    }
                    idx
                };
                let (x, y) = (base.get(t).and_then(|w| w.get(ch)).copied().unwrap_or(0), got.get(t).and_then(|w| w.get(ch)).copied().unwrap_or(0));
                o.fail = Some((format!("c06:{backend}:discontinuity"), format!("sample {t} (segment {k} of splits {splits:?}) channel {ch}: uninterrupted {:?}, with swaps {:?}", f64::from_bits(x), f64::from_bits(y))));
                return o;
            }
        }
        SwapOut::Panic(stage, p) => {
            o.fail = Some((format!("c06:{backend}:panic:{}:{}", stage.split('#').next().unwrap_or(""), p.signature()), format!("{stage}: {}", p.describe())));
            return o;
        }
        SwapOut::SwapRefused(k, why) => {
            o.fail = Some((format!("c06:{backend}:swap-refused"), format!("swap {k}: {why}")));
            return o;
        }
        SwapOut::Error(e) => {
            o.fail = Some((format!("c06:{backend}:error"), e));
            return o;
        }
        SwapOut::FirstRejected | SwapOut::NoIo => {}
    }
    // does the carried state matter?  a fresh start at the first split must sound different
    let n0 = splits[0];
    if n0 > 0 && n0 < total {
        if let SwapOut::Ran { steps, .. } = run(&[(src.to_string(), total - n0)], n0) {
            let fresh = flat(&steps);
            o.state_matters = same(&base[n0 as usize..], &fresh).is_some();
        }
    }
    o
}

fn kind(s: &SwapOut) -> &'static str {
    match s {
        SwapOut::Ran { .. } => "ran",
        SwapOut::FirstRejected => "rejected",
        SwapOut::NoIo => "no-io",
        SwapOut::Panic(..) => "panic",
        SwapOut::SwapRefused(..) => "refused",
        SwapOut::Error(..) => "error",
    }
}

fn finish(src: &str, inputs: &Inputs, splits: &[u64], backend: &str, classes: Vec<String>, cx: &Cx) -> CaseResult {
    let key = format!("{src}\u{1}{}\u{1}{splits:?}\u{1}{backend}", inputs.describe());
    let hash = hash64(key.as_bytes());
    let direct = json!({"text": src, "input_kind": inputs.kind, "input_scale": inputs.scale, "splits": splits, "backend": backend});
    if cx.dry {
        let mut r = CaseResult::discard("dry");
        r.render = Some(direct.clone());
        r.direct = Some(direct);
        return r;
    }
    let o = check(src, inputs, splits, backend);
    if let Some(w) = o.discard {
        return CaseResult::discard(w);
    }
    let mut r = match &o.fail {
        Some((s, m)) => CaseResult::fail(hash, s.clone(), m.clone()),
        None => CaseResult::held(hash),
    };
    r.classes = classes;
    r.classes.push(format!("backend:{backend}"));
    r.classes.push(format!("swaps:{}", splits.len() - 1));
    if splits[0] == 0 {
        r.classes.push("swap-at-0".into());
    }
    if o.state_matters {
        r.classes.push("state-matters".into());
    }
    r.nontrivial = o.state_matters || r.is_fail();
    if cx.render || r.is_fail() {
        r.render = Some(direct.clone());
    }
    r.direct = Some(direct);
    r
}

impl Prop for C06 {
    fn id(&self) -> &'static str {
        "C06"
    }
    fn spaces(&self, tier: Tier) -> Vec<Space> {
        match tier {
            Tier::Quick => vec![
                Space { name: "vm", size: 8000, exhaustive: false, chunk: 100, case_timeout_s: 60.0, what: "generated stateful programs x split points x 1-4 swaps on the VM" },
                Space { name: "wasm", size: 1600, exhaustive: false, chunk: 20, case_timeout_s: 120.0, what: "the same on the WASM runtime (payload built by the CLI's own builder)" },
            ],
            Tier::Thorough => vec![
                Space { name: "vm", size: 150_000, exhaustive: false, chunk: 200, case_timeout_s: 60.0, what: "generated stateful programs x split points x 1-4 swaps on the VM" },
                Space { name: "wasm", size: 36_000, exhaustive: false, chunk: 40, case_timeout_s: 120.0, what: "the same on the WASM runtime (payload built by the CLI's own builder)" },
            ],
        }
    }
    fn run(&self, space: &str, _index: u64, g: &mut Gen, cx: &Cx) -> CaseResult {
        let (mut cfg, off) = c01::pcfg(cx);
        // the statement's domain: signal state in self/mem/delay reachable from dsp
        cfg.makers = false;
        // globals are re-initialised by re-running main at swap time: a global computed from `now`
        // legitimately changes, so globals are left out of this property's programs
        cfg.globals = false;
        cfg.max_fns = 4;
        let mut pg = PG::new(g, cfg);
        let mut p = pg.program();
        let feat = pg.feat.clone();
        // a state cell that stays untouched until a gate opens (the WASM host sizes its state
        // buffer by the highest word touched so far)
        let gated = g.bool(1, 3) && prog::add_tail_gate(&mut p, g.int(1, 14) as u32);
        let src = prog::render(&p, &Layout::default());
        let inputs = gen_inputs(g);
        let k = g.int(1, 4) as usize;
        let mut splits: Vec<u64> = vec![];
        let first = g.int(0, 12) as u64;
        splits.push(first);
        for _ in 0..k {
            splits.push(g.int(1, 12) as u64);
        }
        let mut classes = feat.classes();
        if gated {
            classes.push("tail-gated-state".into());
        }
        let mut r = finish(&src, &inputs, &splits, space, classes, cx);
        for id in off {
            r.count(&format!("generator_switch_off:{id}"), 1);
        }
        r
    }
    fn run_direct(&self, input: &Value, cx: &Cx) -> Option<CaseResult> {
        let t = input.get("text")?.as_str()?;
        let inputs = Inputs { kind: input.get("input_kind").and_then(|v| v.as_u64()).unwrap_or(1) as u8, scale: input.get("input_scale").and_then(|v| v.as_f64()).unwrap_or(1.0) };
        let splits: Vec<u64> = input.get("splits")?.as_array()?.iter().filter_map(|v| v.as_u64()).collect();
        let backend = input.get("backend").and_then(|v| v.as_str()).unwrap_or("vm").to_string();
        if splits.len() < 2 {
            return None;
        }
        Some(finish(t, &inputs, &splits, &backend, vec![], cx))
    }
    fn shrink_direct(&self, input: &Value) -> Vec<Value> {
        let Some(t) = input.get("text").and_then(|v| v.as_str()) else { return vec![] };
        let mut out = vec![];
        if let Some(sp) = input.get("splits").and_then(|v| v.as_array()) {
            let sp: Vec<u64> = sp.iter().filter_map(|v| v.as_u64()).collect();
            if sp.len() > 2 {
                let mut v = input.clone();
                v["splits"] = json!(sp[..sp.len() - 1].to_vec());
                out.push(v);
            }
            for i in 0..sp.len() {
                if sp[i] > 1 {
                    let mut s2 = sp.clone();
                    s2[i] = sp[i] / 2;
                    let mut v = input.clone();
                    v["splits"] = json!(s2);
                    out.push(v);
                }
            }
        }
        for s in line_candidates(t).into_iter().chain(crate::engine::shrink::text_candidates(t)) {
            let mut v = input.clone();
            v["text"] = json!(s);
            out.push(v);
        }
        out
    }
    fn rule(&self) -> String {
        "Cases are (program, input stream, split points n0,n1,..,nk with 1-4 swaps, backend). Programs come from the core-language generator without closures that hold state created by main (the statement's domain: state in self/mem/delay reachable from dsp). Oracle (metamorphic): run n0 samples, hot-swap to a fresh compilation of the same source through DspRuntime::try_hot_swap (VM: emit_bytecode on the same compiler context; WASM: payload from the CLI's own prewarm/patch-plan builder), run n1 more, ... — every output word must equal the uninterrupted run of n0+..+nk samples with time continuing; try_hot_swap returning false or panicking is a failure. Non-trivial = the carried state matters: a fresh start at the first split sounds different from the uninterrupted run.".into()
    }
    fn assumptions(&self) -> Vec<String> {
        vec!["the WASM payload is built in-process by mimium_cli::verif_prepare_wasm_hot_swap (hook) = the private FileRunner::{try_prewarm_wasm_global_state, build_required_state_patch_plan}; the CLI's subprocess path (new skeleton = None) is out of reach".into()]
    }
    fn required_classes(&self, _tier: Tier) -> Vec<&'static str> {
        vec!["backend:vm", "backend:wasm", "state-matters", "swaps:1", "swaps:3", "f:delay", "f:self", "f:mem", "f:stateful-call"]
    }
}
