//! C10 — macro expansion respects lexical scope across stages (hygiene).
//!
//! Metamorphic oracle: a program P that uses macros whose quoted bodies bind locals, and P' = P with
//! those binders consistently renamed to globally fresh names, must be accepted alike and produce
//! bitwise equal output.  Secondary: P equals its capture-avoiding hand expansion (computed by the
//! harness, `c09_stage.rs`).

use crate::engine::case::*;
use crate::engine::rng::hash64;
use crate::engine::tape::Gen;
use crate::runners::exec::{self, canon, Exec, Inputs, RunOpts};
use serde_json::{json, Value};
use std::collections::BTreeSet;

#[path = "c09_stage.rs"]
mod stage;
use stage::*;

pub struct C10;

pub fn prop() -> Option<&'static dyn Prop> {
    Some(&C10)
}

/// a binder inside a quoted macro body captures same-named free variables of code spliced in its scope
pub const KF_SPLICE: &str = "C10-spliced-code-captured-by-macro-binder";
/// a `let` inside a `{}` block stays visible after the block (plain and generated code alike), so a
/// macro's local captures later mentions of the name in the surrounding code
pub const KF_LEAK: &str = "C10-block-let-leaks-into-enclosing-scope";
/// `self` is a reference to a variable literally named feed_id<depth>; a user/macro binder of that name captures it
pub const KF_FEED: &str = "C10-variable-named-feed-id-captures-self";
/// nested tuple patterns inside quotes are flattened through temporaries named __dt<n>
pub const KF_DT: &str = "C10-tuple-pattern-temp-captures-user-variable";
/// record update inside a quote binds a temporary named record_update_temp
pub const KF_RECUPD: &str = "C10-record-update-temp-captures-user-variable";

enum Got {
    Ran(Vec<Vec<u64>>),
    Rejected(String),
    Panic(String, String),
    Other(String),
}

fn vm(src: &str, n: u64) -> Got {
    match exec::run_vm(src, &Inputs { kind: 0, scale: 1.0 }, &RunOpts { n, sched: false, want_state: false, want_counts: false, want_trace: false }) {
        Exec::Ran(r) => Got::Ran(r.samples),
        Exec::Rejected(d) => Got::Rejected(d.iter().map(|x| x.message.clone()).collect::<Vec<_>>().join(" | ")),
        Exec::Panic(stage, p) => Got::Panic(format!("{}:{}", if stage.starts_with("dsp@") { "dsp" } else { stage.as_str() }, p.signature()), format!("{stage}: {}", p.describe())),
        Exec::NoIo => Got::Other("no dsp I/O information".into()),
        Exec::Error(s, e) => Got::Other(format!("{s}: {e}")),
    }
}

fn first_diff(a: &[Vec<u64>], b: &[Vec<u64>]) -> Option<String> {
    if a.len() != b.len() {
        return Some(format!("{} samples vs {}", a.len(), b.len()));
    }
    for (t, (x, y)) in a.iter().zip(b.iter()).enumerate() {
        if x.len() != y.len() {
            return Some(format!("sample {t}: {} channels vs {}", x.len(), y.len()));
        }
        for ch in 0..x.len() {
            if canon(x[ch]) != canon(y[ch]) {
                return Some(format!("sample {t} channel {ch}: {:?} vs {:?}", f64::from_bits(x[ch]), f64::from_bits(y[ch])));
            }
        }
    }
    None
}

struct Outc {
    fail: Option<(String, String)>,
    discard: Option<String>,
    compiled: bool,
    both_rejected: bool,
    hygienic_compared: bool,
}

/// `sig_differs`: signature when the outputs differ after renaming.
fn judge(p: &str, renamed: &str, hygienic: Option<&str>, n: u64, sig_differs: &str, sig_accept: &str, model: &str) -> Outc {
    let mut o = Outc { fail: None, discard: None, compiled: false, both_rejected: false, hygienic_compared: false };
    macro_rules! fail {
        ($sig:expr, $($arg:tt)*) => {{ o.fail = Some(($sig.to_string(), format!($($arg)*))); return o; }};
    }
    let a = vm(p, n);
    let b = vm(renamed, n);
    let sa = match (&a, &b) {
        (Got::Ran(x), Got::Ran(y)) => {
            o.compiled = true;
            if let Some(d) = first_diff(x, y) {
                fail!(sig_differs, "renaming the binder(s) changes the output: original vs renamed: {d}");
            }
            x.clone()
        }
        (Got::Rejected(_), Got::Rejected(_)) => {
            o.both_rejected = true;
            return o;
        }
        (Got::Panic(s1, _), Got::Panic(s2, _)) if s1 == s2 => {
            o.discard = Some(format!("both-crash:{s1}"));
            return o;
        }
        (Got::Other(w), Got::Other(_)) => {
            o.discard = Some(format!("both-unusable:{}", crate::engine::panics::normalise(w)));
            return o;
        }
        (Got::Rejected(d), Got::Ran(_)) => fail!(sig_accept, "the original is rejected ({d}), the renamed program compiles and runs"),
        (Got::Ran(_), Got::Rejected(d)) => fail!(sig_accept, "the original compiles and runs, the renamed program is rejected ({d})"),
        // (in the probes of compiler-synthesised names a crash caused by the collision keeps the probe's signature)
        (Got::Panic(s, d), Got::Ran(_)) => fail!(if sig_accept.starts_with("c10:compiler-temp-capture") { sig_accept.to_string() } else { format!("c10:panic:{s}") }, "the original panics at {d}; the renamed program compiles and runs"),
        (Got::Ran(_), Got::Panic(s, d)) => fail!(if sig_accept.starts_with("c10:compiler-temp-capture") { sig_accept.to_string() } else { format!("c10:panic:{s}") }, "the renamed program panics at {d}; the original compiles and runs"),
        (x, y) => fail!(sig_accept, "original: {}; renamed: {}", kind(x), kind(y)),
    };
    if let Some(h) = hygienic {
        if let Got::Ran(sh) = vm(h, n) {
            o.hygienic_compared = true;
            if let Some(d) = first_diff(&sa, &sh) {
                fail!(format!("c10:differs-from-hygienic-expansion:{model}"), "program vs its capture-avoiding hand expansion: {d}");
            }
        }
    }
    o
}

fn kind(g: &Got) -> String {
    match g {
        Got::Ran(_) => "runs".into(),
        Got::Rejected(d) => format!("rejected ({d})"),
        Got::Panic(_, d) => format!("panics ({d})"),
        Got::Other(w) => format!("unusable ({w})"),
    }
}

struct G10 {
    case: Case,
    hyg: (Option<X>, X),
    /// capture predicted by name-based substitution with proper block scoping
    cap_splice: Option<&'static str>,
    /// capture predicted once `let` leaks out of blocks
    cap_leak: Option<&'static str>,
    /// capture of `self` by a binder named feed_id<depth>
    cap_feed: Option<&'static str>,
    /// a nested tuple pattern occurs (the whole staged program is quoted code) and the name __dt0 is used: the outcome depends on
    /// how many such patterns this thread has translated before (temporaries are named __dt<counter>)
    dt_sensitive: bool,
    n: u64,
    in_fn: bool,
    avoided: u64,
}

fn bodies<'a>(e: &'a (Option<X>, X)) -> Vec<&'a X> {
    let mut v: Vec<&X> = vec![];
    if let Some(k) = &e.0 {
        v.push(k);
    }
    v.push(&e.1);
    v
}

fn gen10(g: &mut Gen, avoid_splice: bool) -> Option<G10> {
    let mut sg = SG::new(g, true);
    sg.lam_templates = true;
    sg.max_num = 3;
    let mut uses = vec![];
    let nm = 1 + sg.g.bool(1, 3) as usize;
    for _ in 0..nm {
        let u = sg.add_param_macro();
        uses.push(u);
    }
    if sg.g.bool(1, 6) {
        uses.push(sg.add_letcode_macro());
    }
    // use the last macro always, the earlier ones sometimes
    let last = uses.pop().unwrap();
    sg.uses.push(last);
    for u in uses {
        if sg.g.coin() {
            sg.uses.push(u);
        }
    }
    if avoid_splice {
        let mut bs = vec![];
        for f in &sg.fns {
            binders_m(&f.body, &mut bs);
        }
        sg.avoid = bs.into_iter().map(|b| b.0).collect();
    }
    let in_fn = sg.g.bool(1, 4);
    let body = sg.top_body(in_fn);
    let case = sg.finish(body, in_fn);
    let avoided = sg.avoided;
    let n = *g.pick(&[3u64, 1, 2, 4]);
    let naive = expand(&case, false).ok()?;
    let hyg = expand(&case, true).ok()?;
    let rh = resolve(&bodies(&hyg), false, false);
    let cap_splice = capture_kind(&resolve(&bodies(&naive), false, false), &rh);
    let cap_leak = capture_kind(&resolve(&bodies(&naive), true, false), &rh);
    let cap_feed = capture_kind(&resolve(&bodies(&naive), true, true), &rh);
    let mut forms = BTreeSet::new();
    // a program with staging constructs is quoted as a whole, so every nested tuple pattern counts
    if let Some(k) = &case.kfn {
        forms_x(k, true, &mut forms);
    }
    forms_x(&case.dsp, true, &mut forms);
    for f in &case.fns {
        forms_m(&f.body, &mut forms);
    }
    let dt_sensitive = forms.contains("q:let-nested-tuple") && render_staged(&case, false).contains("__dt0");
    Some(G10 { case, hyg, cap_splice, cap_leak, cap_feed, dt_sensitive, n, in_fn, avoided })
}

fn finish(p: &str, renamed: &str, hygienic: Option<&str>, n: u64, sig_differs: &str, sig_accept: &str, classes: Vec<String>, nontrivial: bool, cx: &Cx) -> CaseResult {
    let key = format!("{p}\u{1}{n}");
    let hash = hash64(key.as_bytes());
    let direct = json!({"p": p, "renamed": renamed, "hygienic": hygienic, "n": n, "sig_differs": sig_differs, "sig_accept": sig_accept});
    if cx.dry {
        let mut r = CaseResult::discard("dry");
        r.render = Some(direct.clone());
        r.direct = Some(direct);
        return r;
    }
    let model = match sig_differs.split(':').nth(1).unwrap_or("") {
        "capture" if sig_differs.ends_with(":unmodelled") => "unmodelled",
        "capture" => "substitution",
        "scope-leak" => "block-leak",
        "self-captured" => "self",
        "compiler-temp-capture" => "compiler-temp",
        _ => "unmodelled",
    };
    let o = judge(p, renamed, hygienic, n, sig_differs, sig_accept, model);
    if let Some(w) = &o.discard {
        let mut r = CaseResult::discard(w.split(':').next().unwrap_or("discard").to_string());
        r.count(&format!("discard:{w}"), 1);
        r.direct = Some(direct);
        return r;
    }
    let mut r = match &o.fail {
        Some((s, m)) => CaseResult::fail(hash, s.clone(), m.clone()),
        None => CaseResult::held(hash),
    };
    r.classes = classes;
    if o.compiled {
        r.classes.push("compiled".into());
    }
    if o.both_rejected {
        r.classes.push("both-rejected".into());
    }
    if o.hygienic_compared {
        r.classes.push("hygienic-expansion-compared".into());
    }
    r.nontrivial = (nontrivial && o.compiled) || r.is_fail();
    if cx.render || r.is_fail() {
        r.render = Some(direct.clone());
    }
    r.direct = Some(direct);
    r
}


// ---- function-valued binders (letrec / let-bound lambda / local fn) whose right-hand side splices ----

/// A program in which a function-valued binder `B` of quoted code has a splice (or a macro call)
/// in its right-hand side, and the code that arrives through the splice mentions an outer variable
/// `N`.  `B` does not call itself, so `letrec B` binds like `let B`: the right-hand side is outside
/// the binder's scope and `N` in it must keep meaning the outer variable whatever `B` is called.
/// Returns (source with @B@ for the binder, class labels).
fn gen_rec(g: &mut Gen) -> (String, Vec<String>) {
    let mut cl = vec![];
    let shape = g.below(4);
    // (a quote spliced in place is written inside the right-hand side itself, where a `letrec`
    // binder is in scope by definition: only `let` is meaningful there)
    let kw = if shape == 3 { "let" } else { *g.pick(&["letrec", "let"]) };
    cl.push(format!("rec:binder:{kw}"));
    let user_v = *g.pick(&["100.0", "0.25", "7.0"]);
    let c1 = *g.pick(&["1.0", "0.5", "3.0"]);
    let cont = match g.below(3) {
        0 => format!("@B@({c1})"),
        1 => format!("(@B@({c1}) + @B@(2.0))"),
        _ => format!("{{\n      let r = @B@({c1})\n      r * 2.0\n    }}"),
    };
    let src = match shape {
        0 => {
            // numeric argument spliced into the binder's right-hand side
            cl.push("rec:shape:number-argument".into());
            let rhs = match g.below(4) {
                0 => "x + $a".to_string(),
                1 => "($a * x) - 1.0".to_string(),
                2 => "if (x > 2.0) { $a } else { x + $a }".to_string(),
                _ => "{\n        let q = $a\n        q + x\n      }".to_string(),
            };
            let arg = match g.below(3) {
                0 => "@N@".to_string(),
                1 => "(@N@ + 1.0)".to_string(),
                _ => "(@N@ * @N@)".to_string(),
            };
            format!("#stage(macro)\nfn mac(a) {{\n  `{{\n    {kw} @B@ = |x| {{ {rhs} }}\n    {cont}\n  }}\n}}\n#stage(main)\nfn dsp() {{\n  let @N@ = {user_v}\n  mac!(`{arg})\n}}\n")
        }
        1 => {
            // function argument called inside the binder's right-hand side
            cl.push("rec:shape:function-argument".into());
            let rhs = match g.below(2) {
                0 => "if (x > 2.0) { 0.0 } else { 1.0 + ($a)(x + 1.0) }".to_string(),
                _ => "($a)(x) + x".to_string(),
            };
            format!("#stage(macro)\nfn mac(a) {{\n  `{{\n    {kw} @B@ = |x| {{ {rhs} }}\n    {cont}\n  }}\n}}\n#stage(main)\nfn dsp() {{\n  let @N@ = |y| y * 10.0\n  mac!(`@N@)\n}}\n")
        }
        2 => {
            // the user's own function-valued binder around an expansion whose body mentions a global
            cl.push("rec:shape:surrounding-code".into());
            let rhs = match g.below(2) {
                0 => "if (x > 2.0) { 0.0 } else { 1.0 + scaled!(`(x + 1.0)) }".to_string(),
                _ => "scaled!(`x) + x".to_string(),
            };
            format!("#stage(main)\nfn @N@(x) {{ x * 10.0 }}\n#stage(macro)\nfn scaled(sig) {{ `{{ @N@($sig) }} }}\n#stage(main)\nfn dsp() {{\n  {kw} @B@ = |x| {{ {rhs} }}\n  {cont}\n}}\n")
        }
        _ => {
            // quote-and-splice in place, no macro function
            cl.push("rec:shape:quote-in-place".into());
            let rhs = match g.below(2) {
                0 => "x + $(`@N@)".to_string(),
                _ => "$(`(@N@ * x)) - 1.0".to_string(),
            };
            format!("fn dsp() {{\n  let @N@ = {user_v}\n  {kw} @B@ = |x| {{ {rhs} }}\n  {cont}\n}}\n")
        }
    };
    (src, cl)
}

// ---- hand-written probes of names the compiler itself synthesises (space "temps") ----------

struct Probe {
    label: &'static str,
    name: &'static str,
    kf: &'static str,
    /// source with @N@ where the user's variable is named
    tpl: &'static str,
}

const PROBES: &[Probe] = &[
    Probe { label: "dt-in-argument", name: "__dt0", kf: KF_DT, tpl: "#stage(macro)\nfn m(a){\n  `{\n    let ((p, q), r) = ((1.0, 2.0), 3.0)\n    (p + $a)\n  }\n}\n#stage(main)\nfn dsp(){\n  let @N@ = 100.0\n  m!(`@N@)\n}\n" },
    Probe { label: "dt-after-expansion", name: "__dt0", kf: KF_DT, tpl: "#stage(macro)\nfn m(a){\n  `{\n    let ((p, q), r) = ((1.0, 2.0), 3.0)\n    (p + $a)\n  }\n}\n#stage(main)\nfn dsp(){\n  let @N@ = 100.0\n  let u = m!(`1.0)\n  (u + @N@)\n}\n" },
    Probe { label: "dt-quote-in-place", name: "__dt0", kf: KF_DT, tpl: "fn dsp(){\n  let @N@ = 100.0\n  $(`{\n    let ((p, q), r) = ((1.0, 2.0), 3.0)\n    (p + @N@)\n  })\n}\n" },
    Probe { label: "dt-lambda-scope", name: "__dt0", kf: KF_DT, tpl: "#stage(macro)\nfn m(a){\n  `((|z| {\n    let ((p, q), r) = ((z, 2.0), 3.0)\n    (p + $a)\n  })(1.0))\n}\n#stage(main)\nfn dsp(){\n  let @N@ = 100.0\n  m!(`@N@)\n}\n" },
    Probe { label: "feed-in-macro-body", name: "feed_id0", kf: KF_FEED, tpl: "#stage(macro)\nfn m(a){\n  `{\n    let @N@ = 10.0\n    ($a + @N@)\n  }\n}\n#stage(main)\nfn dsp(){\n  m!(`(self + 1.0))\n}\n" },
    Probe { label: "feed-quote-in-place", name: "feed_id0", kf: KF_FEED, tpl: "fn dsp(){\n  $(`{\n    let @N@ = 10.0\n    ((self + 1.0) + @N@)\n  })\n}\n" },
    Probe { label: "feed-lambda-depth-1", name: "feed_id1", kf: KF_FEED, tpl: "#stage(macro)\nfn m(a){\n  `((|@N@| (self + @N@) + $a)(1.0))\n}\n#stage(main)\nfn dsp(){\n  m!(`2.0)\n}\n" },
    Probe { label: "lambda-arg-macro-pipe", name: "__lambda_arg_0", kf: "", tpl: "fn h2(x, y){\n  x - y * 0.25\n}\nfn dsp(){\n  let @N@ = 2.0\n  @N@ ||> h2(_, @N@)\n}\n" },
    Probe { label: "lambda-arg-macro-pipe-in-quote", name: "__lambda_arg_0", kf: "", tpl: "fn h2(x, y){\n  x - y * 0.25\n}\n#stage(macro)\nfn m(a){\n  `{\n    let @N@ = 2.0\n    ($a ||> h2(_, @N@))\n  }\n}\n#stage(main)\nfn dsp(){\n  m!(`3.0)\n}\n" },
    Probe { label: "record-update-in-macro", name: "record_update_temp", kf: KF_RECUPD, tpl: "#stage(macro)\nfn m(a){\n  `{\n    let r = {a = 1.0, b = 2.0}\n    let r2 = {r <- a = $a}\n    r2.a\n  }\n}\n#stage(main)\nfn dsp(){\n  let @N@ = 5.0\n  m!(`@N@)\n}\n" },
    // controls: an ordinary name in the same places must (and does) behave
    Probe { label: "control-ordinary-name", name: "t", kf: "", tpl: "fn dsp(){\n  let @N@ = 100.0\n  $(`{\n    let ((p, q), r) = ((1.0, 2.0), 3.0)\n    (p + @N@)\n  })\n}\n" },
];

impl Prop for C10 {
    fn id(&self) -> &'static str {
        "C10"
    }
    fn spaces(&self, tier: Tier) -> Vec<Space> {
        let a = "macros whose quoted bodies bind locals (let, tuple patterns, lambda parameters) around or next to splices, used from code whose names come from a small colliding pool; original vs binder-renamed program";
        let b = "the same generator restricted (by re-drawing) to programs for which name-based substitution with the repository's known scoping agrees with capture-avoiding expansion: collisions that must be harmless";
        let c = "hand-written probes of compiler-synthesised names (__dt0, feed_id0, __lambda_arg_0, record_update_temp), one fresh process per case; the user's variable is renamed";
        let (na, nb) = match tier {
            Tier::Quick => (6000, 6000),
            Tier::Thorough => (120_000, 280_000),
        };
        vec![
            Space { name: "all", size: na, exhaustive: false, chunk: 100, case_timeout_s: 30.0, what: a },
            Space { name: "agree", size: nb, exhaustive: false, chunk: 100, case_timeout_s: 30.0, what: b },
            Space { name: "temps", size: PROBES.len() as u64, exhaustive: true, chunk: 1, case_timeout_s: 30.0, what: c },
            Space { name: "rec", size: if tier == Tier::Quick { 1500 } else { 30_000 }, exhaustive: false, chunk: 100, case_timeout_s: 30.0, what: "function-valued binders of quoted code (letrec / let-bound lambda, in a macro body, in the user's code around an expansion, next to a quote spliced in place) whose right-hand side contains the splice, named like the outer variable the spliced code mentions; clashing vs fresh binder name" },
        ]
    }
    fn run(&self, space: &str, index: u64, g: &mut Gen, cx: &Cx) -> CaseResult {
        if space == "temps" {
            let Some(pr) = PROBES.get(index as usize) else { return CaseResult::discard("index") };
            let p = pr.tpl.replace("@N@", pr.name);
            let renamed = pr.tpl.replace("@N@", "w9");
            let sig = format!("c10:compiler-temp-capture:{}", pr.name);
            let mut r = finish(&p, &renamed, None, 3, &sig, &sig, vec![format!("probe:{}", pr.label), format!("name:{}", pr.name)], true, cx);
            // a crash or rejection of the original caused by the collision is the same root cause
            if let Status::Fail { sig: s, .. } = &r.status {
                let same_root = *s == sig;
                if !cx.strict && !pr.kf.is_empty() && cx.excluded(pr.kf) && same_root {
                    let mut h = CaseResult::held(r.hash);
                    h.classes = std::mem::take(&mut r.classes);
                    h.classes.push("tolerated-known-finding".into());
                    h.direct = r.direct.take();
                    h.count(&format!("excluded_by_known_finding:{}", pr.kf), 1);
                    h.nontrivial = true;
                    return h;
                }
            }
            return r;
        }
        if space == "rec" {
            let (tpl, mut classes) = gen_rec(g);
            let name = *g.pick(&["t", "u", "acc", "gain", "w"]);
            let n = *g.pick(&[2u64, 1, 3]);
            let p = tpl.replace("@N@", name).replace("@B@", name);
            let renamed = tpl.replace("@N@", name).replace("@B@", "zz9");
            classes.push(format!("name:{name}"));
            classes.push("mode:rec".into());
            return finish(&p, &renamed, None, n, "c10:capture:function-binder-rhs", "c10:accept-differs:function-binder-rhs", classes, true, cx);
        }
        let active = |kf: &str| !cx.strict && cx.excluded(kf);
        let agree = space == "agree";
        let mut counters: Vec<(String, u64)> = vec![];
        let mut bump = |k: String| {
            if let Some(e) = counters.iter_mut().find(|(kk, _)| *kk == k) {
                e.1 += 1;
            } else {
                counters.push((k, 1));
            }
        };
        let mut chosen: Option<G10> = None;
        let tries = if agree { 40 } else { 1 };
        for _ in 0..tries {
            // in the restricted space the generator itself keeps macro binder names out of argument code
            // (never dependent on strictness: a tape always decodes to the same case)
            let Some(c) = gen10(g, agree) else {
                bump("generator-error".into());
                continue;
            };
            if c.avoided > 0 {
                bump("draws-with-a-name-withheld-from-argument-code".into());
            }
            if agree {
                if c.cap_splice.is_some() || c.cap_leak.is_some() || c.cap_feed.is_some() || c.dt_sensitive {
                    bump("redrawn:model-predicts-capture".into());
                    continue;
                }
            }
            chosen = Some(c);
            break;
        }
        let Some(c) = chosen else {
            let mut r = CaseResult::discard("no-draw");
            r.counters = counters;
            return r;
        };
        // known-finding exclusions (space "all"): skip the cases whose outcome the known defects decide
        let verdict_kf = if c.cap_splice.is_some() {
            Some(KF_SPLICE)
        } else if c.cap_leak.is_some() {
            Some(KF_LEAK)
        } else if c.cap_feed.is_some() {
            Some(KF_FEED)
        } else if c.dt_sensitive {
            Some(KF_DT)
        } else {
            None
        };
        if let Some(kf) = verdict_kf {
            if active(kf) {
                let mut r = CaseResult::discard("excluded-by-known-finding");
                r.counters = counters;
                r.count(&format!("excluded_by_known_finding:{kf}"), 1);
                return r;
            }
        }
        let p = render_staged(&c.case, false);
        let renamed_case = Case { fns: rename_macro_binders(&c.case.fns), ..c.case.clone() };
        let renamed = render_staged(&renamed_case, false);
        let hygienic = render_plain(&c.hyg.0, &c.hyg.1);
        // class labels and the non-triviality rule
        let mut mb: Vec<(String, &'static str)> = vec![];
        for f in &c.case.fns {
            binders_m(&f.body, &mut mb);
        }
        let mnames: BTreeSet<String> = mb.iter().map(|b| b.0.clone()).collect();
        let mut surround: BTreeSet<String> = BTreeSet::new();
        if let Some(k) = &c.case.kfn {
            names_x(k, &mut surround);
        }
        names_x(&c.case.dsp, &mut surround);
        let mut free_in_args: BTreeSet<String> = BTreeSet::new();
        collect_arg_fv(&c.case.dsp, &mut free_in_args);
        if let Some(k) = &c.case.kfn {
            collect_arg_fv(k, &mut free_in_args);
        }
        let mut classes: Vec<String> = vec![];
        for k in mb.iter().map(|b| b.1).collect::<BTreeSet<_>>() {
            classes.push(format!("binder:{k}"));
        }
        let col_s: Vec<&String> = mnames.intersection(&surround).collect();
        let col_a: Vec<&String> = mnames.intersection(&free_in_args).collect();
        if !col_s.is_empty() {
            classes.push("collide:surrounding-code".into());
        }
        if !col_a.is_empty() {
            classes.push("collide:spliced-argument".into());
        }
        for nme in col_s.iter().chain(col_a.iter()) {
            classes.push(format!("name:{nme}"));
        }
        classes.sort();
        classes.dedup();
        classes.push(format!("site:{}", if c.in_fn { "fn" } else { "dsp" }));
        if c.cap_splice.is_some() {
            classes.push("model:capture-by-substitution".into());
        } else if c.cap_leak.is_some() {
            classes.push("model:capture-by-block-leak".into());
        } else if c.cap_feed.is_some() {
            classes.push("model:capture-of-self".into());
        } else {
            classes.push("model:no-capture".into());
        }
        let nontrivial = !col_s.is_empty() || !col_a.is_empty();
        let sig = match (c.cap_splice, c.cap_leak, c.cap_feed) {
            (Some(k), _, _) => format!("c10:capture:{k}"),
            (None, Some(k), _) => format!("c10:scope-leak:{k}"),
            (None, None, Some(k)) => format!("c10:self-captured:{k}"),
            _ if c.dt_sensitive => "c10:compiler-temp-capture:__dt0".to_string(),
            _ => "c10:capture:unmodelled".to_string(),
        };
        // the hand expansion is only an oracle where the known defects of the plain language do not
        // already decide it: it is compared whenever the model predicts no capture, and in strict mode
        let mut r = finish(&p, &renamed, Some(&hygienic), c.n, &sig, "c10:accept-differs", classes, nontrivial, cx);
        for (k, v) in counters {
            r.count(&k, v);
        }
        r
    }
    fn run_direct(&self, input: &Value, cx: &Cx) -> Option<CaseResult> {
        let p = input.get("p")?.as_str()?;
        let renamed = input.get("renamed")?.as_str()?;
        let hyg = input.get("hygienic").and_then(|v| v.as_str());
        let n = input.get("n").and_then(|v| v.as_u64()).unwrap_or(3);
        let sd = input.get("sig_differs").and_then(|v| v.as_str()).unwrap_or("c10:capture:direct");
        let sa = input.get("sig_accept").and_then(|v| v.as_str()).unwrap_or("c10:accept-differs");
        Some(finish(p, renamed, hyg, n, sd, sa, vec!["mode:direct".into()], true, cx))
    }
    fn rule(&self) -> String {
        "Spaces `all` and `agree`: a case is a program with 1-3 `#stage(macro)` functions with code parameters whose quoted bodies bind locals (let, tuple and nested tuple patterns, lambda parameters, let-bound functions) around or next to their splices (optionally handing their parameters on to another macro or through a macro-stage let), used 1-3 times from dsp or from a stage-1 function; every binder name in the macro bodies, the argument code and the surrounding code is drawn from a pool of 9 names (t, x, acc, y, the compiler's own __dt0, feed_id0, __lambda_arg_0, record_update_temp, and g0 — a stage-1 global that macro bodies mention free, so the surrounding code can also capture a macro's free variable), so collisions are the norm. P' = P with every binder inside the macro bodies renamed to a globally fresh name (scope-aware renaming by the harness). Oracle (VM): P and P' are accepted alike and every output word of 1-4 samples is bitwise equal; secondary: P equals its capture-avoiding expansion computed by the harness (every binder instantiation fresh). The harness also computes what name-based substitution would bind (with proper block scoping, with the repository's leaking block scoping, and with `self` as a variable named feed_id<depth>); a disagreement with the capture-avoiding binding structure attributes a failure to a known root cause (signature c10:capture:<binder kind> / c10:scope-leak:<kind> / c10:self-captured:<kind>), and in non-strict mode such cases are skipped and counted. Space `agree` re-draws until those models predict no capture (a domain restriction, independent of strictness), so every collision in it must be harmless; a failure there is an unmodelled defect. Space `temps`: hand-written programs in which a user variable carries a name the compiler synthesises inside quoted code; the user's variable is renamed (each case in a fresh process because the __dt counter is per thread). Space `rec`: programs in which a function-valued binder of quoted code (`letrec B = |x| ..` that does not call itself, or `let B = |x| ..`; inside a macro body, in the user's code around an expansion, or next to a quote spliced in place) has the splice in its right-hand side and is named like the outer variable that the spliced code mentions (a number, a lambda, or a global function the macro body calls); the right-hand side lies outside the binder's scope, so the clashing name and a fresh one must give the same outputs. Non-trivial = the program compiled and a macro-body binder's name occurs free in a spliced argument or anywhere in the surrounding code. Distinct by source + run length.".into()
    }
    fn assumptions(&self) -> Vec<String> {
        vec![
            "scope-aware renaming and capture-avoiding expansion are done by the harness over its own AST (trusted)".into(),
            "argument code contains no bare `self` (its owner would change when spliced under a quoted lambda)".into(),
            "the binding models used for attribution/exclusion (name-based substitution; let visible until the end of the enclosing function; self = feed_id<lambda depth>) describe recorded findings, they are not the oracle".into(),
            "both-rejected programs count as agreement".into(),
        ]
    }
    fn required_classes(&self, _tier: Tier) -> Vec<&'static str> {
        vec![
            "compiled", "binder:let", "binder:lambda", "binder:tuple", "binder:nested-tuple", "binder:let-fn", "collide:surrounding-code", "model:no-capture", "hygienic-expansion-compared", "site:fn", "site:dsp", "name:t", "name:__dt0", "name:feed_id0", "name:__lambda_arg_0",
            "name:record_update_temp", "probe:dt-in-argument", "probe:feed-in-macro-body", "probe:record-update-in-macro", "probe:lambda-arg-macro-pipe", "probe:control-ordinary-name", "rec:binder:letrec", "rec:binder:let", "rec:shape:number-argument", "rec:shape:function-argument", "rec:shape:surrounding-code", "rec:shape:quote-in-place",
        ]
    }
}

/// free names of the quoted arguments handed to macro calls
fn collect_arg_fv(x: &X, out: &mut BTreeSet<String>) {
    fn m(mm: &M, out: &mut BTreeSet<String>) {
        match mm {
            M::Call(_, args, _) => {
                for a in args {
                    if let A::C(am) = a {
                        fv_m(am, &mut vec![], out);
                    }
                }
            }
            M::Quote(x) => collect_arg_fv(x, out),
            M::Let(_, a, b) | M::IfN(_, a, b) => {
                m(a, out);
                m(b, out);
            }
            M::CVar(_) | M::Lift(..) => {}
        }
    }
    match x {
        X::Num(_) | X::Var(_) | X::SelfRef | X::Now | X::SampleRate => {}
        X::Pipe(a, _) | X::Lam(_, a) | X::Proj(a, _) => collect_arg_fv(a, out),
        X::Bin(_, a, b) | X::Set(_, a, b) | X::Let(_, a, b) => {
            collect_arg_fv(a, out);
            collect_arg_fv(b, out);
        }
        X::Call(_, args) | X::Tuple(args) => args.iter().for_each(|a| collect_arg_fv(a, out)),
        X::If(c, t, e) => {
            collect_arg_fv(c, out);
            collect_arg_fv(t, out);
            collect_arg_fv(e, out);
        }
        X::App(f, args) => {
            collect_arg_fv(f, out);
            args.iter().for_each(|a| collect_arg_fv(a, out));
        }
        X::Splice(mm) => m(mm, out),
    }
}
