//! C17 helper: inline module trees, their rendering to mimium source, and an independent
//! name-resolution / privacy MODEL (Rust-like rules as pinned by the module_*.mmm fixtures).
//!
//! Model rules
//! * a module member (function, nested module, `use` import) that is not `pub` may be referenced
//!   only from inside its parent module (the module itself and all its descendants);
//! * a qualified path `s0::s1::..::f` starts at a top-level module or at a child of the current
//!   module (both existing = ambiguous = not generated); every module on the path and the final
//!   member must be accessible from the referencing position;
//! * `E::f` where `E` holds `pub use p::f` denotes what `p::f` denotes seen from `E`; the link
//!   itself must be legal from `E`, and the function finally denoted must be accessible from the
//!   referencing position as well (a private function can not leave its module by re-export);
//! * an unqualified `f` in module `M` denotes M's own `f`, else the explicit import `f` of M,
//!   else the `f` provided by exactly one wildcard import of M; lexically bound locals
//!   (let, parameters, lambda parameters) come first;
//! * definitions precede references textually (a language rule, not a module rule).

use serde_json::{json, Value};
use std::collections::{BTreeMap, BTreeSet};

pub type Path = Vec<String>;

#[derive(Clone, Debug, PartialEq)]
pub struct Func {
    pub name: String,
    pub public: bool,
    pub val: f64,
}

#[derive(Clone, Copy, Debug, PartialEq, Eq)]
pub enum UseKind {
    Single,
    Multi,
    Wild,
}

#[derive(Clone, Debug, PartialEq)]
pub struct UseStmt {
    pub public: bool,
    /// module segments as written (`use a::b::f` -> [a, b])
    pub path: Path,
    /// imported names (exactly one for Single, none for Wild)
    pub names: Vec<String>,
    pub kind: UseKind,
    /// written before the nested modules / functions of its module
    pub at_start: bool,
}

#[derive(Clone, Copy, Debug, PartialEq, Eq)]
pub enum Wrap {
    Plain,
    Lambda,
    ShadowLet,
    ShadowParam,
    ShadowLam,
    ShadowInLambda,
    ScopeEnd,
    /// the reference sits in the initialiser of a top-level `let` (root position only; inside a
    /// module it is rendered like `Plain`)
    GlobalLet,
    /// the reference sits in the initialiser of a `let` that binds the very same name
    /// (`let fa = fa()  fa + 0.0`): a `let` is not recursive, so the initialiser still sees the import
    SelfInit,
}
impl Wrap {
    pub const ALL: [Wrap; 9] = [Wrap::Plain, Wrap::Lambda, Wrap::ShadowLet, Wrap::ShadowParam, Wrap::ShadowLam, Wrap::ShadowInLambda, Wrap::ScopeEnd, Wrap::GlobalLet, Wrap::SelfInit];
    pub fn name(&self) -> &'static str {
        match self {
            Wrap::Plain => "plain",
            Wrap::Lambda => "lambda",
            Wrap::ShadowLet => "shadow-let",
            Wrap::ShadowParam => "shadow-param",
            Wrap::ShadowLam => "shadow-lambda-param",
            Wrap::ShadowInLambda => "shadow-let-in-lambda",
            Wrap::ScopeEnd => "scope-end",
            Wrap::GlobalLet => "global-let",
            Wrap::SelfInit => "let-of-same-name",
        }
    }
    pub fn parse(s: &str) -> Wrap {
        *Wrap::ALL.iter().find(|w| w.name() == s).unwrap_or(&Wrap::Plain)
    }
    /// the reference is to the local binding, not to the import
    pub fn shadows(&self) -> bool {
        matches!(self, Wrap::ShadowLet | Wrap::ShadowParam | Wrap::ShadowLam | Wrap::ShadowInLambda)
    }
    pub fn needs_unqualified(&self) -> bool {
        self.shadows() || *self == Wrap::ScopeEnd || *self == Wrap::SelfInit
    }
}

#[derive(Clone, Debug, PartialEq)]
pub struct Probe {
    pub id: u32,
    /// reference as written: module segments + function name (one segment = unqualified)
    pub segs: Vec<String>,
    pub wrap: Wrap,
}
impl Probe {
    pub fn shadow_val(&self) -> f64 {
        9000.0 + self.id as f64
    }
}

#[derive(Clone, Debug, PartialEq, Default)]
pub struct Module {
    pub name: String,
    pub public: bool,
    pub fns_first: bool,
    pub mods: Vec<Module>,
    pub fns: Vec<Func>,
    pub uses: Vec<UseStmt>,
    pub probes: Vec<Probe>,
}

#[derive(Clone, Debug, PartialEq, Default)]
pub struct Prog {
    pub root: Module,
}

#[derive(Clone, Debug, PartialEq, Eq, PartialOrd, Ord)]
pub enum Ent {
    Fn(Path, String),
    Mod(Path),
    Use(Path, usize),
}
impl Ent {
    pub fn describe(&self) -> String {
        match self {
            Ent::Fn(p, n) => format!("fn {}::{n}", p.join("::")),
            Ent::Mod(p) => format!("mod {}", p.join("::")),
            Ent::Use(p, i) => format!("use #{i} of {}", if p.is_empty() { "<root>".to_string() } else { p.join("::") }),
        }
    }
}

// ------------------------------------------------------------------------------------------
// tree access
// ------------------------------------------------------------------------------------------

impl Prog {
    pub fn module(&self, p: &[String]) -> Option<&Module> {
        let mut m = &self.root;
        for s in p {
            m = m.mods.iter().find(|c| c.name == *s)?;
        }
        Some(m)
    }
    pub fn module_mut(&mut self, p: &[String]) -> Option<&mut Module> {
        let mut m = &mut self.root;
        for s in p {
            m = m.mods.iter_mut().find(|c| c.name == *s)?;
        }
        Some(m)
    }
    pub fn all_module_paths(&self) -> Vec<Path> {
        fn rec(m: &Module, p: &Path, out: &mut Vec<Path>) {
            for c in &m.mods {
                let mut q = p.clone();
                q.push(c.name.clone());
                out.push(q.clone());
                rec(c, &q, out);
            }
        }
        let mut out = vec![];
        rec(&self.root, &vec![], &mut out);
        out
    }
    pub fn all_fns(&self) -> Vec<(Path, String)> {
        let mut out = vec![];
        let mut ps = vec![vec![]];
        ps.extend(self.all_module_paths());
        for p in ps {
            for f in &self.module(&p).unwrap().fns {
                out.push((p.clone(), f.name.clone()));
            }
        }
        out
    }
    pub fn all_probes(&self) -> Vec<(Path, Probe)> {
        let mut out = vec![];
        let mut ps = vec![vec![]];
        ps.extend(self.all_module_paths());
        for p in ps {
            for pr in &self.module(&p).unwrap().probes {
                out.push((p.clone(), pr.clone()));
            }
        }
        out.sort_by_key(|(_, p)| p.id);
        out
    }
    pub fn set_public(&mut self, e: &Ent, v: bool) {
        match e {
            Ent::Fn(p, n) => {
                if let Some(f) = self.module_mut(p).and_then(|m| m.fns.iter_mut().find(|f| f.name == *n)) {
                    f.public = v;
                }
            }
            Ent::Mod(p) => {
                if let Some(m) = self.module_mut(p) {
                    m.public = v;
                }
            }
            Ent::Use(p, i) => {
                if let Some(u) = self.module_mut(p).and_then(|m| m.uses.get_mut(*i)) {
                    u.public = v;
                }
            }
        }
    }
}

// ------------------------------------------------------------------------------------------
// textual order and rendering
// ------------------------------------------------------------------------------------------

#[derive(Clone, Debug)]
pub enum Ev {
    Open(Path),
    Use(Path, usize),
    Fn(Path, usize),
    Probe(Path, usize),
    Close(Path),
}

pub fn walk(m: &Module, path: &Path, out: &mut Vec<Ev>) {
    if !path.is_empty() {
        out.push(Ev::Open(path.clone()));
    }
    for (i, u) in m.uses.iter().enumerate() {
        if u.at_start {
            out.push(Ev::Use(path.clone(), i));
        }
    }
    let fns = |out: &mut Vec<Ev>| {
        for i in 0..m.fns.len() {
            out.push(Ev::Fn(path.clone(), i));
        }
    };
    let mods = |out: &mut Vec<Ev>| {
        for c in &m.mods {
            let mut q = path.clone();
            q.push(c.name.clone());
            walk(c, &q, out);
        }
    };
    if m.fns_first {
        fns(out);
        mods(out);
    } else {
        mods(out);
        fns(out);
    }
    for (i, u) in m.uses.iter().enumerate() {
        if !u.at_start {
            out.push(Ev::Use(path.clone(), i));
        }
    }
    for i in 0..m.probes.len() {
        out.push(Ev::Probe(path.clone(), i));
    }
    if !path.is_empty() {
        out.push(Ev::Close(path.clone()));
    }
}

#[derive(Default)]
pub struct Layout {
    pub mod_open: BTreeMap<Path, usize>,
    pub fn_seq: BTreeMap<(Path, String), usize>,
    pub use_seq: BTreeMap<(Path, usize), usize>,
    pub probe_seq: BTreeMap<u32, usize>,
}

pub fn layout(p: &Prog) -> Layout {
    let mut evs = vec![];
    walk(&p.root, &vec![], &mut evs);
    let mut l = Layout::default();
    l.mod_open.insert(vec![], 0);
    for (i, e) in evs.iter().enumerate() {
        let i = i + 1;
        match e {
            Ev::Open(path) => {
                l.mod_open.insert(path.clone(), i);
            }
            Ev::Use(path, k) => {
                l.use_seq.insert((path.clone(), *k), i);
            }
            Ev::Fn(path, k) => {
                let name = p.module(path).unwrap().fns[*k].name.clone();
                l.fn_seq.insert((path.clone(), name), i);
            }
            Ev::Probe(path, k) => {
                l.probe_seq.insert(p.module(path).unwrap().probes[*k].id, i);
            }
            Ev::Close(_) => {}
        }
    }
    l
}

pub fn fmt_num(v: f64) -> String {
    if v.fract() == 0.0 { format!("{v:.1}") } else { format!("{v}") }
}

pub fn render_use(u: &UseStmt) -> String {
    let vis = if u.public { "pub " } else { "" };
    let base = u.path.join("::");
    match u.kind {
        UseKind::Single => format!("{vis}use {base}::{}", u.names.first().cloned().unwrap_or_default()),
        UseKind::Multi => format!("{vis}use {base}::{{{}}}", u.names.join(", ")),
        UseKind::Wild => format!("{vis}use {base}::*"),
    }
}

pub fn render_probe(pr: &Probe, in_module: bool, ind: &str) -> String {
    let vis = if in_module { "pub " } else { "" };
    let name = format!("p{}", pr.id);
    let n = pr.segs.last().cloned().unwrap_or_default();
    let r = format!("{}()", pr.segs.join("::"));
    let s = fmt_num(pr.shadow_val());
    match pr.wrap {
        Wrap::Plain => format!("{ind}{vis}fn {name}(){{ {r} }}\n"),
        Wrap::Lambda => format!("{ind}{vis}fn {name}(){{\n{ind}  let k = | | {r}\n{ind}  k()\n{ind}}}\n"),
        Wrap::ShadowLet => format!("{ind}{vis}fn {name}(){{\n{ind}  let {n} = | | {s}\n{ind}  {n}()\n{ind}}}\n"),
        Wrap::ShadowParam => format!("{ind}{vis}fn {name}({n}:()->float){{ {n}() }}\n"),
        Wrap::ShadowLam => format!("{ind}{vis}fn {name}(){{ (|{n}| {n}())(| | {s}) }}\n"),
        Wrap::ShadowInLambda => format!("{ind}{vis}fn {name}(){{\n{ind}  let {n} = | | {s}\n{ind}  let k = | | {n}()\n{ind}  k()\n{ind}}}\n"),
        Wrap::ScopeEnd => format!("{ind}{vis}fn {name}(){{\n{ind}  let v = {{\n{ind}    let {n} = | | {s}\n{ind}    {n}()\n{ind}  }}\n{ind}  {r} + v * 0.0\n{ind}}}\n"),
        Wrap::GlobalLet if !in_module => format!("let g{name} = {r}\nfn {name}(){{ g{name} }}\n"),
        Wrap::GlobalLet => format!("{ind}{vis}fn {name}(){{ {r} }}\n"),
        Wrap::SelfInit => format!("{ind}{vis}fn {name}(){{\n{ind}  let {n} = {r}\n{ind}  {n} + 0.0\n{ind}}}\n"),
    }
}

pub fn render(p: &Prog) -> String {
    let mut evs = vec![];
    walk(&p.root, &vec![], &mut evs);
    let mut s = String::new();
    for e in &evs {
        match e {
            Ev::Open(path) => {
                let m = p.module(path).unwrap();
                let ind = "  ".repeat(path.len() - 1);
                s.push_str(&format!("{ind}{}mod {} {{\n", if m.public { "pub " } else { "" }, m.name));
            }
            Ev::Close(path) => {
                let ind = "  ".repeat(path.len() - 1);
                s.push_str(&format!("{ind}}}\n"));
            }
            Ev::Use(path, k) => {
                let ind = "  ".repeat(path.len());
                s.push_str(&format!("{ind}{}\n", render_use(&p.module(path).unwrap().uses[*k])));
            }
            Ev::Fn(path, k) => {
                let f = &p.module(path).unwrap().fns[*k];
                let ind = "  ".repeat(path.len());
                s.push_str(&format!("{ind}{}fn {}(){{ {} }}\n", if f.public { "pub " } else { "" }, f.name, fmt_num(f.val)));
            }
            Ev::Probe(path, k) => {
                let ind = "  ".repeat(path.len());
                s.push_str(&render_probe(&p.module(path).unwrap().probes[*k], !path.is_empty(), &ind));
            }
        }
    }
    // dsp: one output channel per probe, in probe-id order
    let probes = p.all_probes();
    s.push_str("fn dsp(){\n");
    for (i, (path, pr)) in probes.iter().enumerate() {
        let mut segs = path.clone();
        segs.push(format!("p{}", pr.id));
        let arg = if pr.wrap == Wrap::ShadowParam { format!("| | {}", fmt_num(pr.shadow_val())) } else { String::new() };
        s.push_str(&format!("  let v{i} = {}({arg})\n", segs.join("::")));
    }
    if probes.len() == 1 {
        s.push_str("  v0\n");
    } else {
        s.push_str(&format!("  ({})\n", (0..probes.len()).map(|i| format!("v{i}")).collect::<Vec<_>>().join(", ")));
    }
    s.push_str("}\n");
    s
}

// ------------------------------------------------------------------------------------------
// the model
// ------------------------------------------------------------------------------------------

#[derive(Clone, Debug)]
pub struct Reject {
    pub culprit: Ent,
    /// the inaccessible function was reached by a path through a `pub use` link
    pub via_reexport_path: bool,
}

#[derive(Clone, Debug)]
pub enum Bad {
    /// outside the generated domain (ambiguous, unresolved, forward reference, unpinned form)
    Invalid(String),
    Reject(Reject),
}

#[derive(Clone, Debug, Default)]
pub struct Trace {
    /// (module, use index, name) of explicit imports followed
    pub imports: BTreeSet<(Path, usize, String)>,
    /// (module, use index) of wildcard imports followed
    pub wilds: BTreeSet<(Path, usize)>,
    pub links: usize,
    pub relative_first: bool,
    pub via_wild: bool,
    pub via_explicit: Option<UseKind>,
    pub own: bool,
}

#[derive(Clone, Debug)]
pub struct Hit {
    pub val: f64,
    pub fnid: (Path, String),
    pub needs: Vec<Ent>,
}

pub struct Model<'a> {
    pub p: &'a Prog,
    /// treat every `pub` flag as set (gives the definition a path denotes regardless of privacy)
    pub all_pub: bool,
}

fn within(pos: &[String], module: &[String]) -> bool {
    pos.starts_with(module)
}

impl<'a> Model<'a> {
    fn is_pub(&self, flag: bool) -> bool {
        flag || self.all_pub
    }

    /// resolve the module part of a path written at position `from`
    pub fn resolve_mod(&self, from: &Path, segs: &[String], tr: &mut Trace) -> Result<(Path, Vec<Ent>), Bad> {
        let Some(first) = segs.first() else { return Err(Bad::Invalid("empty module path".into())) };
        let top = vec![first.clone()];
        let mut child = from.clone();
        child.push(first.clone());
        let top_ok = self.p.module(&top).is_some();
        let child_ok = !from.is_empty() && self.p.module(&child).is_some();
        let (mut cur, start) = match (top_ok, child_ok) {
            (true, true) => return Err(Bad::Invalid("ambiguous first segment (top-level module and child module)".into())),
            (true, false) => (top, 1usize),
            (false, true) => {
                tr.relative_first = true;
                (child, from.len() + 1)
            }
            (false, false) => return Err(Bad::Invalid(format!("no module {first}"))),
        };
        for s in &segs[1..] {
            cur.push(s.clone());
            if self.p.module(&cur).is_none() {
                return Err(Bad::Invalid(format!("no module {}", cur.join("::"))));
            }
        }
        let mut needs = vec![];
        for k in start..=cur.len() {
            let m = self.p.module(&cur[..k]).unwrap();
            if within(from, &cur[..k - 1]) {
                continue;
            }
            if self.is_pub(m.public) {
                needs.push(Ent::Mod(cur[..k].to_vec()));
            } else {
                return Err(Bad::Reject(Reject { culprit: Ent::Mod(cur[..k].to_vec()), via_reexport_path: false }));
            }
        }
        Ok((cur, needs))
    }

    /// what does `use` statement `idx` of module `m` import under `name`, seen from `m`
    fn use_target(&self, m: &Path, idx: usize, name: &str, depth: usize, tr: &mut Trace) -> Result<Hit, Bad> {
        let u = &self.p.module(m).unwrap().uses[idx];
        tr.imports.insert((m.clone(), idx, name.to_string()));
        let (t, mut needs) = self.resolve_mod(m, &u.path, &mut Trace::default())?;
        let mut h = self.lookup(&t, name, m, depth + 1, tr)?;
        needs.append(&mut h.needs);
        h.needs = needs;
        Ok(h)
    }

    /// member `name` of module `t`, referenced from position `from`
    pub fn lookup(&self, t: &Path, name: &str, from: &Path, depth: usize, tr: &mut Trace) -> Result<Hit, Bad> {
        if depth > 8 {
            return Err(Bad::Invalid("import cycle".into()));
        }
        let m = self.p.module(t).unwrap();
        let own = m.fns.iter().find(|f| f.name == name);
        let imps: Vec<usize> = m.uses.iter().enumerate().filter(|(_, u)| u.kind != UseKind::Wild && u.names.iter().any(|n| n == name)).map(|(i, _)| i).collect();
        if own.is_some() && !imps.is_empty() || imps.len() > 1 {
            return Err(Bad::Invalid(format!("{name} is defined twice in {}", t.join("::"))));
        }
        if let Some(f) = own {
            if within(from, t) {
                return Ok(Hit { val: f.val, fnid: (t.clone(), f.name.clone()), needs: vec![] });
            }
            if self.is_pub(f.public) {
                return Ok(Hit { val: f.val, fnid: (t.clone(), f.name.clone()), needs: vec![Ent::Fn(t.clone(), f.name.clone())] });
            }
            return Err(Bad::Reject(Reject { culprit: Ent::Fn(t.clone(), f.name.clone()), via_reexport_path: false }));
        }
        let Some(&idx) = imps.first() else { return Err(Bad::Invalid(format!("no member {name} in {}", t.join("::")))) };
        let u = &m.uses[idx];
        if !self.is_pub(u.public) {
            if within(from, t) {
                return Err(Bad::Invalid("private import referenced by path from inside (unpinned form)".into()));
            }
            tr.imports.insert((t.clone(), idx, name.to_string()));
            return Err(Bad::Reject(Reject { culprit: Ent::Use(t.clone(), idx), via_reexport_path: false }));
        }
        tr.links += 1;
        let mut h = match self.use_target(t, idx, name, depth, tr) {
            Ok(h) => h,
            Err(Bad::Reject(mut r)) => {
                if matches!(r.culprit, Ent::Fn(..)) {
                    r.via_reexport_path = true;
                }
                return Err(Bad::Reject(r));
            }
            Err(e) => return Err(e),
        };
        if !within(from, t) {
            h.needs.push(Ent::Use(t.clone(), idx));
        }
        // the function finally denoted must be accessible from the referencing position too
        let (fm, fname) = h.fnid.clone();
        if !within(from, &fm) {
            let f = self.p.module(&fm).unwrap().fns.iter().find(|f| f.name == fname).unwrap();
            if self.is_pub(f.public) {
                let e = Ent::Fn(fm, fname);
                if !h.needs.contains(&e) {
                    h.needs.push(e);
                }
            } else {
                return Err(Bad::Reject(Reject { culprit: Ent::Fn(fm, fname), via_reexport_path: true }));
            }
        }
        Ok(h)
    }

    /// unqualified `name` in a function of module `m`
    pub fn unqualified(&self, m: &Path, name: &str, tr: &mut Trace) -> Result<Hit, Bad> {
        let md = self.p.module(m).unwrap();
        let own = md.fns.iter().find(|f| f.name == name);
        let imps: Vec<usize> = md.uses.iter().enumerate().filter(|(_, u)| u.kind != UseKind::Wild && u.names.iter().any(|n| n == name)).map(|(i, _)| i).collect();
        // wildcard imports of this module that provide the name
        let mut wild: Vec<(usize, Path)> = vec![];
        for (i, u) in md.uses.iter().enumerate() {
            if u.kind != UseKind::Wild {
                continue;
            }
            // privacy of the wildcard's module path is judged when it is the chosen source
            let t = match (Model { p: self.p, all_pub: true }).resolve_mod(m, &u.path, &mut Trace::default()) {
                Ok((t, _)) => t,
                Err(e) => return Err(e),
            };
            let tm = self.p.module(&t).unwrap();
            let provides = tm.fns.iter().any(|f| f.name == name) || tm.uses.iter().any(|x| x.kind != UseKind::Wild && self.is_pub(x.public) && x.names.iter().any(|n| n == name));
            if provides {
                wild.push((i, t));
            }
        }
        if let Some(f) = own {
            // a module's own definition wins over wildcard imports; over explicit imports it is a clash
            if !imps.is_empty() {
                return Err(Bad::Invalid(format!("{name} is both defined and imported")));
            }
            tr.own = true;
            tr.via_wild = !wild.is_empty();
            return Ok(Hit { val: f.val, fnid: (m.clone(), f.name.clone()), needs: vec![] });
        }
        // the repository resolves members of enclosing modules before imports (not pinned): avoided
        for k in 1..m.len() {
            if self.p.module(&m[..k]).unwrap().fns.iter().any(|f| f.name == name) {
                return Err(Bad::Invalid(format!("{name} is also a member of an enclosing module")));
            }
        }
        if imps.len() + wild.len() != 1 {
            return Err(Bad::Invalid(format!("{name}: {} explicit and {} wildcard sources", imps.len(), wild.len())));
        }
        if let Some(&idx) = imps.first() {
            tr.via_explicit = Some(md.uses[idx].kind);
            return self.use_target(m, idx, name, 0, tr);
        }
        let (idx, t) = wild[0].clone();
        tr.via_wild = true;
        tr.wilds.insert((m.clone(), idx));
        if within(m, &t) {
            return Err(Bad::Invalid("wildcard import of an enclosing module (unpinned form)".into()));
        }
        let (_, mut needs) = self.resolve_mod(m, &md.uses[idx].path, &mut Trace::default())?;
        let mut h = self.lookup(&t, name, m, 1, tr)?;
        needs.append(&mut h.needs);
        h.needs = needs;
        Ok(h)
    }

    pub fn probe(&self, pos: &Path, pr: &Probe, tr: &mut Trace) -> Result<Hit, Bad> {
        if pr.segs.len() == 1 {
            self.unqualified(pos, &pr.segs[0], tr)
        } else {
            let n = pr.segs.len() - 1;
            let (t, mut needs) = self.resolve_mod(pos, &pr.segs[..n], tr)?;
            let mut h = self.lookup(&t, &pr.segs[n], pos, 0, tr)?;
            needs.append(&mut h.needs);
            h.needs = needs;
            Ok(h)
        }
    }
}

#[derive(Clone, Debug)]
pub struct ProbeEval {
    pub id: u32,
    pub pos: Path,
    pub wrap: Wrap,
    pub route: String,
    pub links: usize,
    pub relative_use: bool,
    /// Ok(expected value) or the privacy violation
    pub res: Result<f64, Reject>,
    /// the function the reference denotes (under the all-pub reading when rejected)
    pub target: Option<(Path, String)>,
    /// pub flags this reference depends on (its own route; the dsp call path is in `call_needs`)
    pub needs: Vec<Ent>,
    pub call_needs: Vec<Ent>,
    pub trace: Trace,
}

pub enum Outcome {
    Invalid(String),
    Expect(Vec<ProbeEval>),
}

fn route_of(pr: &Probe, tr: &Trace) -> String {
    let base = if pr.segs.len() > 1 {
        if tr.links > 0 {
            "reexport"
        } else if tr.relative_first {
            "relative"
        } else {
            "qualified"
        }
    } else if tr.own {
        "own"
    } else if tr.links > 0 {
        "reexport"
    } else if tr.via_wild {
        "wildcard"
    } else {
        match tr.via_explicit {
            Some(UseKind::Multi) => "multi",
            _ => "use",
        }
    };
    base.to_string()
}

/// static well-formedness + expectation of every probe
pub fn evaluate(p: &Prog) -> Outcome {
    let lay = layout(p);
    let mut paths = vec![vec![]];
    paths.extend(p.all_module_paths());
    // names
    for mp in &paths {
        let m = p.module(mp).unwrap();
        let mut seen = BTreeSet::new();
        for c in &m.mods {
            if !seen.insert(c.name.clone()) {
                return Outcome::Invalid("duplicate module name".into());
            }
        }
        let mut seen = BTreeSet::new();
        for f in &m.fns {
            if !seen.insert(f.name.clone()) {
                return Outcome::Invalid("duplicate function name".into());
            }
        }
        for u in &m.uses {
            match u.kind {
                UseKind::Single if u.names.len() != 1 => return Outcome::Invalid("single use needs one name".into()),
                UseKind::Multi if u.names.is_empty() => return Outcome::Invalid("empty multi use".into()),
                UseKind::Wild if u.public => return Outcome::Invalid("pub wildcard use (unpinned form)".into()),
                _ => {}
            }
            if u.public && mp.is_empty() {
                return Outcome::Invalid("pub use at top level (unpinned form)".into());
            }
            if u.kind != UseKind::Wild {
                for n in &u.names {
                    if !seen.insert(n.clone()) {
                        return Outcome::Invalid(format!("{n} defined/imported twice in one module"));
                    }
                }
            }
        }
    }
    let strict = Model { p, all_pub: false };
    let lenient = Model { p, all_pub: true };
    // probes
    let mut evals = vec![];
    let probes = p.all_probes();
    if probes.is_empty() {
        return Outcome::Invalid("no probe".into());
    }
    let mut ids = BTreeSet::new();
    for (pos, pr) in &probes {
        if !ids.insert(pr.id) {
            return Outcome::Invalid("duplicate probe id".into());
        }
        if pr.segs.is_empty() || (pr.wrap.needs_unqualified() && pr.segs.len() != 1) {
            return Outcome::Invalid("malformed probe".into());
        }
        // the dsp call path to the probe function must itself be legal
        let call_needs = if pos.is_empty() {
            vec![]
        } else {
            match strict.resolve_mod(&vec![], pos, &mut Trace::default()) {
                Ok((_, n)) => n,
                Err(Bad::Reject(_)) => return Outcome::Invalid("probe position not reachable from dsp".into()),
                Err(Bad::Invalid(w)) => return Outcome::Invalid(w),
            }
        };
        let mut tr = Trace::default();
        let len = match lenient.probe(pos, pr, &mut tr) {
            Ok(h) => h,
            Err(Bad::Invalid(w)) => return Outcome::Invalid(w),
            Err(Bad::Reject(_)) => return Outcome::Invalid("internal: lenient model rejects".into()),
        };
        if lay.fn_seq.get(&len.fnid).copied().unwrap_or(usize::MAX) >= lay.probe_seq[&pr.id] {
            return Outcome::Invalid("forward reference".into());
        }
        if pr.wrap.needs_unqualified() && tr.own {
            return Outcome::Invalid("shadow probe on an own member".into());
        }
        let mut tr = Trace::default();
        let r = strict.probe(pos, pr, &mut tr);
        let route = route_of(pr, &tr);
        let relative_use = tr.imports.iter().any(|(m, i, _)| {
            let u = &p.module(m).unwrap().uses[*i];
            let mut t2 = Trace::default();
            let _ = lenient.resolve_mod(m, &u.path, &mut t2);
            t2.relative_first
        });
        let (res, needs) = match r {
            Ok(h) => (Ok(if pr.wrap.shadows() { pr.shadow_val() } else { h.val }), h.needs),
            Err(Bad::Reject(mut rj)) => {
                // only a qualified path that ends in a re-exported name is meant
                rj.via_reexport_path &= pr.segs.len() > 1;
                if pr.wrap.shadows() {
                    return Outcome::Invalid("shadow probe over an illegal import".into());
                }
                (Err(rj), vec![])
            }
            Err(Bad::Invalid(w)) => return Outcome::Invalid(w),
        };
        evals.push(ProbeEval { id: pr.id, pos: pos.clone(), wrap: pr.wrap, route, links: tr.links, relative_use, res, target: Some(len.fnid), needs, call_needs, trace: tr });
    }
    // use statements: order, shape and legality
    for mp in &paths {
        let m = p.module(mp).unwrap();
        for (i, u) in m.uses.iter().enumerate() {
            let mut t0 = Trace::default();
            let target = match lenient.resolve_mod(mp, &u.path, &mut t0) {
                Ok((t, _)) => t,
                Err(Bad::Invalid(w)) => return Outcome::Invalid(format!("use: {w}")),
                Err(_) => unreachable!(),
            };
            let first: Path = if t0.relative_first { mp.iter().cloned().chain(std::iter::once(u.path[0].clone())).collect() } else { vec![u.path[0].clone()] };
            if lay.mod_open[&first] >= lay.use_seq[&(mp.clone(), i)] {
                return Outcome::Invalid("use before the module it names is opened (unpinned form)".into());
            }
            if u.kind == UseKind::Wild {
                if t0.relative_first {
                    return Outcome::Invalid("relative wildcard use (unpinned form)".into());
                }
                if within(mp, &target) {
                    return Outcome::Invalid("wildcard import of an enclosing module (unpinned form)".into());
                }
                if let Err(Bad::Reject(_)) = strict.resolve_mod(mp, &u.path, &mut Trace::default()) {
                    let covered = evals.iter().any(|e| e.res.is_err() && e.trace.wilds.contains(&(mp.clone(), i)));
                    if !covered {
                        return Outcome::Invalid("illegal wildcard use that no probe goes through".into());
                    }
                }
                continue;
            }
            for n in &u.names {
                let mut tr = Trace::default();
                match strict.use_target(mp, i, n, 0, &mut tr) {
                    Ok(_) => {}
                    Err(Bad::Invalid(w)) => return Outcome::Invalid(format!("use: {w}")),
                    Err(Bad::Reject(_)) => {
                        let covered = evals.iter().any(|e| e.res.is_err() && e.trace.imports.contains(&(mp.clone(), i, n.clone())));
                        if !covered {
                            return Outcome::Invalid("illegal import that no probe goes through".into());
                        }
                    }
                }
            }
        }
    }
    Outcome::Expect(evals)
}

/// Known scope leaks of the repository (imports are registered file-globally): does this
/// program contain a reference whose meaning they could change?  Returns finding-kind tags.
pub fn hazards(p: &Prog, evals: &[ProbeEval]) -> Vec<&'static str> {
    let lenient = Model { p, all_pub: true };
    let mut paths = vec![vec![]];
    paths.extend(p.all_module_paths());
    // every explicit import in the file: (name, what it denotes)
    let mut explicit: Vec<(String, Option<(Path, String)>)> = vec![];
    let mut wild_targets: Vec<Path> = vec![];
    for mp in &paths {
        let m = p.module(mp).unwrap();
        for (i, u) in m.uses.iter().enumerate() {
            if u.kind == UseKind::Wild {
                if let Ok((t, _)) = lenient.resolve_mod(mp, &u.path, &mut Trace::default()) {
                    wild_targets.push(t);
                }
                continue;
            }
            for n in &u.names {
                let id = lenient.use_target(mp, i, n, 0, &mut Trace::default()).ok().map(|h| h.fnid);
                explicit.push((n.clone(), id));
            }
        }
    }
    let mut out = vec![];
    for (e, (_, pr)) in evals.iter().zip(p.all_probes().iter()) {
        if pr.segs.len() != 1 || e.trace.own || pr.wrap.shadows() {
            continue;
        }
        let n = &pr.segs[0];
        if explicit.iter().any(|(m, id)| m == n && *id != e.target) {
            out.push("alias");
        }
        // an unqualified reference that illegally goes through a non-pub import of another module
        // is rescued by an import of that name anywhere in the
        // file whose function is itself accessible (only the final function is checked there)
        if e.res.as_ref().is_err_and(|r| matches!(r.culprit, Ent::Use(..)))
            && explicit.iter().any(|(m, id)| {
                m == n
                    && id.as_ref().is_some_and(|fid| {
                        let f = p.module(&fid.0).unwrap().fns.iter().find(|f| f.name == fid.1).unwrap();
                        f.public || within(&e.pos, &fid.0)
                    })
            })
        {
            out.push("alias");
        }
        if e.trace.via_wild {
            let others = wild_targets.iter().filter(|t| p.module(t).unwrap().fns.iter().any(|f| f.name == *n) && Some(((*t).clone(), n.clone())) != e.target).count();
            if others > 0 {
                out.push("wildcard");
            }
        }
    }
    out.sort();
    out.dedup();
    out
}

// ------------------------------------------------------------------------------------------
// JSON
// ------------------------------------------------------------------------------------------

pub fn module_to_json(m: &Module) -> Value {
    json!({
        "name": m.name, "pub": m.public, "fns_first": m.fns_first,
        "mods": m.mods.iter().map(module_to_json).collect::<Vec<_>>(),
        "fns": m.fns.iter().map(|f| json!([f.name, f.public, f.val])).collect::<Vec<_>>(),
        "uses": m.uses.iter().map(|u| json!({"pub": u.public, "path": u.path, "names": u.names, "kind": match u.kind { UseKind::Single => "single", UseKind::Multi => "multi", UseKind::Wild => "wild" }, "at_start": u.at_start})).collect::<Vec<_>>(),
        "probes": m.probes.iter().map(|p| json!({"id": p.id, "segs": p.segs, "wrap": p.wrap.name()})).collect::<Vec<_>>(),
    })
}

fn strs(v: Option<&Value>) -> Vec<String> {
    v.and_then(|x| x.as_array()).map(|a| a.iter().filter_map(|s| s.as_str().map(|s| s.to_string())).collect()).unwrap_or_default()
}

pub fn module_from_json(v: &Value) -> Option<Module> {
    let mut m = Module { name: v.get("name")?.as_str()?.to_string(), public: v.get("pub").and_then(|x| x.as_bool()).unwrap_or(false), fns_first: v.get("fns_first").and_then(|x| x.as_bool()).unwrap_or(false), ..Default::default() };
    for c in v.get("mods").and_then(|x| x.as_array()).cloned().unwrap_or_default() {
        m.mods.push(module_from_json(&c)?);
    }
    for f in v.get("fns").and_then(|x| x.as_array()).cloned().unwrap_or_default() {
        let a = f.as_array()?;
        m.fns.push(Func { name: a.first()?.as_str()?.to_string(), public: a.get(1)?.as_bool()?, val: a.get(2)?.as_f64()? });
    }
    for u in v.get("uses").and_then(|x| x.as_array()).cloned().unwrap_or_default() {
        let kind = match u.get("kind").and_then(|x| x.as_str()).unwrap_or("single") {
            "multi" => UseKind::Multi,
            "wild" => UseKind::Wild,
            _ => UseKind::Single,
        };
        m.uses.push(UseStmt { public: u.get("pub").and_then(|x| x.as_bool()).unwrap_or(false), path: strs(u.get("path")), names: strs(u.get("names")), kind, at_start: u.get("at_start").and_then(|x| x.as_bool()).unwrap_or(false) });
    }
    for p in v.get("probes").and_then(|x| x.as_array()).cloned().unwrap_or_default() {
        m.probes.push(Probe { id: p.get("id")?.as_u64()? as u32, segs: strs(p.get("segs")), wrap: Wrap::parse(p.get("wrap").and_then(|x| x.as_str()).unwrap_or("plain")) });
    }
    Some(m)
}
