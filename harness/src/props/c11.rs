//! C11 — scheduled tasks run exactly once at exactly their sample time.
//!
//! A case is a TASK MULTISET described by a `Spec`: task definitions (named functions, inline
//! lambdas, letrec closures made by a "maker" function) whose only effect is commutative (own
//! counter += 1, shared accumulator += own power of two), scheduling sites at global scope, in
//! `dsp` (at one given sample) and inside running tasks (self-rescheduling chains, spawns).
//! The spec is rendered to a mimium program and simulated by the reference schedule model below;
//! the VM must reproduce the model bit for bit, the WASM runtime must reproduce the VM.

use crate::engine::case::*;
use crate::engine::rng::hash64;
use crate::engine::tape::Gen;
use crate::runners::exec::{self, canon, Exec, Inputs, RunOpts};
use serde_json::{json, Value};

pub struct C11;

pub fn prop() -> Option<&'static dyn Prop> {
    Some(&C11)
}

/// WASM: closures allocated while a sample is being processed (in dsp or in a running task) live
/// in linear memory that is rewound when dsp / the task / the tick returns, although the scheduler
/// still holds their address; the next allocation overwrites them.
pub const KF_WASM_TICK_CLOSURE: &str = "C11-wasm-tick-closure-memory-reused";

const MAX_RUNS: usize = 3000;
const MAX_TASKS: usize = 8;

// ------------------------------------------------------------------------------------------ spec

#[derive(Clone, Debug, PartialEq)]
struct Chain {
    /// period added to `now` (or to the task's own absolute-time variable)
    p: f64,
    /// true: `tt = tt + p; f@tt` (fractions accumulate), false: `f@(now + p)`
    abs: bool,
    /// reschedule only while the own counter is below this
    limit: Option<u32>,
    via: u8,
}

#[derive(Clone, Debug, PartialEq)]
struct Spawn {
    to: usize,
    d: f64,
    /// only on the k-th run of the spawning task
    on: Option<u32>,
    via: u8,
}

#[derive(Clone, Debug, PartialEq)]
struct TaskSpec {
    /// 0 = named top-level function, 1 = inline lambda written at every site, 2 = letrec closure
    /// with a local counter made by a maker function (scheduled inside the maker), 3 = a closure
    /// VALUE bound by a global `let` / `letrec` (every site passes the same closure)
    form: u8,
    chain: Option<Chain>,
    spawns: Vec<Spawn>,
    /// form 2 only: further `g@time` inside the maker, i.e. the SAME closure scheduled again
    /// (time, literal time instead of `now + time`, via)
    starts: Vec<(f64, bool, u8)>,
}

/// a scheduling site at global scope; for maker tasks this is the maker call (the `@` is inside)
#[derive(Clone, Debug, PartialEq)]
struct GSite {
    task: usize,
    /// true: literal time `t`; false: `now + t` (now is 0 at global scope)
    abs: bool,
    t: f64,
    via: u8,
}

#[derive(Clone, Debug, PartialEq)]
struct DSite {
    /// schedule on every sample (then `at` is unused)
    every: bool,
    at: u64,
    task: usize,
    d: f64,
    via: u8,
}

#[derive(Clone, Debug, PartialEq)]
struct Spec {
    n: u64,
    mono: bool,
    tasks: Vec<TaskSpec>,
    globals: Vec<GSite>,
    dsps: Vec<DSite>,
}

fn opt_u(v: &Value) -> Option<u32> {
    v.as_u64().map(|x| x as u32)
}

impl Spec {
    fn to_json(&self) -> Value {
        json!({
            "n": self.n,
            "mono": self.mono,
            "tasks": self.tasks.iter().map(|t| json!({
                "form": t.form,
                "chain": t.chain.as_ref().map(|c| json!({"p": c.p, "abs": c.abs, "limit": c.limit, "via": c.via})),
                "spawns": t.spawns.iter().map(|s| json!({"to": s.to, "d": s.d, "on": s.on, "via": s.via})).collect::<Vec<_>>(),
                "starts": t.starts.iter().map(|(t, a, v)| json!([t, a, v])).collect::<Vec<_>>(),
            })).collect::<Vec<_>>(),
            "globals": self.globals.iter().map(|s| json!({"task": s.task, "abs": s.abs, "t": s.t, "via": s.via})).collect::<Vec<_>>(),
            "dsps": self.dsps.iter().map(|s| json!({"every": s.every, "at": s.at, "task": s.task, "d": s.d, "via": s.via})).collect::<Vec<_>>(),
        })
    }
    fn from_json(v: &Value) -> Option<Spec> {
        let mut tasks = vec![];
        for t in v.get("tasks")?.as_array()? {
            let chain = match t.get("chain") {
                Some(c) if !c.is_null() => Some(Chain {
                    p: c.get("p")?.as_f64()?,
                    abs: c.get("abs").and_then(|x| x.as_bool()).unwrap_or(false),
                    limit: c.get("limit").and_then(opt_u),
                    via: c.get("via").and_then(|x| x.as_u64()).unwrap_or(0) as u8,
                }),
                _ => None,
            };
            let mut spawns = vec![];
            if let Some(a) = t.get("spawns").and_then(|x| x.as_array()) {
                for s in a {
                    spawns.push(Spawn { to: s.get("to")?.as_u64()? as usize, d: s.get("d")?.as_f64()?, on: s.get("on").and_then(opt_u), via: s.get("via").and_then(|x| x.as_u64()).unwrap_or(0) as u8 });
                }
            }
            let starts: Vec<(f64, bool, u8)> = t
                .get("starts")
                .and_then(|x| x.as_array())
                .map(|a| a.iter().filter_map(|e| Some((e.get(0)?.as_f64()?, e.get(1)?.as_bool()?, e.get(2)?.as_u64()? as u8))).collect())
                .unwrap_or_default();
            tasks.push(TaskSpec { form: t.get("form").and_then(|x| x.as_u64()).unwrap_or(0) as u8, chain, spawns, starts });
        }
        let mut globals = vec![];
        if let Some(a) = v.get("globals").and_then(|x| x.as_array()) {
            for s in a {
                globals.push(GSite { task: s.get("task")?.as_u64()? as usize, abs: s.get("abs").and_then(|x| x.as_bool()).unwrap_or(true), t: s.get("t")?.as_f64()?, via: s.get("via").and_then(|x| x.as_u64()).unwrap_or(0) as u8 });
            }
        }
        let mut dsps = vec![];
        if let Some(a) = v.get("dsps").and_then(|x| x.as_array()) {
            for s in a {
                dsps.push(DSite { every: s.get("every").and_then(|x| x.as_bool()).unwrap_or(false), at: s.get("at").and_then(|x| x.as_u64()).unwrap_or(0), task: s.get("task")?.as_u64()? as usize, d: s.get("d")?.as_f64()?, via: s.get("via").and_then(|x| x.as_u64()).unwrap_or(0) as u8 });
            }
        }
        Some(Spec { n: v.get("n")?.as_u64()?, mono: v.get("mono").and_then(|x| x.as_bool()).unwrap_or(false), tasks, globals, dsps })
    }

    /// structural well-formedness (everything the renderer and the model rely on)
    fn validate(&self) -> Result<(), String> {
        let nt = self.tasks.len();
        if nt == 0 || nt > MAX_TASKS {
            return Err("task-count".into());
        }
        if self.n == 0 || self.n > 512 {
            return Err("run-length".into());
        }
        let okf = |x: f64| x.is_finite() && x >= 0.0 && x < 1e15;
        for (i, t) in self.tasks.iter().enumerate() {
            if t.form > 3 {
                return Err("form".into());
            }
            if t.form != 2 && !t.starts.is_empty() {
                return Err("starts-only-in-makers".into());
            }
            if t.starts.iter().any(|(x, _, v)| !okf(*x) || *x < 1.0 || *v > 2) {
                return Err("start-time".into());
            }
            if let Some(c) = &t.chain {
                if t.form == 1 {
                    return Err("inline-lambda-cannot-name-itself".into());
                }
                if !okf(c.p) || c.p < 1.0 || c.via > 2 {
                    return Err("chain-period".into());
                }
                if c.abs && t.form != 0 {
                    return Err("abs-chain-form".into());
                }
            }
            for s in &t.spawns {
                if s.to <= i || s.to >= nt || !okf(s.d) || s.d < 1.0 || s.via > 2 {
                    return Err("spawn".into());
                }
                if !self.spawnable(s.to) {
                    return Err("spawn-target".into());
                }
            }
            let sites = self.globals.iter().filter(|g| g.task == i).count();
            let dsites = self.dsps.iter().filter(|g| g.task == i).count();
            if t.form == 2 && sites != 1 {
                return Err("maker-needs-exactly-one-site".into());
            }
            if self.abs_chain(i) && (sites != 1 || dsites != 0) {
                return Err("abs-chain-needs-exactly-one-global-site".into());
            }
        }
        for g in &self.globals {
            if g.task >= nt || !okf(g.t) || g.via > 2 {
                return Err("global-site".into());
            }
            if self.abs_chain(g.task) && !g.abs {
                return Err("abs-chain-site".into());
            }
        }
        for d in &self.dsps {
            if d.task >= nt || !okf(d.d) || d.d < 1.0 || d.via > 2 || d.at >= self.n || !self.spawnable(d.task) {
                return Err("dsp-site".into());
            }
        }
        Ok(())
    }
    fn abs_chain(&self, i: usize) -> bool {
        self.tasks[i].chain.as_ref().is_some_and(|c| c.abs)
    }
    /// may be scheduled from dsp / from another task
    fn spawnable(&self, i: usize) -> bool {
        self.tasks[i].form != 2 && !self.abs_chain(i)
    }
}

// ----------------------------------------------------------------------------------------- model

#[derive(Clone, Debug)]
struct Inst {
    when: u64,
    task: usize,
    /// created while a sample was being processed (by dsp or by a running task)
    tick: bool,
    /// length of the self-rescheduling lineage ending in this instance
    depth: u32,
}

#[derive(Default, Debug)]
struct Sim {
    /// cumulative run counts per task as seen by dsp of each sample
    counts: Vec<Vec<u64>>,
    runs: usize,
    sched_global: usize,
    sched_dsp: usize,
    sched_task: usize,
    equal_times: bool,
    fractional: bool,
    max_chain: u32,
    fanout: bool,
    /// two pending instances of one closure-valued task (forms 2, 3) for the same sample
    same_closure_same_sample: bool,
    far_future: bool,
    max_pending: usize,
    /// the WASM runtime can be expected to agree (see KF_WASM_TICK_CLOSURE)
    wasm_safe: bool,
    /// digit width per task for the one-channel encoding
    bits: Vec<u32>,
}

struct Model<'a> {
    s: &'a Spec,
    pending: Vec<Inst>,
    c: Vec<u64>,
    tt: Vec<f64>,
    sim: Sim,
}

impl<'a> Model<'a> {
    /// `cur` = the sample being processed (0 at global scope); the documented precondition is
    /// "later than the current sample", and the task must be due at the *start* of a sample
    fn schedule(&mut self, cur: u64, time: f64, task: usize, origin: u8, depth: u32) -> Result<(), String> {
        let when = time as u64; // the runtimes' own truncation (`as u64`)
        if when <= cur {
            return Err(format!("precondition: time {time} not after sample {cur}"));
        }
        if time.fract() != 0.0 {
            self.sim.fractional = true;
        }
        if when >= self.s.n {
            self.sim.far_future = true;
        }
        match origin {
            0 => self.sim.sched_global += 1,
            1 => self.sim.sched_dsp += 1,
            _ => self.sim.sched_task += 1,
        }
        if self.s.tasks[task].form >= 2 && self.pending.iter().any(|i| i.when == when && i.task == task) {
            self.sim.same_closure_same_sample = true;
        }
        self.pending.push(Inst { when, task, tick: origin != 0, depth });
        self.sim.max_pending = self.sim.max_pending.max(self.pending.len());
        if self.pending.len() > MAX_RUNS {
            return Err("too-many-pending".into());
        }
        Ok(())
    }
    fn tick_pending_after(&self, t: u64) -> usize {
        self.pending.iter().filter(|i| i.tick && i.when > t).count()
    }
    /// one activation created `k` closures while `others` tick-created closures were still referenced
    fn note_alloc(&mut self, k: usize, others: usize) {
        if k >= 2 || (k >= 1 && others > 0) {
            self.sim.wasm_safe = false;
        }
    }
    fn run(&mut self, t: u64, inst: &Inst, due_tick: usize) -> Result<(), String> {
        let i = inst.task;
        self.c[i] += 1;
        self.sim.runs += 1;
        if self.sim.runs > MAX_RUNS {
            return Err("too-many-runs".into());
        }
        self.sim.max_chain = self.sim.max_chain.max(inst.depth);
        let before = self.tick_pending_after(t);
        let mut created = 0usize;
        let now = t as f64;
        let task = self.s.tasks[i].clone();
        for sp in &task.spawns {
            if sp.on.map_or(true, |k| self.c[i] == k as u64) {
                self.schedule(t, now + sp.d, sp.to, 2, 1)?;
                created += 1;
            }
        }
        if let Some(ch) = &task.chain {
            // the absolute-time variable advances on every run, rescheduled or not
            if ch.abs {
                self.tt[i] += ch.p;
            }
            if ch.limit.map_or(true, |l| self.c[i] < l as u64) {
                let time = if ch.abs { self.tt[i] } else { now + ch.p };
                self.schedule(t, time, i, 2, inst.depth + 1)?;
                created += 1;
            }
        }
        if created >= 2 {
            self.sim.fanout = true;
        }
        let others = before + due_tick - (inst.tick as usize);
        self.note_alloc(created, others);
        Ok(())
    }
}

fn simulate(s: &Spec) -> Result<Sim, String> {
    s.validate()?;
    let nt = s.tasks.len();
    let mut m = Model { s, pending: vec![], c: vec![0; nt], tt: vec![0.0; nt], sim: Sim { wasm_safe: true, ..Default::default() } };
    // global scope, in textual order
    for g in &s.globals {
        let time = if g.abs { g.t } else { 0.0 + g.t };
        if s.abs_chain(g.task) {
            m.tt[g.task] = g.t;
        }
        m.schedule(0, time, g.task, 0, 1)?;
        for (t, _, _) in &s.tasks[g.task].starts {
            m.schedule(0, *t, g.task, 0, 1)?;
        }
    }
    for t in 0..s.n {
        if m.pending.iter().any(|i| i.when < t) {
            return Err("model-internal: overdue task".into());
        }
        let mut due = vec![];
        let mut k = 0;
        while k < m.pending.len() {
            if m.pending[k].when == t {
                due.push(m.pending.remove(k));
            } else {
                k += 1;
            }
        }
        if due.len() >= 2 {
            m.sim.equal_times = true;
        }
        let due_tick = due.iter().filter(|i| i.tick).count();
        for inst in &due {
            m.run(t, inst, due_tick)?;
        }
        m.sim.counts.push(m.c.clone());
        // dsp of sample t
        let before = m.tick_pending_after(t);
        let mut created = 0;
        for d in s.dsps.iter().filter(|d| d.every || d.at == t) {
            m.schedule(t, t as f64 + d.d, d.task, 1, 1)?;
            created += 1;
        }
        m.note_alloc(created, before);
    }
    let mut sim = m.sim;
    if !s.mono && sim.sched_dsp + sim.sched_task > 0 {
        // the output tuple itself is allocated on every sample
        sim.wasm_safe = false;
    }
    let last = sim.counts.last().cloned().unwrap_or_default();
    sim.bits = last.iter().map(|c| (64 - (c + 2).leading_zeros()) + 1).collect();
    Ok(sim)
}

// -------------------------------------------------------------------------------------- renderer

fn num(x: f64) -> String {
    format!("{x:?}")
}

struct Rend<'a> {
    s: &'a Spec,
    mono: bool,
    weights: Vec<f64>,
}

impl<'a> Rend<'a> {
    fn counter(&self, i: usize) -> String {
        if self.s.tasks[i].form == 2 { "x".to_string() } else { format!("c{i}") }
    }
    fn selfname(&self, i: usize) -> String {
        if self.s.tasks[i].form == 2 { "g".to_string() } else { format!("t{i}") }
    }
    /// the statements of task `i`, each on its own line with the given indentation
    fn body(&self, i: usize, ind: &str) -> String {
        let t = &self.s.tasks[i];
        let c = self.counter(i);
        let mut l = vec![format!("{ind}{c} = {c} + 1.0")];
        if self.mono {
            l.push(format!("{ind}acc = acc + {}", num(self.weights[i])));
        }
        let inner = format!("{ind}    ");
        for sp in &t.spawns {
            let site = self.site(sp.to, &format!("now + {}", num(sp.d)), sp.via, &inner, false);
            match sp.on {
                None => l.push(format!("{ind}{site}")),
                Some(k) => l.push(format!("{ind}if ({c} == {}) {{ {site} }} else {{ nop() }}", num(k as f64))),
            }
        }
        if let Some(ch) = &t.chain {
            let me = self.selfname(i);
            let time = if ch.abs {
                l.push(format!("{ind}tt{i} = tt{i} + {}", num(ch.p)));
                format!("tt{i}")
            } else {
                format!("now + {}", num(ch.p))
            };
            let site = self.site_named(&me, &time, ch.via, ch.abs);
            match ch.limit {
                None => l.push(format!("{ind}{site}")),
                Some(k) => l.push(format!("{ind}if ({c} < {}) {{ {site} }} else {{ nop() }}", num(k as f64))),
            }
        }
        l.join("\n")
    }
    fn site_named(&self, name: &str, time: &str, via: u8, bare_time: bool) -> String {
        let at = if bare_time { time.to_string() } else { format!("({time})") };
        match via {
            1 => format!("_mimium_schedule_at({time}, {name})"),
            2 => format!("| |{{ {name}() }}@{at}"),
            _ => format!("{name}@{at}"),
        }
    }
    /// a scheduling expression for task `j` at `time` (source text of the time expression)
    fn site(&self, j: usize, time: &str, via: u8, ind: &str, bare_time: bool) -> String {
        if self.s.tasks[j].form == 1 {
            let at = if bare_time { time.to_string() } else { format!("({time})") };
            let close = &ind[..ind.len().saturating_sub(4)];
            let b = self.body(j, ind);
            if via == 1 { format!("_mimium_schedule_at({time}, | |{{\n{b}\n{close}}})") } else { format!("| |{{\n{b}\n{close}}}@{at}") }
        } else {
            self.site_named(&format!("t{j}"), time, via, bare_time)
        }
    }
    fn program(&self) -> String {
        let s = self.s;
        let mut o = String::new();
        o.push_str("let zz = 0.0\n");
        if self.mono {
            o.push_str("let acc = 0.0\n");
        }
        for (i, t) in s.tasks.iter().enumerate() {
            if t.form != 2 {
                o.push_str(&format!("let c{i} = 0.0\n"));
            }
            if s.abs_chain(i) {
                let t0 = s.globals.iter().find(|g| g.task == i).map(|g| g.t).unwrap_or(1.0);
                o.push_str(&format!("let tt{i} = {}\n", num(t0)));
            }
        }
        o.push_str("fn nop(){\n    zz = zz + 0.0\n}\n");
        // spawn targets have larger indices: define them first
        for (i, t) in s.tasks.iter().enumerate().rev() {
            match t.form {
                0 => {
                    let body = self.body(i, "    ");
                    o.push_str(&format!("fn t{i}(){{\n{body}\n}}\n"));
                }
                2 => {
                    let g = s.globals.iter().find(|g| g.task == i).unwrap();
                    let time = if g.abs { num(g.t) } else { format!("now + {}", num(g.t)) };
                    let mut first = self.site_named("g", &time, g.via, g.abs);
                    for (t, abs, via) in &t.starts {
                        let time = if *abs { num(*t) } else { format!("now + {}", num(*t)) };
                        first.push_str("\n    ");
                        first.push_str(&self.site_named("g", &time, *via, *abs));
                    }
                    let body = self.body(i, "        ");
                    o.push_str(&format!("fn mk{i}(){{\n    let x = 0.0\n    letrec g = | |{{\n{body}\n    }}\n    {first}\n    | |{{ x }}\n}}\n"));
                }
                3 => {
                    let body = self.body(i, "    ");
                    let kw = if t.chain.is_some() { "letrec" } else { "let" };
                    o.push_str(&format!("{kw} t{i} = | |{{\n{body}\n}}\n"));
                }
                _ => {}
            }
        }
        for g in &s.globals {
            let i = g.task;
            if s.tasks[i].form == 2 {
                o.push_str(&format!("let get{i} = mk{i}()\n"));
            } else if s.abs_chain(i) {
                o.push_str(&self.site_named(&format!("t{i}"), &format!("tt{i}"), g.via, true));
                o.push('\n');
            } else {
                let time = if g.abs { num(g.t) } else { format!("now + {}", num(g.t)) };
                o.push_str(&self.site(i, &time, g.via, "    ", g.abs));
                o.push('\n');
            }
        }
        o.push_str("fn dsp(){\n");
        for d in &s.dsps {
            let site = self.site(d.task, &format!("now + {}", num(d.d)), d.via, "        ", false);
            if d.every {
                o.push_str(&format!("    {site}\n"));
            } else {
                o.push_str(&format!("    if (now == {}) {{ {site} }} else {{ nop() }}\n", num(d.at as f64)));
            }
        }
        if self.mono {
            o.push_str("    acc\n");
        } else {
            let outs: Vec<String> = (0..s.tasks.len()).map(|i| if s.tasks[i].form == 2 { format!("get{i}()") } else { format!("c{i}") }).collect();
            if outs.len() == 1 {
                o.push_str(&format!("    {}\n", outs[0]));
            } else {
                o.push_str(&format!("    ({})\n", outs.join(", ")));
            }
        }
        o.push_str("}\n");
        o
    }
}

/// (source, effective one-channel mode, digit shifts)
fn render(s: &Spec, sim: &Sim) -> (String, bool, Vec<u32>) {
    let mut shifts = vec![];
    let mut acc = 0u32;
    for b in &sim.bits {
        shifts.push(acc);
        acc += b;
    }
    let mono = s.mono && acc <= 52;
    let weights: Vec<f64> = shifts.iter().map(|sh| if *sh < 60 { (1u64 << sh) as f64 } else { 0.0 }).collect();
    let r = Rend { s, mono, weights };
    (r.program(), mono, shifts)
}

fn expected_words(sim: &Sim, mono: bool, shifts: &[u32]) -> Vec<Vec<u64>> {
    sim.counts
        .iter()
        .map(|c| {
            if mono {
                let v: u64 = c.iter().zip(shifts).map(|(k, sh)| k << sh).sum();
                vec![(v as f64).to_bits()]
            } else {
                c.iter().map(|k| (*k as f64).to_bits()).collect()
            }
        })
        .collect()
}

/// decode one output sample into per-task counts
fn decode(words: &[u64], mono: bool, shifts: &[u32], bits: &[u32]) -> Option<Vec<u64>> {
    let as_count = |w: u64| -> Option<u64> {
        let f = f64::from_bits(w);
        if f.is_finite() && f >= 0.0 && f.fract() == 0.0 && f < 9.0e15 { Some(f as u64) } else { None }
    };
    if mono {
        let v = as_count(*words.first()?)?;
        Some(shifts.iter().zip(bits).map(|(sh, b)| (v >> sh) & ((1u64 << b) - 1)).collect())
    } else {
        words.iter().map(|w| as_count(*w)).collect()
    }
}

// ---------------------------------------------------------------------------------------- oracle

struct Verdict {
    fail: Option<(String, String)>,
    wasm: &'static str,
    tolerated: bool,
}

fn site_of(stage: &str, p: &crate::engine::panics::PanicInfo, backend: &str) -> String {
    let sig = p.signature();
    let st = if stage.starts_with("dsp@") { "dsp" } else { stage };
    format!("c11:panic:{backend}-{st}:{}", sig.strip_prefix("panic:").unwrap_or(&sig))
}

fn fmt_words(w: &[u64]) -> String {
    format!("{:?}", w.iter().map(|x| f64::from_bits(*x)).collect::<Vec<_>>())
}

/// VM against the expected words (when given), then WASM against the VM
fn judge(src: &str, n: u64, expect: Option<(&[Vec<u64>], bool, &[u32], &[u32])>, spec: Option<&Spec>, wasm_safe: bool, cx: &Cx) -> Verdict {
    let mut v = Verdict { fail: None, wasm: "wasm:not-run", tolerated: false };
    let inputs = Inputs { kind: 0, scale: 0.0 };
    let o = RunOpts { n, sched: true, want_state: false, want_counts: false, want_trace: false };
    macro_rules! fail {
        ($sig:expr, $($arg:tt)*) => {{ v.fail = Some(($sig.to_string(), format!($($arg)*))); return v; }};
    }
    let a = match exec::run_vm(src, &inputs, &o) {
        Exec::Ran(a) => a,
        Exec::Panic(stage, p) => fail!(site_of(&stage, &p, "vm"), "VM {stage}: {}", p.describe()),
        Exec::Rejected(d) => fail!("c11:program-rejected", "the VM front end rejects the program: {}", d.first().map(|x| format!("{} {:?}", x.message, x.labels)).unwrap_or_default()),
        Exec::NoIo => fail!("c11:program-rejected", "no dsp I/O information"),
        Exec::Error(st, e) => fail!("c11:vm-error", "VM {st}: {e}"),
    };
    if a.samples.len() as u64 != n {
        fail!("c11:vm-differs-from-model:other", "VM produced {} samples for {n} requested", a.samples.len());
    }
    if let Some((exp, mono, shifts, bits)) = expect {
        for (t, (x, e)) in a.samples.iter().zip(exp.iter()).enumerate() {
            if x != e {
                // classify by the first task whose count is off
                let mut kind = "other";
                let mut detail = String::new();
                let dec: Option<Vec<Vec<u64>>> = a.samples.iter().map(|w| decode(w, mono, shifts, bits)).collect();
                let dexp: Option<Vec<Vec<u64>>> = exp.iter().map(|w| decode(w, mono, shifts, bits)).collect();
                if let (Some(da), Some(de)) = (dec, dexp) {
                    if da.iter().all(|r| r.len() == de[0].len()) {
                        if let Some(i) = (0..de[t].len()).find(|i| da[t][*i] != de[t][*i]) {
                            let (fa, fe) = (da.last().unwrap()[i], de.last().unwrap()[i]);
                            // what the model reaches within 16 more samples: a run that is merely
                            // early near the end of the window is not a duplicate
                            let fe_ext = spec
                                .and_then(|s| simulate(&Spec { n: s.n + 16, ..s.clone() }).ok())
                                .and_then(|x| x.counts.last().map(|c| c[i]))
                                .unwrap_or(fe);
                            kind = if da[t][i] > de[t][i] {
                                if fa > fe_ext { "duplicated" } else { "early" }
                            } else if fa < fe {
                                "dropped"
                            } else {
                                "late"
                            };
                            detail = format!(" (task {i}: ran {} times before dsp of sample {t}, the model says {}; by the last sample {fa} vs {fe})", da[t][i], de[t][i]);
                        }
                    }
                }
                fail!(format!("c11:vm-differs-from-model:{kind}"), "sample {t}: VM yields {} but the schedule model yields {}{detail}", fmt_words(x), fmt_words(e));
            }
        }
    }
    // ---- WASM against the VM
    let tolerate = !cx.strict && cx.excluded(KF_WASM_TICK_CLOSURE) && !wasm_safe;
    let mut wfail: Option<(String, String)> = None;
    match exec::run_wasm(src, &inputs, &o) {
        Exec::Ran(b) => {
            if (a.n_in, a.n_out) != (b.n_in, b.n_out) {
                wfail = Some(("c11:wasm-differs-from-vm".into(), format!("I/O channels differ: vm {}/{} wasm {}/{}", a.n_in, a.n_out, b.n_in, b.n_out)));
            } else if let Some((t, rc)) = b.bad_rc.first() {
                wfail = Some(("c11:wasm-differs-from-vm".into(), format!("WASM run_dsp returned {rc} at sample {t} (the VM ran)")));
            } else {
                for (t, (x, y)) in a.samples.iter().zip(b.samples.iter()).enumerate() {
                    if x.len() != y.len() || x.iter().zip(y).any(|(p, q)| canon(*p) != canon(*q)) {
                        wfail = Some(("c11:wasm-differs-from-vm".into(), format!("sample {t}: VM (= model) yields {} but WASM yields {}", fmt_words(x), fmt_words(y))));
                        break;
                    }
                }
                if wfail.is_none() && a.samples.len() != b.samples.len() {
                    wfail = Some(("c11:wasm-differs-from-vm".into(), format!("WASM produced {} samples, VM {}", b.samples.len(), a.samples.len())));
                }
            }
        }
        Exec::Panic(stage, p) => wfail = Some((site_of(&stage, &p, "wasm"), format!("WASM {stage}: {} (the VM ran and matched the model)", p.describe()))),
        Exec::Rejected(d) => wfail = Some(("c11:wasm-differs-from-vm".into(), format!("the WASM backend rejects the program: {}", d.first().map(|x| x.message.clone()).unwrap_or_default()))),
        Exec::NoIo => wfail = Some(("c11:wasm-differs-from-vm".into(), "WASM: no dsp I/O information".into())),
        Exec::Error(st, e) => wfail = Some(("c11:wasm-differs-from-vm".into(), format!("WASM {st} failed: {e}"))),
    }
    match wfail {
        None => v.wasm = if wasm_safe { "wasm:agrees" } else { "wasm:agrees-despite-hazard" },
        Some(f) => {
            // the two observed faces of the known finding: a wrong closure runs (outputs differ) or
            // garbage is dispatched and re-enters the global initialiser, whose `@` then panics
            let known_face = f.0 == "c11:wasm-differs-from-vm" || (f.0.starts_with("c11:panic:wasm-") && f.0.contains("must be in the future"));
            if tolerate && known_face {
                v.tolerated = true;
                v.wasm = "wasm:tolerated";
            } else {
                v.wasm = "wasm:differs";
                v.fail = Some(f);
            }
        }
    }
    v
}

fn finish(s: &Spec, cx: &Cx, mode: &str) -> CaseResult {
    let sim = match simulate(s) {
        Ok(x) => x,
        Err(e) => {
            let why = if e.starts_with("precondition") { "precondition".to_string() } else { e };
            return CaseResult::discard(format!("spec:{why}"));
        }
    };
    let (src, mono, shifts) = render(s, &sim);
    let exp = expected_words(&sim, mono, &shifts);
    let direct = s.to_json();
    let hash = hash64(format!("{src}\u{1}{}", s.n).as_bytes());
    if cx.dry {
        let mut r = CaseResult::discard("dry");
        r.render = Some(json!({"text": src, "n": s.n, "spec": direct}));
        r.direct = Some(direct);
        return r;
    }
    let v = judge(&src, s.n, Some((&exp, mono, &shifts, &sim.bits)), Some(s), sim.wasm_safe, cx);
    let mut r = match &v.fail {
        Some((sig, m)) => CaseResult::fail(hash, sig.clone(), m.clone()),
        None => CaseResult::held(hash),
    };
    if v.tolerated {
        r.count(&format!("excluded_by_known_finding:{KF_WASM_TICK_CLOSURE}"), 1);
    }
    let mut cl: Vec<String> = vec![format!("mode:{mode}"), v.wasm.to_string(), (if mono { "out:mono" } else { "out:tuple" }).to_string()];
    if sim.sched_global > 0 {
        cl.push("origin:global".into());
    }
    if sim.sched_dsp > 0 {
        cl.push("origin:dsp".into());
    }
    if sim.sched_task > 0 {
        cl.push("origin:task".into());
    }
    if sim.equal_times {
        cl.push("equal-times".into());
    }
    if sim.fractional {
        cl.push("fractional-time".into());
    }
    if sim.max_chain >= 3 {
        cl.push("chain>=3".into());
    }
    if sim.max_chain >= 16 {
        cl.push("chain>=16".into());
    }
    if sim.fanout {
        cl.push("fanout".into());
    }
    if sim.far_future {
        cl.push("beyond-run-length".into());
    }
    if sim.same_closure_same_sample {
        cl.push("same-closure-twice-at-one-sample".into());
    }
    if s.dsps.iter().any(|d| d.every) {
        cl.push("dsp-schedules-every-sample".into());
    }
    if sim.max_pending >= 10 {
        cl.push("pending>=10".into());
    }
    if sim.wasm_safe && sim.sched_dsp + sim.sched_task > 0 {
        cl.push("wasm-checked-with-tick-origin".into());
    }
    for (i, t) in s.tasks.iter().enumerate() {
        cl.push(["form:named", "form:inline-lambda", "form:letrec-closure", "form:global-closure-value"][t.form as usize].to_string());
        if !t.starts.is_empty() {
            cl.push("maker-closure-scheduled-again".to_string());
        }
        if s.abs_chain(i) {
            cl.push("chain:absolute-time".into());
        }
        if t.chain.as_ref().is_some_and(|c| c.limit.is_some()) {
            cl.push("chain:bounded".into());
        }
        for v in t.chain.iter().map(|c| c.via).chain(t.spawns.iter().map(|x| x.via)) {
            cl.push(["via:at", "via:schedule_at", "via:wrapper-lambda"][v as usize].to_string());
        }
    }
    for v in s.globals.iter().map(|g| g.via).chain(s.dsps.iter().map(|d| d.via)) {
        cl.push(["via:at", "via:schedule_at", "via:wrapper-lambda"][v as usize].to_string());
    }
    cl.sort();
    cl.dedup();
    r.classes = cl;
    r.nontrivial = (sim.runs >= 3 && sim.equal_times && sim.max_chain >= 3) || r.is_fail();
    if cx.render || r.is_fail() {
        r.render = Some(json!({"text": src, "n": s.n, "task_runs": sim.runs, "expected_first_channel": exp.iter().map(|w| f64::from_bits(w[0])).collect::<Vec<_>>(), "wasm_expected_to_agree": sim.wasm_safe}));
    }
    r.direct = Some(direct);
    r
}

/// hand-written source: VM against `expect` (rows of channel values, optional), WASM against VM
fn finish_text(input: &Value, cx: &Cx) -> Option<CaseResult> {
    let src = input.get("text")?.as_str()?;
    let n = input.get("n").and_then(|v| v.as_u64()).unwrap_or(8);
    let exp: Option<Vec<Vec<u64>>> = input.get("expect").and_then(|e| e.as_array()).map(|rows| rows.iter().map(|r| r.as_array().map(|c| c.iter().map(|x| x.as_f64().unwrap_or(f64::NAN).to_bits()).collect()).unwrap_or_default()).collect());
    let hash = hash64(format!("{src}\u{1}{n}").as_bytes());
    if cx.dry {
        let mut r = CaseResult::discard("dry");
        r.direct = Some(input.clone());
        return Some(r);
    }
    // hazard unknown for free text: `tick_origin: true` marks the known-finding shape
    let safe = !input.get("tick_origin").and_then(|v| v.as_bool()).unwrap_or(false);
    let nb = exp.as_ref().and_then(|e| e.first().map(|r| r.len())).unwrap_or(0);
    let bits = vec![52u32; nb];
    let shifts = vec![0u32; nb];
    let v = judge(src, n, exp.as_ref().map(|e| (e.as_slice(), false, shifts.as_slice(), bits.as_slice())), None, safe, cx);
    let mut r = match &v.fail {
        Some((sig, m)) => CaseResult::fail(hash, sig.clone(), m.clone()),
        None => CaseResult::held(hash),
    };
    if v.tolerated {
        r.count(&format!("excluded_by_known_finding:{KF_WASM_TICK_CLOSURE}"), 1);
    }
    r.classes = vec!["mode:text".into(), v.wasm.to_string()];
    r.render = Some(input.clone());
    r.direct = Some(input.clone());
    Some(r)
}

// ------------------------------------------------------------------------------------- generator

const FRACS: [f64; 8] = [0.0, 0.0, 0.5, 0.25, 0.75, 0.9, 0.999, 0.125];
const DELAYS: [f64; 10] = [1.0, 2.0, 1.5, 3.0, 5.0, 2.75, 1.999, 4.0, 8.0, 13.25];
const PERIODS: [f64; 9] = [1.0, 2.0, 1.5, 3.0, 2.5, 1.25, 7.0, 1.75, 4.0];

/// Bursts: up to three groups of one-shot tasks scheduled from global scope, every task of a group
/// for the same time, with group sizes from 1 to 200 (around powers of two and in between).  Each
/// task adds its group's weight to a global that dsp returns, so the expected stream is a step
/// function: at sample t the sum of weight x size over the groups with floor(time) <= t.
fn gen_burst(g: &mut Gen) -> Value {
    const SIZES: [u64; 16] = [1, 2, 3, 8, 15, 16, 17, 31, 32, 33, 40, 63, 64, 65, 100, 128];
    const WEIGHTS: [f64; 3] = [1.0, 1000.0, 1000000.0];
    const TIMES: [f64; 8] = [1.0, 2.0, 3.0, 3.5, 4.0, 5.999, 6.0, 7.25];
    let groups = g.int(1, 3) as usize;
    let n = g.int(4, 10) as u64;
    let mut text = String::from("let x = 0.0\n");
    let mut sched = String::new();
    let mut specs = vec![];
    for k in 0..groups {
        let size = if g.bool(3, 4) { *g.pick(&SIZES[..]) } else { g.int(1, 200) as u64 };
        let time = *g.pick(&TIMES[..]);
        text.push_str(&format!("fn tick{k}(){{\n    x = x + {}\n}}\n", num(WEIGHTS[k])));
        specs.push((size, time, WEIGHTS[k]));
    }
    // the groups' schedule statements are interleaved or grouped
    let interleave = g.coin();
    if interleave {
        let most = specs.iter().map(|s| s.0).max().unwrap_or(0);
        for i in 0..most {
            for (k, (size, time, _)) in specs.iter().enumerate() {
                if i < *size {
                    sched.push_str(&format!("tick{k}@{}\n", num(*time)));
                }
            }
        }
    } else {
        for (k, (size, time, _)) in specs.iter().enumerate() {
            for _ in 0..*size {
                sched.push_str(&format!("tick{k}@{}\n", num(*time)));
            }
        }
    }
    text.push_str(&sched);
    text.push_str("fn dsp(){\n    x\n}\n");
    let expect: Vec<Value> = (0..n).map(|t| json!([specs.iter().filter(|(_, time, _)| time.floor() as u64 <= t).fold(0.0f64, |acc, (size, _, w)| acc + *size as f64 * w)])).collect();
    let largest = specs.iter().map(|s| s.0).max().unwrap_or(0);
    json!({"text": text, "n": n, "expect": expect, "burst_largest": largest})
}

fn gen_via(g: &mut Gen) -> u8 {
    g.weighted(&[5, 2, 2]) as u8
}

fn gen_spec(g: &mut Gen, tier: Tier) -> Spec {
    let n = match tier {
        Tier::Quick => *g.pick(&[16u64, 8, 32, 12, 24, 64, 48]),
        Tier::Thorough => *g.pick(&[16u64, 8, 32, 12, 24, 64, 48, 100, 200, 5]),
    };
    // 0 = everything, 1 = global-scope tasks only (many pending), 2 = shapes the WASM runtime handles
    let profile = g.weighted(&[4, 2, 3]);
    let nt = match profile {
        1 => g.int(1, MAX_TASKS as i64) as usize,
        _ => g.int(1, 6) as usize,
    };
    let mono = match profile {
        2 => g.bool(5, 6),
        _ => g.coin(),
    };
    let mut tasks: Vec<TaskSpec> = vec![];
    // profile 2: at most one task reschedules itself and nothing else is created while a sample runs
    let lone_chain = if profile == 2 && g.bool(4, 5) { Some(g.usize_below(nt)) } else { None };
    for i in 0..nt {
        let t = g.span(|g| {
            let mut form = match profile {
                1 => g.weighted(&[6, 3, 0, 3]),
                _ => g.weighted(&[6, 2, 2, 3]),
            } as u8;
            let want_chain = match profile {
                0 => g.bool(1, 2),
                1 => false,
                _ => lone_chain == Some(i),
            };
            let chain = if want_chain {
                if form == 1 {
                    form = 0;
                }
                let p = *g.pick(&PERIODS);
                let abs = form == 0 && g.bool(1, 4);
                let limit = if g.bool(1, 2) { Some(g.int(1, (n as f64 / p) as i64 + 2) as u32) } else { None };
                Some(Chain { p, abs, limit, via: gen_via(g) })
            } else {
                None
            };
            TaskSpec { form, chain, spawns: vec![], starts: vec![] }
        });
        tasks.push(t);
    }
    let mut s = Spec { n, mono, tasks, globals: vec![], dsps: vec![] };
    // spawns (general profile only), towards larger indices
    if profile == 0 {
        for i in 0..nt {
            let targets: Vec<usize> = (i + 1..nt).filter(|j| s.spawnable(*j)).collect();
            if targets.is_empty() {
                continue;
            }
            let k = g.weighted(&[5, 3, 2, 1]);
            let chained = s.tasks[i].chain.is_some();
            let sp = g.vec(k.min(1), k, |g| {
                let to = *g.pick(&targets);
                let d = *g.pick(&DELAYS);
                let on = if chained && g.bool(3, 4) { Some(g.int(1, 4) as u32) } else { None };
                Spawn { to, d, on, via: gen_via(g) }
            });
            s.tasks[i].spawns = sp;
        }
    }
    // global sites: mandatory ones first (makers, absolute-time chains), then free ones; shuffled
    let mut used_times: Vec<f64> = vec![];
    let gen_time = |g: &mut Gen, used: &mut Vec<f64>| -> f64 {
        let base = if !used.is_empty() && g.bool(2, 5) {
            used[g.usize_below(used.len())].floor()
        } else if g.bool(1, 14) {
            *g.pick(&[n as f64, n as f64 + 5.0, 1000000.0, n as f64 - 1.0])
        } else {
            g.int_small(1, (n as i64 - 1).max(1)) as f64
        };
        let t = base.max(1.0) + *g.pick(&FRACS);
        used.push(t);
        t
    };
    let mut sites: Vec<GSite> = vec![];
    for i in 0..nt {
        if s.tasks[i].form == 2 || s.abs_chain(i) {
            let t = gen_time(g, &mut used_times);
            let abs = s.abs_chain(i) || g.bool(4, 5);
            sites.push(GSite { task: i, abs, t, via: gen_via(g) });
            // the same maker closure scheduled again, half of the time for the very same sample
            if s.tasks[i].form == 2 && profile != 2 && g.bool(1, 3) {
                let k = g.int(1, 2) as usize;
                for _ in 0..k {
                    let t2 = if g.coin() { t } else { gen_time(g, &mut used_times) };
                    s.tasks[i].starts.push((t2, g.bool(4, 5), gen_via(g)));
                }
            }
        }
    }
    let free: Vec<usize> = (0..nt).filter(|i| s.tasks[*i].form != 2 && !s.abs_chain(*i)).collect();
    if !free.is_empty() {
        let (lo, hi) = match profile {
            1 => (2, if tier == Tier::Thorough { 150 } else { 40 }),
            2 => (1, 8),
            _ => (0, 6),
        };
        let extra = g.vec(lo, hi, |g| {
            let task = *g.pick(&free);
            let t = gen_time(g, &mut used_times);
            GSite { task, abs: g.bool(5, 6), t, via: gen_via(g) }
        });
        sites.extend(extra);
    }
    let perm = g.perm(sites.len());
    s.globals = perm.into_iter().map(|k| sites[k].clone()).collect();
    // dsp sites
    let dsp_targets: Vec<usize> = (0..nt).filter(|j| s.spawnable(*j)).collect();
    if !dsp_targets.is_empty() {
        let hi = match profile {
            0 => 3,
            1 => 0,
            _ => {
                if lone_chain.is_none() { 1 } else { 0 }
            }
        };
        let lo = if s.globals.is_empty() || (profile == 2 && lone_chain.is_none()) { 1.min(hi) } else { 0 };
        let unchained: Vec<usize> = dsp_targets.iter().copied().filter(|j| s.tasks[*j].chain.is_none() && s.tasks[*j].spawns.is_empty()).collect();
        s.dsps = g.vec(lo, hi, |g| {
            let every = !unchained.is_empty() && g.bool(1, 6);
            let task = if every { *g.pick(&unchained) } else { *g.pick(&dsp_targets) };
            let at = if every { 0 } else { g.int_small(0, n as i64 - 1) as u64 };
            DSite { every, at, task, d: *g.pick(&DELAYS), via: gen_via(g) }
        });
    }
    if s.globals.is_empty() && s.dsps.is_empty() {
        // nothing would ever run: schedule the first free task once
        if let Some(i) = free.first() {
            s.globals.push(GSite { task: *i, abs: true, t: 1.0, via: 0 });
        }
    }
    s
}

const GRID_TIMES: [f64; 6] = [1.0, 1.5, 2.0, 2.999, 3.0, 4.25];

fn grid_spec(index: u64) -> Spec {
    let k = GRID_TIMES.len() as u64;
    let (a, b, c) = (index % k, (index / k) % k, (index / (k * k)) % k);
    let leaf = TaskSpec { form: 0, chain: None, spawns: vec![], starts: vec![] };
    let chain = TaskSpec { form: 0, chain: Some(Chain { p: 1.0, abs: false, limit: Some(3), via: 0 }), spawns: vec![], starts: vec![] };
    Spec {
        n: 8,
        mono: (a + b + c) % 2 == 0,
        tasks: vec![leaf.clone(), leaf, chain],
        globals: vec![
            GSite { task: 0, abs: true, t: GRID_TIMES[a as usize], via: 0 },
            GSite { task: 1, abs: true, t: GRID_TIMES[b as usize], via: 1 },
            GSite { task: 2, abs: true, t: GRID_TIMES[c as usize], via: 0 },
        ],
        dsps: vec![],
    }
}

// ---------------------------------------------------------------------------------------- shrink

fn drop_task(s: &Spec, k: usize) -> Option<Spec> {
    // only a task nothing refers to can go
    if s.tasks.len() <= 1 || s.globals.iter().any(|g| g.task == k) || s.dsps.iter().any(|d| d.task == k) || s.tasks.iter().any(|t| t.spawns.iter().any(|x| x.to == k)) {
        return None;
    }
    let mut o = s.clone();
    o.tasks.remove(k);
    let fix = |i: &mut usize| {
        if *i > k {
            *i -= 1
        }
    };
    for t in o.tasks.iter_mut() {
        for x in t.spawns.iter_mut() {
            fix(&mut x.to);
        }
    }
    for g in o.globals.iter_mut() {
        fix(&mut g.task);
    }
    for d in o.dsps.iter_mut() {
        fix(&mut d.task);
    }
    Some(o)
}

fn shrink_spec(s: &Spec) -> Vec<Spec> {
    let mut out = vec![];
    for k in 0..s.globals.len() {
        let mut o = s.clone();
        o.globals.remove(k);
        out.push(o);
    }
    for k in 0..s.dsps.len() {
        let mut o = s.clone();
        o.dsps.remove(k);
        out.push(o);
    }
    for i in 0..s.tasks.len() {
        for k in 0..s.tasks[i].spawns.len() {
            let mut o = s.clone();
            o.tasks[i].spawns.remove(k);
            out.push(o);
        }
        if s.tasks[i].chain.is_some() {
            let mut o = s.clone();
            o.tasks[i].chain = None;
            out.push(o);
        }
        for k in 0..s.tasks[i].starts.len() {
            let mut o = s.clone();
            o.tasks[i].starts.remove(k);
            out.push(o);
        }
    }
    for k in (0..s.tasks.len()).rev() {
        out.extend(drop_task(s, k));
    }
    for m in [s.n / 2, s.n.saturating_sub(1)] {
        if m >= 1 && m < s.n {
            let mut o = s.clone();
            o.n = m;
            o.dsps.retain(|d| d.at < m);
            out.push(o);
        }
    }
    // simplify in place
    for i in 0..s.tasks.len() {
        let t = &s.tasks[i];
        if t.form != 0 {
            let mut o = s.clone();
            o.tasks[i].form = 0;
            o.tasks[i].starts.clear();
            out.push(o);
        }
        if let Some(c) = &t.chain {
            let simpler = [Chain { limit: None, ..c.clone() }, Chain { limit: c.limit.map(|l| l / 2 + 1), ..c.clone() }, Chain { abs: false, ..c.clone() }, Chain { via: 0, ..c.clone() }, Chain { p: c.p.floor(), ..c.clone() }, Chain { p: 1.0, ..c.clone() }];
            for c2 in simpler {
                if &c2 != c {
                    let mut o = s.clone();
                    o.tasks[i].chain = Some(c2);
                    out.push(o);
                }
            }
        }
        for k in 0..t.spawns.len() {
            let x = &t.spawns[k];
            let simpler = [Spawn { on: None, ..x.clone() }, Spawn { via: 0, ..x.clone() }, Spawn { d: x.d.floor(), ..x.clone() }, Spawn { d: 1.0, ..x.clone() }];
            for x2 in simpler {
                if &x2 != x {
                    let mut o = s.clone();
                    o.tasks[i].spawns[k] = x2;
                    out.push(o);
                }
            }
        }
    }
    for k in 0..s.globals.len() {
        let x = &s.globals[k];
        let simpler = [GSite { abs: true, ..x.clone() }, GSite { via: 0, ..x.clone() }, GSite { t: x.t.floor(), ..x.clone() }, GSite { t: (x.t / 2.0).floor().max(1.0), ..x.clone() }];
        for x2 in simpler {
            if &x2 != x {
                let mut o = s.clone();
                o.globals[k] = x2;
                out.push(o);
            }
        }
    }
    for k in 0..s.dsps.len() {
        let x = &s.dsps[k];
        let simpler = [DSite { every: false, ..x.clone() }, DSite { via: 0, ..x.clone() }, DSite { d: x.d.floor(), ..x.clone() }, DSite { d: 1.0, ..x.clone() }, DSite { at: x.at / 2, ..x.clone() }, DSite { at: 0, ..x.clone() }];
        for x2 in simpler {
            if &x2 != x {
                let mut o = s.clone();
                o.dsps[k] = x2;
                out.push(o);
            }
        }
    }
    if s.mono {
        let mut o = s.clone();
        o.mono = false;
        out.push(o);
    }
    out.retain(|o| o.validate().is_ok());
    out
}

// ------------------------------------------------------------------------------------------ prop

impl Prop for C11 {
    fn id(&self) -> &'static str {
        "C11"
    }
    fn spaces(&self, tier: Tier) -> Vec<Space> {
        let grid = Space { name: "grid", size: 216, exhaustive: true, chunk: 54, case_timeout_s: 30.0, what: "three tasks scheduled from global scope, every triple of times from {1, 1.5, 2, 2.999, 3, 4.25} (one task is a 3-step chain)" };
        match tier {
            Tier::Quick => vec![grid, Space { name: "burst", size: 600, exhaustive: false, chunk: 50, case_timeout_s: 30.0, what: "1-3 groups of 1-200 one-shot tasks from global scope, each group due at one sample: every one must have run when dsp of that sample runs" }, Space { name: "rand", size: 10000, exhaustive: false, chunk: 100, case_timeout_s: 30.0, what: "generated task multisets (global / dsp / task origins, chains, spawns, equal and fractional times) x run lengths" }],
            Tier::Thorough => vec![grid, Space { name: "burst", size: 12_000, exhaustive: false, chunk: 100, case_timeout_s: 30.0, what: "1-3 groups of 1-200 one-shot tasks from global scope, each group due at one sample: every one must have run when dsp of that sample runs" }, Space { name: "rand", size: 200_000, exhaustive: false, chunk: 400, case_timeout_s: 30.0, what: "generated task multisets (global / dsp / task origins, chains, spawns, equal and fractional times) x run lengths" }],
        }
    }
    fn run(&self, space: &str, index: u64, g: &mut Gen, cx: &Cx) -> CaseResult {
        match space {
            "grid" => finish(&grid_spec(index), cx, "grid"),
            "burst" => {
                let input = gen_burst(g);
                let largest = input.get("burst_largest").and_then(|v| v.as_u64()).unwrap_or(0);
                let mut r = finish_text(&input, cx).unwrap_or_else(|| CaseResult::discard("burst-input"));
                // non-trivial = a group of more than 16 tasks due at one sample
                r.nontrivial = r.nontrivial || largest > 16;
                r.classes.push(format!("burst:{}", if largest > 64 { ">64" } else if largest > 32 { "33-64" } else if largest > 16 { "17-32" } else { "<=16" }));
                r
            }
            _ => {
                let s = gen_spec(g, cx.tier);
                finish(&s, cx, "rand")
            }
        }
    }
    fn run_direct(&self, input: &Value, cx: &Cx) -> Option<CaseResult> {
        if input.get("text").is_some() {
            return finish_text(input, cx);
        }
        let s = Spec::from_json(input)?;
        Some(finish(&s, cx, "direct"))
    }
    fn shrink_direct(&self, input: &Value) -> Vec<Value> {
        if let Some(t) = input.get("text").and_then(|v| v.as_str()) {
            let mut out = vec![];
            if input.get("expect").is_none() {
                for s in crate::props::c01::line_candidates(t) {
                    let mut v = input.clone();
                    v["text"] = json!(s);
                    out.push(v);
                }
            }
            return out;
        }
        match Spec::from_json(input) {
            Some(s) => shrink_spec(&s).iter().map(|x| x.to_json()).collect(),
            None => vec![],
        }
    }
    fn rule(&self) -> String {
        "A case is a task multiset: up to 8 task definitions (named function / inline lambda / letrec closure with a local counter made by a maker function, which may schedule that same closure several times, also for one sample / a closure VALUE bound by a global let or letrec, so that every site passes the same closure), each with an optional self-rescheduling chain (period >= 1, `now + p` or an accumulating absolute-time variable, optionally bounded by the task's own run count) and up to 3 spawns of later tasks (delay >= 1, optionally only on the k-th run); scheduling sites at global scope (up to 40, thorough 150; literal or `now + t` times, equal times reused on purpose, fractional parts, times at or beyond the run length, order permuted), in dsp (`if (now == s) {..}` or on every sample) and in running tasks; three syntactic forms (`f@t`, `_mimium_schedule_at(t, f)`, `| |{ f() }@t`). Effects are commutative: each task increments its own counter and adds its own power of two to a shared accumulator; dsp returns the accumulator (one channel) or the tuple of counters. Every scheduled time truncates to a sample later than the current one (documented precondition). Oracle: a reference schedule model (multiset of pending (floor(time), task); at sample t, before dsp, every task with floor(time) == t runs exactly once, what it schedules joins the multiset) gives the expected output words of every sample; the VM must equal the model bit for bit, the WASM runtime must equal the VM; a panic of either runtime is a failure. Non-trivial = >= 3 task runs, >= 2 runs at one sample, and a rescheduling chain of length >= 3; distinct by source + run length. Run length 8..64 samples (thorough: up to 200). Space `burst`: 1-3 groups of 1-200 one-shot tasks (sizes around powers of two, and arbitrary) scheduled from global scope, each group for one time, statements grouped or interleaved; each task adds its group's weight to a global, so the expected stream is a step function computed directly; non-trivial there = a group of more than 16 tasks due at one sample.".into()
    }
    fn assumptions(&self) -> Vec<String> {
        vec![
            "both runtimes are driven through DspRuntime::run_dsp(Time(t)) for t = 0, 1, 2, ... with the scheduler plugin installed (RunOpts.sched), as the audio drivers do".into(),
            "`now` read inside a running task equals the index of the sample being started (pinned by the scheduler_* fixtures); chains of the `now + p` form rely on it".into(),
            "a time whose truncation equals the current sample (e.g. now + 0.5) is outside the domain (the sample's start has passed); such times are never generated".into(),
            format!("{KF_WASM_TICK_CLOSURE}: while the exclusion is on, a WASM/VM difference is tolerated (and counted) only for programs in which the model sees a closure created during a sample while another such closure is still pending, two created by one activation, or any created at all when dsp returns a tuple; all other programs are compared strictly"),
            "`if` without `else` around a scheduling call makes the VM bytecode generator panic (\"value none not found\"); sites are therefore written `if (c) { f@t } else { nop() }`".into(),
        ]
    }
    fn required_classes(&self, _tier: Tier) -> Vec<&'static str> {
        vec!["origin:global", "origin:dsp", "origin:task", "equal-times", "fractional-time", "chain>=3", "fanout", "out:mono", "out:tuple", "wasm:agrees", "wasm-checked-with-tick-origin", "beyond-run-length", "via:at", "via:schedule_at", "via:wrapper-lambda", "form:named", "form:inline-lambda", "form:letrec-closure", "form:global-closure-value", "maker-closure-scheduled-again", "same-closure-twice-at-one-sample", "chain:absolute-time", "chain:bounded", "dsp-schedules-every-sample", "pending>=10", "chain>=16"]
    }
}
