//! C14 helper — structural fingerprint of a parsed program (spans ignored), comment extraction,
//! and syntactic features of a source text (taken from its concrete syntax tree).

use mimium_lang::ast::program::{Program, ProgramStatement, QualifiedPath, UseTarget, Visibility};
use mimium_lang::ast::statement::Statement;
use mimium_lang::ast::{Expr, Literal, MatchPattern, RecordField};
use mimium_lang::compiler::parser::{self, green::GreenNode, GreenNodeArena, GreenNodeId, SyntaxKind, Token, TokenKind};
use mimium_lang::interner::{ExprNodeId, TypeNodeId};
use mimium_lang::pattern::{Pattern, TypedId, TypedPattern};
use mimium_lang::types::{PType, Type};
use std::fmt::Write;

const MAX_DEPTH: usize = 3000;

fn fp_lit(l: &Literal, o: &mut String) {
    match l {
        Literal::String(s) => {
            let _ = write!(o, "(str {:?})", s.as_str());
        }
        Literal::Int(i) => {
            let _ = write!(o, "(int {i})");
        }
        Literal::Float(s) => {
            let _ = write!(o, "(float {})", s.as_str());
        }
        Literal::SelfLit => o.push_str("self"),
        Literal::Now => o.push_str("now"),
        Literal::SampleRate => o.push_str("samplerate"),
        Literal::PlaceHolder => o.push('_'),
    }
}

fn fp_type(t: TypeNodeId, o: &mut String, d: usize) {
    if d > MAX_DEPTH {
        o.push_str("<deep>");
        return;
    }
    match t.to_type() {
        Type::Primitive(p) => o.push_str(match p {
            PType::Unit => "unit",
            PType::Int => "int",
            PType::Numeric => "float",
            PType::String => "string",
        }),
        Type::Array(t) => {
            o.push_str("(array ");
            fp_type(t, o, d + 1);
            o.push(')');
        }
        Type::Tuple(v) => {
            o.push_str("(ttuple");
            for t in v {
                o.push(' ');
                fp_type(t, o, d + 1);
            }
            o.push(')');
        }
        Type::Record(fs) => {
            o.push_str("(record");
            for f in fs {
                let _ = write!(o, " ({}{} ", f.key.as_str(), if f.has_default { " default" } else { "" });
                fp_type(f.ty, o, d + 1);
                o.push(')');
            }
            o.push(')');
        }
        Type::Function { arg, ret } => {
            o.push_str("(fn ");
            fp_type(arg, o, d + 1);
            o.push_str(" -> ");
            fp_type(ret, o, d + 1);
            o.push(')');
        }
        Type::Ref(t) => {
            o.push_str("(ref ");
            fp_type(t, o, d + 1);
            o.push(')');
        }
        Type::Code(t) => {
            o.push_str("(code ");
            fp_type(t, o, d + 1);
            o.push(')');
        }
        Type::Union(v) => {
            o.push_str("(union");
            for t in v {
                o.push(' ');
                fp_type(t, o, d + 1);
            }
            o.push(')');
        }
        Type::UserSum { name, variants } => {
            let _ = write!(o, "(usersum {}", name.as_str());
            for (n, p) in variants {
                let _ = write!(o, " ({}", n.as_str());
                if let Some(p) = p {
                    o.push(' ');
                    fp_type(p, o, d + 1);
                }
                o.push(')');
            }
            o.push(')');
        }
        Type::Boxed(t) => {
            o.push_str("(boxed ");
            fp_type(t, o, d + 1);
            o.push(')');
        }
        Type::Intermediate(_) => o.push_str("?intermediate"),
        Type::TypeScheme(_) => o.push_str("?scheme"),
        Type::TypeAlias(s) => {
            let _ = write!(o, "(named {})", s.as_str());
        }
        Type::Any => o.push_str("any"),
        Type::Failure => o.push_str("failure"),
        Type::Unknown => o.push('?'),
    }
}

fn fp_tid(t: &TypedId, o: &mut String, d: usize) {
    let _ = write!(o, "({} : ", t.id.as_str());
    fp_type(t.ty, o, d + 1);
    if let Some(dv) = t.default_value {
        o.push_str(" = ");
        fp_expr(dv, o, d + 1);
    }
    o.push(')');
}

fn fp_pat(p: &Pattern, o: &mut String) {
    match p {
        Pattern::Single(s) => o.push_str(s.as_str()),
        Pattern::Placeholder => o.push('_'),
        Pattern::Tuple(v) => {
            o.push_str("(ptuple");
            for p in v {
                o.push(' ');
                fp_pat(p, o);
            }
            o.push(')');
        }
        Pattern::Record(v) => {
            o.push_str("(precord");
            for (k, p) in v {
                let _ = write!(o, " ({} = ", k.as_str());
                fp_pat(p, o);
                o.push(')');
            }
            o.push(')');
        }
        Pattern::Error => o.push_str("<pattern-error>"),
    }
}

fn fp_tpat(t: &TypedPattern, o: &mut String, d: usize) {
    o.push('(');
    fp_pat(&t.pat, o);
    o.push_str(" : ");
    fp_type(t.ty, o, d + 1);
    if let Some(dv) = t.default_value {
        o.push_str(" = ");
        fp_expr(dv, o, d + 1);
    }
    o.push(')');
}

fn fp_mpat(p: &MatchPattern, o: &mut String) {
    match p {
        MatchPattern::Literal(l) => fp_lit(l, o),
        MatchPattern::Wildcard => o.push('_'),
        MatchPattern::Variable(s) => {
            let _ = write!(o, "(var {})", s.as_str());
        }
        MatchPattern::Constructor(s, inner) => {
            let _ = write!(o, "(ctor {}", s.as_str());
            if let Some(i) = inner {
                o.push(' ');
                fp_mpat(i, o);
            }
            o.push(')');
        }
        MatchPattern::Tuple(v) => {
            o.push_str("(mtuple");
            for p in v {
                o.push(' ');
                fp_mpat(p, o);
            }
            o.push(')');
        }
    }
}

fn fp_fields(fs: &[RecordField], o: &mut String, d: usize) {
    for f in fs {
        let _ = write!(o, " ({} = ", f.name.as_str());
        fp_expr(f.expr, o, d + 1);
        o.push(')');
    }
}

fn fp_path(p: &QualifiedPath, o: &mut String) {
    let segs: Vec<&str> = p.segments.iter().map(|s| s.as_str()).collect();
    o.push_str(&segs.join("::"));
}

fn fp_opt(e: Option<ExprNodeId>, o: &mut String, d: usize) {
    match e {
        Some(e) => fp_expr(e, o, d + 1),
        None => o.push_str("()"),
    }
}

fn fp_list(tag: &str, es: &[ExprNodeId], o: &mut String, d: usize) {
    o.push('(');
    o.push_str(tag);
    for e in es {
        o.push(' ');
        fp_expr(*e, o, d + 1);
    }
    o.push(')');
}

pub fn fp_expr(e: ExprNodeId, o: &mut String, d: usize) {
    if d > MAX_DEPTH {
        o.push_str("<deep>");
        return;
    }
    match e.to_expr() {
        Expr::Literal(l) => fp_lit(&l, o),
        Expr::Var(s) => {
            let _ = write!(o, "(var {})", s.as_str());
        }
        Expr::QualifiedVar(p) => {
            o.push_str("(qvar ");
            fp_path(&p, o);
            o.push(')');
        }
        Expr::Block(b) => {
            o.push_str("(block ");
            fp_opt(b, o, d);
            o.push(')');
        }
        Expr::Tuple(v) => fp_list("tuple", &v, o, d),
        Expr::Proj(e, i) => {
            let _ = write!(o, "(proj {i} ");
            fp_expr(e, o, d + 1);
            o.push(')');
        }
        Expr::ArrayAccess(a, i) => fp_list("index", &[a, i], o, d),
        Expr::ArrayLiteral(v) => fp_list("array", &v, o, d),
        Expr::RecordLiteral(fs) => {
            o.push_str("(record");
            fp_fields(&fs, o, d);
            o.push(')');
        }
        Expr::ImcompleteRecord(fs) => {
            o.push_str("(record..");
            fp_fields(&fs, o, d);
            o.push(')');
        }
        Expr::RecordUpdate(r, fs) => {
            o.push_str("(record-update ");
            fp_expr(r, o, d + 1);
            fp_fields(&fs, o, d);
            o.push(')');
        }
        Expr::FieldAccess(r, f) => {
            let _ = write!(o, "(field {} ", f.as_str());
            fp_expr(r, o, d + 1);
            o.push(')');
        }
        Expr::Apply(f, args) => {
            o.push_str("(app ");
            fp_expr(f, o, d + 1);
            for a in args {
                o.push(' ');
                fp_expr(a, o, d + 1);
            }
            o.push(')');
        }
        Expr::MacroExpand(f, args) => {
            o.push_str("(macro! ");
            fp_expr(f, o, d + 1);
            for a in args {
                o.push(' ');
                fp_expr(a, o, d + 1);
            }
            o.push(')');
        }
        Expr::BinOp(l, (op, _), r) => {
            let _ = write!(o, "(binop {op:?} ");
            fp_expr(l, o, d + 1);
            o.push(' ');
            fp_expr(r, o, d + 1);
            o.push(')');
        }
        Expr::UniOp((op, _), x) => {
            let _ = write!(o, "(uniop {op:?} ");
            fp_expr(x, o, d + 1);
            o.push(')');
        }
        Expr::Paren(x) => fp_list("paren", &[x], o, d),
        Expr::Lambda(ps, ret, body) => {
            o.push_str("(lambda (");
            for p in &ps {
                fp_tid(p, o, d);
            }
            o.push_str(") -> ");
            match ret {
                Some(t) => fp_type(t, o, d + 1),
                None => o.push_str("none"),
            }
            o.push(' ');
            fp_expr(body, o, d + 1);
            o.push(')');
        }
        Expr::Assign(l, r) => fp_list("assign", &[l, r], o, d),
        Expr::Then(a, b) => {
            o.push_str("(then ");
            fp_expr(a, o, d + 1);
            o.push(' ');
            fp_opt(b, o, d);
            o.push(')');
        }
        Expr::Feed(s, x) => {
            let _ = write!(o, "(feed {} ", s.as_str());
            fp_expr(x, o, d + 1);
            o.push(')');
        }
        Expr::Let(p, v, then) => {
            o.push_str("(let ");
            fp_tpat(&p, o, d);
            o.push(' ');
            fp_expr(v, o, d + 1);
            o.push(' ');
            fp_opt(then, o, d);
            o.push(')');
        }
        Expr::LetRec(id, v, then) => {
            o.push_str("(letrec ");
            fp_tid(&id, o, d);
            o.push(' ');
            fp_expr(v, o, d + 1);
            o.push(' ');
            fp_opt(then, o, d);
            o.push(')');
        }
        Expr::If(c, t, e) => {
            o.push_str("(if ");
            fp_expr(c, o, d + 1);
            o.push(' ');
            fp_expr(t, o, d + 1);
            o.push(' ');
            fp_opt(e, o, d);
            o.push(')');
        }
        Expr::Match(s, arms) => {
            o.push_str("(match ");
            fp_expr(s, o, d + 1);
            for a in arms {
                o.push_str(" (arm ");
                fp_mpat(&a.pattern, o);
                o.push_str(" => ");
                fp_expr(a.body, o, d + 1);
                o.push(')');
            }
            o.push(')');
        }
        Expr::Bracket(x) => fp_list("bracket", &[x], o, d),
        Expr::Escape(x) => fp_list("escape", &[x], o, d),
        Expr::Error => o.push_str("<expr-error>"),
    }
}

fn fp_stmt(s: &Statement, o: &mut String, d: usize) {
    match s {
        Statement::Let(p, e) => {
            o.push_str("(slet ");
            fp_tpat(p, o, d);
            o.push(' ');
            fp_expr(*e, o, d + 1);
            o.push(')');
        }
        Statement::LetRec(id, e) => {
            o.push_str("(sletrec ");
            fp_tid(id, o, d);
            o.push(' ');
            fp_expr(*e, o, d + 1);
            o.push(')');
        }
        Statement::Assign(l, r) => fp_list("sassign", &[*l, *r], o, d),
        Statement::Single(e) => fp_list("single", &[*e], o, d),
        Statement::DeclareStage(k) => {
            let _ = write!(o, "(stage {k})");
        }
        Statement::Error => o.push_str("<statement-error>"),
    }
}

fn vis(v: &Visibility) -> &'static str {
    match v {
        Visibility::Public => "pub ",
        Visibility::Private => "",
    }
}

fn fp_pstmt(s: &ProgramStatement, o: &mut String, d: usize) {
    match s {
        ProgramStatement::FnDefinition { visibility, name, args, return_type, body } => {
            let _ = write!(o, "({}fn {} (", vis(visibility), name.as_str());
            for a in &args.0 {
                fp_tid(a, o, d);
            }
            o.push_str(") -> ");
            match return_type {
                Some(t) => fp_type(*t, o, d + 1),
                None => o.push_str("none"),
            }
            o.push(' ');
            fp_expr(*body, o, d + 1);
            o.push(')');
        }
        ProgramStatement::StageDeclaration { stage } => {
            let _ = write!(o, "(#stage {stage})");
        }
        ProgramStatement::GlobalStatement(st) => fp_stmt(st, o, d),
        ProgramStatement::Import(s) => {
            let _ = write!(o, "(include {:?})", s.as_str());
        }
        ProgramStatement::ModuleDefinition { visibility, name, body } => {
            let _ = write!(o, "({}mod {}", vis(visibility), name.as_str());
            match body {
                None => o.push_str(" external"),
                Some(b) => {
                    for (s, _) in b {
                        o.push('\n');
                        fp_pstmt(s, o, d + 1);
                    }
                }
            }
            o.push(')');
        }
        ProgramStatement::UseStatement { visibility, path, target } => {
            let _ = write!(o, "({}use ", vis(visibility));
            fp_path(path, o);
            match target {
                UseTarget::Single => {}
                UseTarget::Multiple(v) => {
                    o.push_str(" {");
                    for s in v {
                        o.push(' ');
                        o.push_str(s.as_str());
                    }
                    o.push_str(" }");
                }
                UseTarget::Wildcard => o.push_str(" *"),
            }
            o.push(')');
        }
        ProgramStatement::TypeAlias { visibility, name, target_type } => {
            let _ = write!(o, "({}type-alias {} ", vis(visibility), name.as_str());
            fp_type(*target_type, o, d + 1);
            o.push(')');
        }
        ProgramStatement::TypeDeclaration { visibility, name, variants, is_recursive } => {
            let _ = write!(o, "({}type{} {}", vis(visibility), if *is_recursive { "-rec" } else { "" }, name.as_str());
            for v in variants {
                let _ = write!(o, " ({}", v.name.as_str());
                if let Some(p) = v.payload {
                    o.push(' ');
                    fp_type(p, o, d + 1);
                }
                o.push(')');
            }
            o.push(')');
        }
        // comments are compared separately (from the token stream)
        ProgramStatement::Comment(_) | ProgramStatement::DocComment(_) => {}
        ProgramStatement::Error => o.push_str("<program-statement-error>"),
    }
}

pub fn fp_program(p: &Program) -> String {
    let mut o = String::with_capacity(1024);
    for (s, _) in &p.statements {
        fp_pstmt(s, &mut o, 0);
        o.push('\n');
    }
    o
}

/// Parse a text: `Ok(fingerprint)` when the parser reports no error, else `Err(first error)`.
pub fn parse_fp(src: &str) -> Result<String, String> {
    let (prog, errs) = parser::parse_program(src, std::path::PathBuf::new());
    if let Some(e) = errs.first() {
        let toks = parser::tokenize(src);
        let at = toks.get(e.token_index).map(|t| t.start).unwrap_or(src.len());
        let line = src[..at.min(src.len())].matches('\n').count() + 1;
        let line_text: String = src.lines().nth(line - 1).unwrap_or("").chars().take(80).collect();
        return Err(format!("{} parser error(s); first: {} at byte {at} (line {line}: {line_text:?})", errs.len(), e));
    }
    Ok(fp_program(&prog))
}

/// first difference between two fingerprints, with context
pub fn fp_diff(a: &str, b: &str) -> String {
    let ab = a.as_bytes();
    let bb = b.as_bytes();
    let mut i = 0;
    while i < ab.len() && i < bb.len() && ab[i] == bb[i] {
        i += 1;
    }
    let ctx = |s: &str| -> String {
        let mut st = i.saturating_sub(70);
        while !s.is_char_boundary(st) {
            st -= 1;
        }
        let mut en = (i + 70).min(s.len());
        while !s.is_char_boundary(en) {
            en += 1;
        }
        s[st..en].replace('\n', "⏎")
    };
    format!("input tree …{}… / output tree …{}…", ctx(a), ctx(b))
}

/// comment token texts in order, trailing whitespace trimmed
pub fn comments(src: &str) -> Vec<String> {
    parser::tokenize(src)
        .iter()
        .filter(|t| matches!(t.kind, TokenKind::SingleLineComment | TokenKind::MultiLineComment))
        .map(|t| t.text(src).trim_end().to_string())
        .collect()
}

// ---------------------------------------------------------------------------------------------
// syntactic features of an input (from its CST): used for class labels and for the narrow
// predicates of the known-finding tolerances
// ---------------------------------------------------------------------------------------------

#[derive(Default, Clone, Debug)]
pub struct Features {
    /// syntax kinds present
    pub kinds: Vec<SyntaxKind>,
    /// a parameter list / lambda parameter with a type annotation
    pub typed_param: bool,
    /// a parameter with a default value
    pub param_default: bool,
    /// comment tokens: (kind is block?, attached to which non-trivia token kind, leading?)
    pub comment_sites: Vec<CommentSite>,
    pub n_comments: usize,
    /// a lambda with an empty parameter list `| |`
    pub empty_lambda: bool,
    /// an `if` whose condition does not start with `(` but with a word/number (the printer glues it to `if`)
    pub if_cond_bare: bool,
    if_cond_first: Vec<usize>,
    /// a record type `{a: T}` / record pattern `{a = p}` with at least one field
    pub record_type_fields: bool,
    pub record_pattern_fields: bool,
    /// for every token of `tokenize(src)`: syntax kind of the innermost CST node that holds it
    pub tok_parent: Vec<Option<SyntaxKind>>,
    /// for every token: syntax kind of the lowest node that holds both this token and the next
    /// non-trivia token (None for the last token)
    pub lca_after: Vec<Option<SyntaxKind>>,
    /// token indices of the trailing comma of a one-element tuple expression / tuple type `(x,)`
    pub single_tuple_commas: Vec<usize>,
    /// parentheses of a parenthesised element type `((T), U)` of a tuple type: they are direct
    /// children of the tuple type node and the list printer prints only one pair per node
    pub unprinted_type_parens: Vec<usize>,
    /// the same for the token alignment (tokens of the input that have no counterpart in the output)
    pub align_skip: Vec<usize>,
    /// `{` of a record type that holds a parenthesised element type: printed as `(`
    pub align_replace: Vec<(usize, &'static str)>,
    /// last token of a union type that is the return type of a lambda (`|x| -> A | B body`)
    pub lambda_union_ret_last: Vec<usize>,
}

#[derive(Clone, Debug)]
pub struct CommentSite {
    /// token index of the comment (source order)
    pub token: usize,
    /// kind of the non-trivia token the comment is attached to
    pub owner: TokenKind,
    /// its token index
    pub owner_token: usize,
    /// attached as leading trivia (own line before the token) rather than trailing
    pub leading: bool,
    /// syntax kind of the innermost CST node that holds the owner token
    pub parent: Option<SyntaxKind>,
}

impl Features {
    pub fn has(&self, k: SyntaxKind) -> bool {
        self.kinds.contains(&k)
    }
}

fn walk(arena: &GreenNodeArena, id: GreenNodeId, parent: Option<SyntaxKind>, f: &mut Features, tok_parent: &mut Vec<Option<SyntaxKind>>, tokens: &[Token], depth: usize) {
    if depth > 5000 {
        return;
    }
    match arena.get(id) {
        GreenNode::Token { token_index, .. } => {
            if let Some(slot) = tok_parent.get_mut(*token_index) {
                *slot = parent;
            }
            let _ = tokens;
        }
        GreenNode::Internal { kind, children, .. } => {
            if !f.kinds.contains(kind) {
                f.kinds.push(*kind);
            }
            match kind {
                SyntaxKind::ParamList | SyntaxKind::LambdaExpr => {
                    for c in children {
                        match arena.kind(*c) {
                            Some(SyntaxKind::TypeAnnotation) => f.typed_param = true,
                            Some(SyntaxKind::ParamDefault) => f.param_default = true,
                            _ => {}
                        }
                    }
                }
                SyntaxKind::TupleExpr | SyntaxKind::TupleType => {
                    if *kind == SyntaxKind::TupleType {
                        type_list_delims(arena, children, tokens, false, f);
                    }
                    let tk = |c: &GreenNodeId| match arena.get(*c) {
                        GreenNode::Token { token_index, .. } => tokens.get(*token_index).map(|t| (t.kind, *token_index)),
                        _ => None,
                    };
                    let commas: Vec<usize> = children.iter().enumerate().filter(|(_, c)| tk(c).map(|t| t.0) == Some(TokenKind::Comma)).map(|(i, _)| i).collect();
                    if commas.len() == 1 && children.get(commas[0] + 1).and_then(tk).map(|t| t.0) == Some(TokenKind::ParenEnd) {
                        if let Some((_, ti)) = tk(&children[commas[0]]) {
                            f.single_tuple_commas.push(ti);
                        }
                    }
                }
                SyntaxKind::RecordType => {
                    type_list_delims(arena, children, tokens, true, f);
                    if children.iter().any(|c| matches!(arena.get(*c), GreenNode::Token { token_index, .. } if tokens.get(*token_index).map(|t| t.kind) == Some(TokenKind::Colon))) {
                        f.record_type_fields = true;
                    }
                }
                SyntaxKind::RecordPattern => {
                    if children.iter().any(|c| matches!(arena.get(*c), GreenNode::Token { token_index, .. } if tokens.get(*token_index).map(|t| t.kind) == Some(TokenKind::Assign))) {
                        f.record_pattern_fields = true;
                    }
                }
                SyntaxKind::IfExpr => {
                    // children: `if`, condition, then, [else, alternative]
                    if let Some(cond) = children.get(1) {
                        if let Some(k) = first_token(arena, *cond, 0).and_then(|ti| tokens.get(ti)).map(|t| t.kind) {
                            if k != TokenKind::ParenBegin {
                                if let Some(ti) = first_token(arena, *cond, 0) {
                                    f.if_cond_first.push(ti);
                                }
                            }
                        }
                    }
                }
                _ => {}
            }
            if *kind == SyntaxKind::LambdaExpr {
                for c in children {
                    if arena.kind(*c) == Some(SyntaxKind::UnionType) {
                        if let Some(l) = last_token(arena, *c, 0) {
                            f.lambda_union_ret_last.push(l);
                        }
                    }
                }
                let bars: Vec<usize> = children.iter().enumerate().filter(|(_, c)| matches!(arena.get(**c), GreenNode::Token { token_index, .. } if tokens.get(*token_index).map(|t| t.kind) == Some(TokenKind::LambdaArgBeginEnd))).map(|(i, _)| i).collect();
                if bars.len() >= 2 && bars[1] == bars[0] + 1 {
                    f.empty_lambda = true;
                }
            }
            for c in children {
                walk(arena, *c, Some(*kind), f, tok_parent, tokens, depth + 1);
            }
        }
    }
}

/// returns the last token of the subtree; records for each boundary between two children of a
/// node that node's kind
fn lca_walk(arena: &GreenNodeArena, id: GreenNodeId, lca: &mut Vec<Option<SyntaxKind>>, depth: usize) -> Option<usize> {
    if depth > 5000 {
        return None;
    }
    match arena.get(id) {
        GreenNode::Token { token_index, .. } => Some(*token_index),
        GreenNode::Internal { kind, children, .. } => {
            let mut prev_last: Option<usize> = None;
            for c in children {
                let has_tokens = first_token(arena, *c, depth + 1).is_some();
                if has_tokens {
                    if let Some(p) = prev_last {
                        if let Some(slot) = lca.get_mut(p) {
                            *slot = Some(*kind);
                        }
                    }
                }
                if let Some(l) = lca_walk(arena, *c, lca, depth + 1) {
                    prev_last = Some(l);
                }
            }
            prev_last
        }
    }
}

/// The list printer prints one opening and one closing delimiter per list node: the LAST
/// opener / closer among the node's direct children.  The parentheses of a parenthesised element
/// type `(T)` are direct children of the enclosing tuple / record type node.
fn type_list_delims(arena: &GreenNodeArena, children: &[GreenNodeId], tokens: &[Token], record: bool, f: &mut Features) {
    let direct = |want: &[TokenKind]| -> Vec<usize> {
        children
            .iter()
            .filter_map(|c| match arena.get(*c) {
                GreenNode::Token { token_index, .. } if tokens.get(*token_index).map(|t| want.contains(&t.kind)).unwrap_or(false) => Some(*token_index),
                _ => None,
            })
            .collect()
    };
    let opens = direct(&[TokenKind::ParenBegin, TokenKind::BlockBegin]);
    let closes = direct(&[TokenKind::ParenEnd, TokenKind::BlockEnd]);
    if opens.len() >= 2 {
        f.unprinted_type_parens.extend(&opens[..opens.len() - 1]);
        if record {
            f.align_replace.push((opens[0], "("));
            f.align_skip.extend(&opens[1..]);
        } else {
            // all parentheses read the same: align the first one with the printed one
            f.align_skip.extend(&opens[1..]);
        }
    }
    if closes.len() >= 2 {
        f.unprinted_type_parens.extend(&closes[..closes.len() - 1]);
        f.align_skip.extend(&closes[..closes.len() - 1]);
    }
}

fn last_token(arena: &GreenNodeArena, id: GreenNodeId, depth: usize) -> Option<usize> {
    if depth > 5000 {
        return None;
    }
    match arena.get(id) {
        GreenNode::Token { token_index, .. } => Some(*token_index),
        GreenNode::Internal { children, .. } => children.iter().rev().find_map(|c| last_token(arena, *c, depth + 1)),
    }
}

fn first_token(arena: &GreenNodeArena, id: GreenNodeId, depth: usize) -> Option<usize> {
    if depth > 5000 {
        return None;
    }
    match arena.get(id) {
        GreenNode::Token { token_index, .. } => Some(*token_index),
        GreenNode::Internal { children, .. } => children.iter().find_map(|c| first_token(arena, *c, depth + 1)),
    }
}

/// Features of a text that parses without errors (None otherwise).
pub fn features(src: &str) -> Option<Features> {
    let tokens = parser::tokenize(src);
    let pre = parser::preparse(&tokens);
    let (root, arena, tokens2, errs) = parser::parse_cst(tokens.clone(), &pre);
    if !errs.is_empty() {
        return None;
    }
    let mut f = Features::default();
    let mut tok_parent: Vec<Option<SyntaxKind>> = vec![None; tokens2.len()];
    walk(&arena, root, None, &mut f, &mut tok_parent, &tokens2, 0);
    // comment sites
    let site = |list: &Vec<usize>, owner_pre_idx: usize, leading: bool, f: &mut Features| {
        let Some(&owner_tok) = pre.token_indices.get(owner_pre_idx) else { return };
        for &ti in list.iter() {
            let t = &tokens2[ti];
            if !matches!(t.kind, TokenKind::SingleLineComment | TokenKind::MultiLineComment) {
                continue;
            }
            f.comment_sites.push(CommentSite {
                token: ti,
                owner: tokens2[owner_tok].kind,
                owner_token: owner_tok,
                leading,
                parent: tok_parent[owner_tok],
            });
        }
    };
    let mut keys: Vec<usize> = pre.leading_trivia_map.keys().copied().collect();
    keys.sort();
    for k in keys {
        site(&pre.leading_trivia_map[&k], k, true, &mut f);
    }
    let mut keys: Vec<usize> = pre.trailing_trivia_map.keys().copied().collect();
    keys.sort();
    for k in keys {
        site(&pre.trailing_trivia_map[&k], k, false, &mut f);
    }
    f.comment_sites.sort_by_key(|c| c.token);
    f.tok_parent = tok_parent.clone();
    let mut lca: Vec<Option<SyntaxKind>> = vec![None; tokens2.len()];
    lca_walk(&arena, root, &mut lca, 0);
    f.lca_after = lca;
    f.if_cond_bare = f.if_cond_first.iter().any(|ti| tokens2.get(*ti).map(|t| t.text(src).starts_with(|c: char| c.is_alphanumeric() || c == '_')).unwrap_or(false));
    f.n_comments = tokens2.iter().filter(|t| matches!(t.kind, TokenKind::SingleLineComment | TokenKind::MultiLineComment)).count();
    Some(f)
}

// ---------------------------------------------------------------------------------------------
// fingerprint normalisation used by one known finding: `(tuple X)` with one element and
// `(paren X)` are both replaced by `X` (expression level only; tuple types are tagged `ttuple`)
// ---------------------------------------------------------------------------------------------

enum Sx {
    Atom(String),
    List(Vec<Sx>),
}

fn sx_parse(b: &[u8], pos: &mut usize, depth: usize) -> Vec<Sx> {
    let mut out = vec![];
    while *pos < b.len() {
        match b[*pos] {
            b')' => {
                *pos += 1;
                return out;
            }
            b'(' if depth < 4000 => {
                *pos += 1;
                out.push(Sx::List(sx_parse(b, pos, depth + 1)));
            }
            c if c == b' ' || c == b'\n' => *pos += 1,
            b'"' => {
                let st = *pos;
                *pos += 1;
                while *pos < b.len() && b[*pos] != b'"' {
                    if b[*pos] == b'\\' {
                        *pos += 1;
                    }
                    *pos += 1;
                }
                *pos = (*pos + 1).min(b.len());
                out.push(Sx::Atom(String::from_utf8_lossy(&b[st..*pos]).to_string()));
            }
            _ => {
                let st = *pos;
                while *pos < b.len() && !matches!(b[*pos], b' ' | b'\n' | b'(' | b')') {
                    *pos += 1;
                }
                if *pos == st {
                    *pos += 1;
                }
                out.push(Sx::Atom(String::from_utf8_lossy(&b[st..*pos]).to_string()));
            }
        }
    }
    out
}

fn sx_print(x: &Sx, o: &mut String) {
    match x {
        Sx::Atom(a) => o.push_str(a),
        Sx::List(v) => {
            if v.len() == 2 {
                if let Sx::Atom(h) = &v[0] {
                    if h == "tuple" || h == "paren" {
                        sx_print(&v[1], o);
                        return;
                    }
                }
            }
            o.push('(');
            for (i, c) in v.iter().enumerate() {
                if i > 0 {
                    o.push(' ');
                }
                sx_print(c, o);
            }
            o.push(')');
        }
    }
}

pub fn without_single_tuples(fp: &str) -> String {
    let mut pos = 0;
    let v = sx_parse(fp.as_bytes(), &mut pos, 0);
    let mut o = String::new();
    for x in &v {
        sx_print(x, &mut o);
        o.push('\n');
    }
    o
}
