//! C03 — programs accepted by the type checker run without crashes or memory errors.

use crate::engine::case::*;
use crate::engine::panics;
use crate::engine::rng::hash64;
use crate::engine::tape::Gen;
use crate::gens::prog::{self, Layout, PG};
use crate::gens::sumgen;
use crate::props::c01::{self, gen_inputs, line_candidates};
use crate::runners::exec::{self, Exec, Inputs, RunOpts};
use crate::runners::front;
use serde_json::{json, Value};

pub struct C03;

/// a unit-valued block (`{ let x = e  {} }`) used where a value is needed is accepted by the type
/// checker and crashes code generation or the VM (known finding): the mutation is switched off
pub const KF_UNIT_VALUE: &str = "C03-unit-value-accepted";
/// the type checker accepts many ill-typed near-miss programs (a number for a function, a tuple
/// for a number, arity mismatches, arrays, ...) which then crash code generation or a runtime at
/// ever new sites: crashes of accepted MUTANTS are attributed to this one finding
pub const KF_ILLTYPED: &str = "C03-typechecker-accepts-ill-typed-mutants";
/// `type rec T = A | B(T)`: a constructor whose only payload is the recursive type crashes the VM
pub const KF_SUM_LONE_REC: &str = "C03-sum-constructor-with-lone-recursive-payload";
/// exhaustiveness of a constructor match is not checked when the scrutinee's type is inferred
pub const KF_SUM_UNANNOTATED: &str = "C03-match-exhaustiveness-unchecked-without-annotation";

pub fn prop() -> Option<&'static dyn Prop> {
    Some(&C03)
}

struct Out {
    fail: Option<(String, String)>,
    accepted: bool,
    ran: bool,
}

fn check(src: &str, inputs: &Inputs, n: u64, declared_out: Option<usize>) -> Out {
    let mut o = Out { fail: None, accepted: false, ran: false };
    macro_rules! fail {
        ($sig:expr, $($arg:tt)*) => {{ o.fail = Some((format!("c03:{}", $sig), format!($($arg)*))); return o; }};
    }
    // 1. does the type checker accept it?  (emit_mir = parse + type check + MIR generation)
    let mut ctx = front::exec_context(false);
    ctx.prepare_compiler();
    match panics::catch(|| ctx.get_compiler().unwrap().emit_mir(src).map(|_| ()).map_err(|e| front::diags_of(&e))) {
        Err(p) => {
            let s = p.signature();
            let stage = if s.contains("typing") || s.contains("parser") { "front-panic" } else { "mirgen-panic" };
            fail!(format!("{stage}:{s}"), "emit_mir: {}", p.describe());
        }
        Ok(Err(_)) => return o, // rejected with diagnostics: fine
        Ok(Ok(())) => {}
    }
    o.accepted = true;
    let opts = RunOpts { n, sched: false, want_state: false, want_counts: false, want_trace: false };
    // 2. VM
    match exec::run_vm(src, inputs, &opts) {
        Exec::Rejected(d) => fail!("vm-rejects-accepted-program", "emit_mir accepted the program but the VM path rejects it: {}", d.first().map(|x| x.message.clone()).unwrap_or_default()),
        Exec::NoIo => {}
        Exec::Panic(stage, p) => {
            if p.msg.contains("must be in the future") || p.msg.contains("on empty array") {
                return o;
            }
            let st = if stage.starts_with("dsp@") { "dsp" } else { stage.as_str() };
            fail!(format!("vm-{st}-panic:{}", p.signature()), "VM {stage}: {}", p.describe());
        }
        Exec::Error(stage, e) => fail!(format!("vm-error:{stage}"), "VM {stage}: {e}"),
        Exec::Ran(a) => {
            o.ran = true;
            for (t, w) in a.samples.iter().enumerate() {
                if w.len() != a.n_out as usize {
                    fail!("output-width", "sample {t}: VM yields {} words for {} declared output channels", w.len(), a.n_out);
                }
            }
            if let Some(d) = declared_out {
                if a.n_out as usize != d {
                    fail!("output-channels", "dsp declares {d} output words, the compiled program reports {}", a.n_out);
                }
            }
        }
    }
    // 3. WASM
    match exec::run_wasm(src, inputs, &opts) {
        Exec::Rejected(d) => fail!("wasm-rejects-accepted-program", "emit_mir accepted the program but emit_wasm rejects it: {}", d.first().map(|x| x.message.clone()).unwrap_or_default()),
        Exec::NoIo => {}
        Exec::Panic(stage, p) => {
            let st = if stage.starts_with("dsp@") { "dsp" } else { stage.as_str() };
            fail!(format!("wasm-{st}-panic:{}", p.signature()), "WASM {stage}: {}", p.describe());
        }
        Exec::Error(stage, e) => {
            let k = if e.contains("load_module") { "wasm-invalid-module" } else { "wasm-error" };
            fail!(format!("{k}:{stage}"), "WASM {stage}: {e}");
        }
        Exec::Ran(b) => {
            if !b.bad_rc.is_empty() {
                fail!("wasm-trap", "WASM run_dsp returned {} at sample {}", b.bad_rc[0].1, b.bad_rc[0].0);
            }
            for (t, w) in b.samples.iter().enumerate() {
                if w.len() != b.n_out as usize {
                    fail!("output-width", "sample {t}: WASM yields {} words for {} declared output channels", w.len(), b.n_out);
                }
            }
        }
    }
    o
}

fn finish(src: &str, inputs: &Inputs, n: u64, declared_out: Option<usize>, classes: Vec<String>, mutant: bool, cx: &Cx) -> CaseResult {
    let key = format!("{src}\u{1}{}\u{1}{n}", inputs.describe());
    let hash = hash64(key.as_bytes());
    let direct = json!({"text": src, "input_kind": inputs.kind, "input_scale": inputs.scale, "n": n});
    if cx.dry {
        let mut r = CaseResult::discard("dry");
        r.render = Some(direct.clone());
        r.direct = Some(direct);
        return r;
    }
    let o = check(src, inputs, n, declared_out);
    if mutant && !cx.strict && cx.excluded(KF_ILLTYPED) {
        if let Some((sig, _)) = &o.fail {
            let crash = sig.contains("panic") || sig.contains("wasm-invalid-module") || sig.contains("wasm-trap") || sig.contains("wasm-error") || sig.contains("vm-error");
            if crash {
                let mut r = CaseResult::discard(format!("known-finding:{KF_ILLTYPED}"));
                r.count(&format!("excluded_by_known_finding:{KF_ILLTYPED}"), 1);
                return r;
            }
        }
    }
    let mut r = match &o.fail {
        Some((s, m)) => CaseResult::fail(hash, s.clone(), m.clone()),
        None => CaseResult::held(hash),
    };
    r.classes = classes;
    r.classes.push(if o.accepted { "accepted" } else { "rejected" }.into());
    if mutant && o.accepted {
        r.classes.push("accepted-mutant".into());
    }
    if o.ran {
        r.classes.push("ran".into());
    }
    r.nontrivial = (o.accepted && o.ran) || r.is_fail();
    if cx.render || r.is_fail() {
        r.render = Some(json!({"text": src, "inputs": inputs.describe(), "n": n}));
    }
    r.direct = Some(direct);
    r
}

impl Prop for C03 {
    fn id(&self) -> &'static str {
        "C03"
    }
    fn spaces(&self, tier: Tier) -> Vec<Space> {
        match tier {
            Tier::Quick => vec![
                Space { name: "gen", size: 2500, exhaustive: false, chunk: 50, case_timeout_s: 20.0, what: "generated well-typed core-language programs x run lengths" },
                Space { name: "mutant", size: 3500, exhaustive: false, chunk: 70, case_timeout_s: 20.0, what: "generated programs after 1-2 type-changing mutations (near-miss programs)" },
                Space { name: "sum", size: 3000, exhaustive: false, chunk: 100, case_timeout_s: 20.0, what: "generated programs over user-declared (also recursive) sum types with constructor matches" },
                Space { name: "sum-illtyped", size: 3000, exhaustive: false, chunk: 100, case_timeout_s: 20.0, what: "the same with one deliberate type error (missing arm, duplicate arm in place of a missing one, constructor arity, float for a sum value, unknown constructor): must be refused" },
            ],
            Tier::Thorough => vec![
                Space { name: "gen", size: 80_000, exhaustive: false, chunk: 200, case_timeout_s: 20.0, what: "generated well-typed core-language programs x run lengths" },
                Space { name: "mutant", size: 160_000, exhaustive: false, chunk: 200, case_timeout_s: 20.0, what: "generated programs after 1-2 type-changing mutations (near-miss programs)" },
                Space { name: "sum", size: 100_000, exhaustive: false, chunk: 200, case_timeout_s: 20.0, what: "generated programs over user-declared (also recursive) sum types with constructor matches" },
                Space { name: "sum-illtyped", size: 100_000, exhaustive: false, chunk: 200, case_timeout_s: 20.0, what: "the same with one deliberate type error: must be refused" },
            ],
        }
    }
    fn run(&self, space: &str, _index: u64, g: &mut Gen, cx: &Cx) -> CaseResult {
        if space == "sum" || space == "sum-illtyped" {
            // programs over user-declared sum types; the second space holds variants that the
            // checker must refuse (for a reason the generator states)
            let mut scfg = sumgen::SumCfg::default();
            let mut soff = vec![];
            if cx.excluded(KF_SUM_LONE_REC) {
                scfg.lone_recursive_payload = false;
                soff.push(KF_SUM_LONE_REC);
            }
            if cx.excluded(KF_SUM_UNANNOTATED) {
                scfg.unannotated_params = false;
                soff.push(KF_SUM_UNANNOTATED);
            }
            let p = sumgen::generate(g, &scfg);
            let inputs = gen_inputs(g);
            let n = *g.pick(&[4u64, 1, 8]);
            if space == "sum" {
                let src = sumgen::render(&p);
                let mut classes = vec!["mode:sum".to_string()];
                if p.types.iter().any(|t| t.rec) {
                    classes.push("sum:recursive".into());
                }
                if p.fns.iter().any(|f| f.arms.iter().any(|a| a.ctor.is_none())) {
                    classes.push("sum:wildcard".into());
                }
                let mut r = finish(&src, &inputs, n, Some(1), classes, false, cx);
                for id in &soff {
                    r.count(&format!("generator_switch_off:{id}"), 1);
                }
                return r;
            }
            let Some((q, kind)) = sumgen::ill_typed(&p, g) else { return CaseResult::discard("no-place-for-the-type-error") };
            let src = sumgen::render(&q);
            let mut r = finish(&src, &inputs, n, None, vec!["mode:sum-illtyped".to_string(), format!("ill:{kind}")], false, cx);
            if r.classes.iter().any(|c| c == "accepted") {
                // accepted although ill typed: that alone breaks the property's last sentence
                let what = match &r.status {
                    Status::Fail { sig, .. } => format!("and then: {sig}"),
                    _ => "and ran".to_string(),
                };
                let mut f = CaseResult::fail(r.hash, format!("c03:ill-typed-accepted:{kind}"), format!("a program with a deliberate type error ({kind}) was accepted {what}"));
                f.classes = std::mem::take(&mut r.classes);
                f.render = Some(json!({"text": src, "inputs": inputs.describe(), "n": n}));
                f.direct = r.direct.take();
                if let Some(d) = f.direct.as_mut() {
                    d["must_reject"] = json!(kind);
                }
                f.nontrivial = true;
                return f;
            }
            r.nontrivial = true;
            return r;
        }
        let (mut cfg, off) = c01::pcfg(cx);
        // switches that only cause VM/WASM disagreement (not crashes) stay on for this property
        cfg.raw_conditions = true;
        cfg.modulo = true;
        cfg.multi_maker_instances = true;
        cfg.block_operands = true;
        cfg.capture_destructured = true;
        let mut pg = PG::new(g, cfg);
        let mut p = pg.program();
        let feat = pg.feat.clone();
        let mut classes = feat.classes();
        let mutant = space == "mutant";
        if mutant {
            let k = g.int(1, 2);
            for _ in 0..k {
                let m = prog::mutate(&mut p, g, !cx.excluded(KF_UNIT_VALUE));
                classes.push(format!("mut:{m}"));
            }
        }
        let src = prog::render(&p, &Layout::default());
        let inputs = gen_inputs(g);
        let n = *g.pick(&[4u64, 1, 8, 16]);
        let mut r = finish(&src, &inputs, n, if mutant { None } else { Some(p.n_out) }, classes, mutant, cx);
        r.classes.push(format!("mode:{space}"));
        for id in off {
            r.count(&format!("generator_switch_off:{id}"), 1);
        }
        r
    }
    fn run_direct(&self, input: &Value, cx: &Cx) -> Option<CaseResult> {
        let t = input.get("text")?.as_str()?;
        let inputs = Inputs { kind: input.get("input_kind").and_then(|v| v.as_u64()).unwrap_or(1) as u8, scale: input.get("input_scale").and_then(|v| v.as_f64()).unwrap_or(1.0) };
        let n = input.get("n").and_then(|v| v.as_u64()).unwrap_or(4);
        let mut r = finish(t, &inputs, n, None, vec![], false, cx);
        if let Some(kind) = input.get("must_reject").and_then(|v| v.as_str()) {
            // a pinned program with a deliberate type error: acceptance is the failure
            if r.classes.iter().any(|c| c == "accepted") {
                let mut f = CaseResult::fail(r.hash, format!("c03:ill-typed-accepted:{kind}"), format!("a program with a deliberate type error ({kind}) was accepted"));
                f.render = r.render.take();
                f.direct = r.direct.take();
                if let Some(d) = f.direct.as_mut() {
                    d["must_reject"] = json!(kind);
                }
                f.nontrivial = true;
                return Some(f);
            }
        }
        Some(r)
    }
    fn shrink_direct(&self, input: &Value) -> Vec<Value> {
        let Some(t) = input.get("text").and_then(|v| v.as_str()) else { return vec![] };
        let mut out = vec![];
        let n = input.get("n").and_then(|v| v.as_u64()).unwrap_or(4);
        for m in [n / 2, n - 1] {
            if m >= 1 && m < n {
                let mut v = input.clone();
                v["n"] = json!(m);
                out.push(v);
            }
        }
        for s in line_candidates(t).into_iter().chain(crate::engine::shrink::text_candidates(t)) {
            let mut v = input.clone();
            v["text"] = json!(s);
            out.push(v);
        }
        out
    }
    fn hang_is_violation(&self) -> bool {
        true
    }
    fn rule(&self) -> String {
        format!("Cases are programs from the core-language generator (all feature classes; the shapes of recorded crash findings switched off) and near-miss programs obtained by 1-2 type-changing mutations ({}). Oracle: if emit_mir returns Err the program is rejected with diagnostics (fine). If it is accepted: emit_bytecode and emit_wasm succeed; global initialisation and 1-16 dsp calls run on the VM without panic (the verif-hooks feature turns out-of-bounds state/global/upvalue accesses, cursor under/overflow and stale closure handles into panics), the WASM module loads and runs without trap; every sample has exactly the declared number of output words, and for unmutated programs that number equals the generator's declared dsp return width. A case that does not return within 20 s (twice, at the doubled limit) is a violation. Non-trivial = accepted and executed; accepted mutants are labelled.", prog::MUTATIONS.join(", "))
    }
    fn assumptions(&self) -> Vec<String> {
        vec!["memory errors are observed through the bounds assertions of the verif-hooks feature (state storage, globals, open upvalues, closure handles) plus the debug assertions of the VM; accesses outside those sites are not instrumented".into(), "runtime preconditions documented by the runtime itself (scheduling into the past, split_head of an empty array) are not counted".into()]
    }
    fn required_classes(&self, _tier: Tier) -> Vec<&'static str> {
        vec!["accepted", "rejected", "accepted-mutant", "ran", "mode:gen", "mode:mutant", "mode:sum", "mode:sum-illtyped", "sum:recursive"]
    }
}
