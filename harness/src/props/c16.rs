//! C16 — meaning is invariant under renaming, layout and agreeing annotations.

use crate::engine::case::*;
use crate::engine::rng::hash64;
use crate::engine::tape::Gen;
use crate::gens::prog::{self, Layout, Prog, PG};
use crate::props::c01::{self, gen_inputs};
use crate::runners::exec::{self, canon, Exec, Inputs, RunOpts};
use crate::runners::front;
use serde_json::{json, Value};
use std::sync::OnceLock;

pub struct C16;

pub fn prop() -> Option<&'static dyn Prop> {
    Some(&C16)
}

/// `self` is desugared into an ordinary variable named `feed_idN`; a user variable of that name
/// shadows it (known finding)
pub const KF_FEED_ID: &str = "C16-user-name-shadows-self-variable";
/// a user identifier named `_mimium_global` collides with the compiler's global label (known finding)
pub const KF_GLOBAL_NAME: &str = "C16-user-name-mimium-global";
/// `let {a = x} = ({a = 1.0})` — a parenthesised record on the right of a record pattern crashes
pub const KF_PAREN_RECORD: &str = "C16-parenthesised-record-pattern-rhs";
/// record update `{r <- f = e}` is desugared through a variable named `record_update_temp`; a user
/// variable of that name used in `e` is shadowed (known finding)
pub const KF_RECORD_TEMP: &str = "C16-user-name-record-update-temp";
/// `(p, q) |> f` over parameters whose type is not yet inferred is refused unless they are annotated
pub const KF_SPREAD_ANNOT: &str = "C16-auto-spread-needs-annotated-arguments";

const ORDINARY: &[&str] = &["alpha", "beta", "gamma", "delta", "omega", "kappa", "sigma", "theta", "lambda1", "mu", "nu", "xi", "rho", "tau", "phi", "chi", "psi", "zeta", "eta", "iota"];
const FIELD_LIKE: &[&str] = &["fc", "fb", "fa", "fc", "fb"];
const ODD: &[&str] = &["_x", "x_", "x0", "X", "a_b_c", "__", "_1", "dsp_", "self_", "now_", "float_", "fn_", "Let", "selfish", "nowhere", "iff", "mem_", "delay1"];
const COMPILER_LIKE: &[&str] = &[
    "lambda_0", "lambda_1", "lambda_2", "feed_id0", "feed_id1", "feed_id2", "__dt0", "__dt1", "__lambda_arg_0", "__lambda_arg_1", "record_update_temp", "_mimium_global", "dsp_0", "main_", "_mimium_main", "closure_0", "state_0", "tmp_0", "upv_0", "phi_0",
];

fn reserved() -> &'static Vec<String> {
    static R: OnceLock<Vec<String>> = OnceLock::new();
    R.get_or_init(|| {
        let mut v: Vec<String> = front::builtin_types().iter().map(|(s, _)| s.as_str().to_string()).collect();
        for k in ["fn", "macro", "self", "now", "samplerate", "let", "letrec", "if", "else", "match", "float", "int", "string", "struct", "include", "stage", "main", "mod", "use", "pub", "type", "alias", "rec", "_", "dsp", "mem", "delay", "sin", "cos", "tan", "sinh", "cosh", "tanh", "atan", "atan2", "sqrt", "abs", "log", "min", "max", "ceil", "floor", "round", "pow", "not", "asin", "acos", "probe", "probeln", "neg", "add", "sub", "mult", "div", "modulo", "eq", "ne", "lt", "le", "gt", "ge", "and", "or", "exp", "print", "println", "len", "split_head", "split_tail", "prepend", "lift_f"] {
            v.push(k.to_string());
        }
        v
    })
}

#[derive(Clone, Debug)]
struct Transform {
    rename: Vec<(String, String)>,
    layout: Layout,
    compiler_like: usize,
}

fn gen_transform(p: &Prog, g: &mut Gen, allow_feed_id: bool, allow_global_name: bool, allow_record_temp: bool, bare_record_rhs: bool) -> Transform {
    let names = prog::binders(p);
    let mut rename = vec![];
    let mut used: Vec<String> = vec![];
    let mut compiler_like = 0;
    let mode = g.weighted(&[2, 3, 3, 1]); // none, ordinary, mixed with compiler-like, all compiler-like
    for (i, n) in names.iter().enumerate() {
        if mode == 0 {
            break;
        }
        let pool: &[&str] = match (mode, g.below(4)) {
            // names that are also record keys of the generated programs, in non-alphabetical order
            (1, 0) | (2, 3) => FIELD_LIKE,
            (1, _) => ORDINARY,
            (2, 0) => COMPILER_LIKE,
            (2, 1) => ODD,
            (2, _) => ORDINARY,
            _ => COMPILER_LIKE,
        };
        let mut cand = pool[g.usize_below(pool.len())].to_string();
        if !allow_feed_id && cand.starts_with("feed_id") {
            cand = format!("feedid{}", i);
        }
        if !allow_record_temp && cand == "record_update_temp" {
            cand = format!("record_update_tmp{}", i);
        }
        if !allow_global_name && cand == "_mimium_global" {
            cand = format!("_mimium_global{}", i);
        }
        if used.contains(&cand) || reserved().contains(&cand) || names.contains(&cand) {
            cand = format!("{cand}_{i}");
        }
        if COMPILER_LIKE.iter().any(|c| cand.starts_with(c)) {
            compiler_like += 1;
        }
        used.push(cand.clone());
        rename.push((n.clone(), cand));
    }
    let layout = Layout { extra_parens: g.bool(1, 3), annotate_all: g.bool(1, 3), indent: *g.pick(&[0usize, 1, 4, 8]), comments: g.bool(1, 3), comment_seed: if g.bool(2, 3) { 1 + g.below(1000) } else { 0 }, blank_lines: g.usize_below(3), keep_record_let_rhs_bare: bare_record_rhs, minimal_parens: g.bool(1, 3) };
    Transform { rename, layout, compiler_like }
}

fn apply(p: &Prog, t: &Transform) -> String {
    let map = t.rename.clone();
    let q = prog::rename_prog(p, &move |n: &str| map.iter().find(|(a, _)| a == n).map(|(_, b)| b.clone()).unwrap_or_else(|| n.to_string()));
    prog::render(&q, &t.layout)
}

fn outcome(src: &str, inputs: &Inputs, n: u64) -> Result<Vec<Vec<u64>>, String> {
    match exec::run_vm(src, inputs, &RunOpts { n, sched: false, want_state: false, want_counts: false, want_trace: false }) {
        Exec::Ran(a) => Ok(a.samples),
        Exec::Rejected(d) => Err(format!("rejected: {}", d.first().map(|x| x.message.clone()).unwrap_or_default())),
        Exec::NoIo => Err("no-io".into()),
        Exec::Panic(s, p) => Err(format!("panic {s}: {}", p.signature())),
        Exec::Error(s, e) => Err(format!("error {s}: {e}")),
    }
}

/// the same, in a fresh child process (the symbol interner of a process remembers every name it has
/// seen: only a fresh process reads a renamed program the way a user's run would)
fn outcome_fresh(src: &str, inputs: &Inputs, n: u64, tag: u64) -> Result<Vec<Vec<u64>>, String> {
    let dir = "/verif/target/work/c16";
    let _ = std::fs::create_dir_all(dir);
    let path = format!("{dir}/{}-{tag:016x}.mmm", std::process::id());
    std::fs::write(&path, src).map_err(|e| format!("error io: {e}"))?;
    let exe = std::env::current_exe().map_err(|e| format!("error io: {e}"))?;
    let out = std::process::Command::new(exe).args(["runvm", &path, "--n", &n.to_string(), "--kind", &inputs.kind.to_string(), "--scale", &format!("{:?}", inputs.scale)]).output();
    let _ = std::fs::remove_file(&path);
    let out = out.map_err(|e| format!("error io: {e}"))?;
    if !out.status.success() {
        return Err(format!("panic child: exit {:?}", out.status.code()));
    }
    let v = crate::engine::worker::child_result(&out.stdout).map_err(|e| format!("error child: {e}"))?;
    if let Some(e) = v.get("err").and_then(|e| e.as_str()) {
        return Err(e.to_string());
    }
    let rows = v.get("ok").and_then(|a| a.as_array()).ok_or("error child: no samples")?;
    Ok(rows.iter().map(|r| r.as_array().map(|a| a.iter().filter_map(|x| x.as_u64()).collect()).unwrap_or_default()).collect())
}

fn finish(orig: &str, trans: &str, inputs: &Inputs, n: u64, classes: Vec<String>, nontrivial: bool, fresh: bool, cx: &Cx) -> CaseResult {
    let key = format!("{orig}\u{1}{trans}\u{1}{}\u{1}{n}", inputs.describe());
    let hash = hash64(key.as_bytes());
    let direct = json!({"original": orig, "transformed": trans, "input_kind": inputs.kind, "input_scale": inputs.scale, "n": n, "fresh": fresh});
    if cx.dry {
        let mut r = CaseResult::discard("dry");
        r.render = Some(direct.clone());
        r.direct = Some(direct);
        return r;
    }
    let (a, b) = if fresh { (outcome_fresh(orig, inputs, n, hash), outcome_fresh(trans, inputs, n, hash ^ 0x77)) } else { (outcome(orig, inputs, n), outcome(trans, inputs, n)) };
    if let (Err(x), _) | (_, Err(x)) = (&a, &b) {
        if x.starts_with("error io") || x.starts_with("error child") {
            return CaseResult::discard(format!("child:{x}"));
        }
    }
    let mut r = match (&a, &b) {
        (Err(x), Err(y)) => {
            // both fail: same kind of failure is required only at the level accept/reject
            let (ka, kb) = (x.split(':').next().unwrap_or(""), y.split(':').next().unwrap_or(""));
            if ka.starts_with("panic") || kb.starts_with("panic") {
                return CaseResult::discard("crash"); // C03's subject
            }
            let _ = (ka, kb);
            CaseResult::held(hash)
        }
        (Ok(_), Err(y)) => {
            if y.starts_with("panic") {
                CaseResult::fail(hash, "c16:transformed-crashes", format!("the original runs, the transformed program: {y}"))
            } else {
                CaseResult::fail(hash, "c16:transformed-rejected", format!("the original compiles and runs, the transformed program: {y}"))
            }
        }
        (Err(x), Ok(_)) => {
            if x.starts_with("panic") {
                return CaseResult::discard("crash");
            }
            CaseResult::fail(hash, "c16:transformed-accepted", format!("the original is refused ({x}) but the transformed program runs"))
        }
        (Ok(x), Ok(y)) => {
            let mut f = None;
            'o: for (t, (p, q)) in x.iter().zip(y.iter()).enumerate() {
                if p.len() != q.len() {
                    f = Some((t, usize::MAX));
                    break;
                }
                for ch in 0..p.len() {
                    if canon(p[ch]) != canon(q[ch]) {
                        f = Some((t, ch));
                        break 'o;
                    }
                }
            }
            match f {
                Some((t, ch)) => CaseResult::fail(hash, "c16:output-changed", format!("sample {t} channel {ch}: original {:?}, transformed {:?}", x[t].get(ch).map(|b| f64::from_bits(*b)), y[t].get(ch).map(|b| f64::from_bits(*b)))),
                None => CaseResult::held(hash),
            }
        }
    };
    r.classes = classes;
    if a.is_ok() {
        r.classes.push("original-runs".into());
    }
    r.nontrivial = (nontrivial && a.is_ok() && orig != trans) || r.is_fail();
    if cx.render || r.is_fail() {
        r.render = Some(direct.clone());
    }
    r.direct = Some(direct);
    r
}

impl Prop for C16 {
    fn id(&self) -> &'static str {
        "C16"
    }
    fn spaces(&self, tier: Tier) -> Vec<Space> {
        match tier {
            Tier::Quick => vec![Space { name: "gen", size: 30000, exhaustive: false, chunk: 200, case_timeout_s: 60.0, what: "generated programs x (consistent renaming into ordinary / odd / compiler-like names, redundant parentheses, agreeing annotations, comments, indentation, blank lines)" }],
            Tier::Thorough => vec![Space { name: "gen", size: 750_000, exhaustive: false, chunk: 1000, case_timeout_s: 60.0, what: "generated programs x source-to-source transformations" }],
        }
    }
    fn run(&self, _space: &str, _index: u64, g: &mut Gen, cx: &Cx) -> CaseResult {
        let (mut cfg, off) = c01::pcfg(cx);
        // WASM-only switches do not matter (VM comparison)
        cfg.modulo = true;
        cfg.multi_maker_instances = true;
        cfg.capture_destructured = true;
        cfg.tuple_globals = true;
        // more records bound through record patterns (their key order is what renamings may disturb)
        cfg.rec_weight = 3;
        if cx.excluded(KF_SPREAD_ANNOT) {
            cfg.auto_spread = false;
        }
        cfg.rec_pattern_thirds = 2;
        let mut pg = PG::new(g, cfg);
        let p = pg.program();
        let mut classes = pg.feat.classes();
        let pg_records = pg.feat.records > 0;
        let t = gen_transform(&p, g, !cx.excluded(KF_FEED_ID), !cx.excluded(KF_GLOBAL_NAME), !cx.excluded(KF_RECORD_TEMP), false);
        let orig = prog::render(&p, &Layout::default());
        let trans = apply(&p, &t);
        let inputs = gen_inputs(g);
        let n = *g.pick(&[4u64, 8, 16]);
        if !t.rename.is_empty() {
            classes.push("t:rename".into());
        }
        if t.compiler_like > 0 {
            classes.push("t:compiler-like-names".into());
        }
        if t.layout.extra_parens {
            classes.push("t:parens".into());
        }
        if t.layout.minimal_parens && !t.layout.extra_parens {
            classes.push("t:minimal-parens".into());
        }
        if t.layout.annotate_all {
            classes.push("t:annotations".into());
        }
        if t.layout.comments {
            classes.push("t:comments".into());
        }
        if t.layout.indent != 0 || t.layout.blank_lines > 0 {
            classes.push("t:whitespace".into());
        }
        let nt = !t.rename.is_empty() || t.layout.extra_parens || t.layout.minimal_parens || t.layout.annotate_all || t.layout.comments;
        // renamings into record-key names of programs that use records are judged in fresh processes
        let fresh = pg_records && t.rename.iter().any(|(_, b)| FIELD_LIKE.iter().any(|f| b == f || b.starts_with(&format!("{f}_"))));
        if fresh {
            classes.push("t:fresh-process".into());
        }
        let mut r = finish(&orig, &trans, &inputs, n, classes, nt, fresh, cx);
        for id in off {
            r.count(&format!("generator_switch_off:{id}"), 1);
        }
        for id in [KF_FEED_ID, KF_GLOBAL_NAME, KF_RECORD_TEMP, KF_SPREAD_ANNOT] {
            if cx.excluded(id) {
                r.count(&format!("generator_switch_off:{id}"), 1);
            }
        }
        r
    }
    fn run_direct(&self, input: &Value, cx: &Cx) -> Option<CaseResult> {
        let o = input.get("original")?.as_str()?;
        let t = input.get("transformed")?.as_str()?;
        let inputs = Inputs { kind: input.get("input_kind").and_then(|v| v.as_u64()).unwrap_or(1) as u8, scale: input.get("input_scale").and_then(|v| v.as_f64()).unwrap_or(1.0) };
        let n = input.get("n").and_then(|v| v.as_u64()).unwrap_or(4);
        let fresh = input.get("fresh").and_then(|v| v.as_bool()).unwrap_or(false);
        Some(finish(o, t, &inputs, n, vec![], true, fresh, cx))
    }
    fn rule(&self) -> String {
        "Cases are (program, transformation, input stream, run length). The program AST from the core-language generator is rendered twice: canonically, and after a composed transformation — a consistent injective renaming of every user identifier (functions, parameters, locals, globals, lambda parameters; never `dsp`, keywords or builtins) into ordinary names, names that are also record keys of the program (`fc`, `fb`, `fa`), odd names (`_x`, `x_`, `X`, `selfish`, ...) or names shaped like compiler-generated ones (`lambda_0`, `__dt0`, `__lambda_arg_0`, `record_update_temp`, `_mimium_global`, `feed_id0` when that finding's switch is on), redundant parentheses around every compound expression, or instead the removal of every pair of parentheses that operator precedence and left associativity make redundant (`(a ^ b) ^ c` -> `a ^ b ^ c`), annotations of every parameter and return type with the generator's own types, a comment after every statement (line and block comments from a pool of 20 texts: runs of stars such as `/** c **/`, `/***/`, `/**** c ****/`, slashes, quotes, brackets, keywords, non-ASCII text, empty comments), other indentation and blank lines. Renamings into record-key names of programs that use records are run in two fresh child processes (a process's symbol interner remembers every name seen before), all others in the worker. Oracle (metamorphic, VM): both are accepted or both are refused, and when accepted all output words are bitwise equal. Non-trivial = the original runs and the transformed text differs by a renaming, parentheses, annotations or comments.".into()
    }
    fn assumptions(&self) -> Vec<String> {
        vec!["the annotations added are the generator's own types, which are the types the program was built with".into(), "record field names are not renamed".into()]
    }
    fn required_classes(&self, _tier: Tier) -> Vec<&'static str> {
        vec!["original-runs", "t:rename", "t:compiler-like-names", "t:parens", "t:minimal-parens", "t:annotations", "t:comments", "t:whitespace", "t:fresh-process"]
    }
}
