use crate::engine::case::Prop;

pub mod c08;

pub fn all() -> Vec<&'static dyn Prop> {
    vec![&c08::C08]
}

pub fn get(id: &str) -> Option<&'static dyn Prop> {
    all().into_iter().find(|p| p.id() == id)
}
