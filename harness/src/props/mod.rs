use crate::engine::case::Prop;

pub mod c04;
pub mod c08;
pub mod c13;

pub fn all() -> Vec<&'static dyn Prop> {
    vec![&c04::C04, &c08::C08, &c13::C13]
}

pub fn get(id: &str) -> Option<&'static dyn Prop> {
    all().into_iter().find(|p| p.id() == id)
}
