use crate::engine::case::Prop;

pub mod c01;
pub mod c02;
pub mod c03;
pub mod c04;
pub mod c05;
pub mod c06;
pub mod c07;
pub mod c08;
pub mod c09;
pub mod c10;
pub mod c11;
pub mod c12;
pub mod c13;
pub mod c14;
pub mod c15;
pub mod c16;
pub mod c17;
pub mod c18;
pub mod c19;
pub mod c20;

pub fn all() -> Vec<&'static dyn Prop> {
    let mut v: Vec<&'static dyn Prop> = vec![];
    v.extend(c01::prop());
    v.extend(c02::prop());
    v.extend(c03::prop());
    v.extend(c04::prop());
    v.extend(c05::prop());
    v.extend(c06::prop());
    v.extend(c07::prop());
    v.extend(c08::prop());
    v.extend(c09::prop());
    v.extend(c10::prop());
    v.extend(c11::prop());
    v.extend(c12::prop());
    v.extend(c13::prop());
    v.extend(c14::prop());
    v.extend(c15::prop());
    v.extend(c16::prop());
    v.extend(c17::prop());
    v.extend(c18::prop());
    v.extend(c19::prop());
    v.extend(c20::prop());
    v
}

pub fn get(id: &str) -> Option<&'static dyn Prop> {
    all().into_iter().find(|p| p.id() == id)
}
