//! C19 — concurrent compilations do not interfere.
//!
//! Free-running stress with real parallelism (barrier start): K threads compile and run K
//! programs at the same time; each job's artefacts must equal those of the same job run alone.
//! (A harness-owned deterministic scheduler would need a scheduling-point hook inside the
//! repository's interner lock; it was not built — see DESIGN.md, limits.)

use crate::engine::case::*;
use crate::engine::panics;
use crate::engine::rng::hash64;
use crate::engine::tape::Gen;
use crate::gens::prog::{self, Layout, PG};
use crate::gens::textgen as tg;
use crate::props::c01;
use crate::runners::artefacts::compile_artefacts;
use serde_json::{json, Value};
use std::sync::{Arc, Barrier};

pub struct C19;

pub fn prop() -> Option<&'static dyn Prop> {
    Some(&C19)
}

fn solo(src: &str, sched: bool) -> Result<String, String> {
    panics::catch(|| compile_artefacts(src, sched, true).digest()).map_err(|p| p.signature())
}

/// run all jobs at once; returns per job Ok(digest) / Err(panic signature)
fn together(jobs: &[(String, bool)], rounds: usize) -> Vec<Vec<Result<String, String>>> {
    let mut all = vec![];
    for _ in 0..rounds {
        let barrier = Arc::new(Barrier::new(jobs.len()));
        let handles: Vec<_> = jobs
            .iter()
            .cloned()
            .map(|(src, sched)| {
                let b = barrier.clone();
                std::thread::Builder::new()
                    .stack_size(16 * 1024 * 1024)
                    .spawn(move || {
                        b.wait();
                        panics::catch(|| compile_artefacts(&src, sched, true).digest()).map_err(|p| p.signature())
                    })
                    .expect("spawn")
            })
            .collect();
        all.push(handles.into_iter().map(|h| h.join().unwrap_or_else(|_| Err("thread-died".into()))).collect());
    }
    all
}

fn finish(jobs: &[(String, bool)], classes: Vec<String>, cx: &Cx) -> CaseResult {
    let key = jobs.iter().map(|(s, _)| s.as_str()).collect::<Vec<_>>().join("\u{1}");
    let hash = hash64(key.as_bytes());
    let direct = json!({"jobs": jobs.iter().map(|(s, sc)| json!({"text": s, "sched": sc})).collect::<Vec<_>>()});
    if cx.dry {
        let mut r = CaseResult::discard("dry");
        r.render = Some(direct.clone());
        r.direct = Some(direct);
        return r;
    }
    let alone: Vec<Result<String, String>> = jobs.iter().map(|(s, sc)| solo(s, *sc)).collect();
    let rounds = together(jobs, 2);
    let mut bad: Option<(usize, String)> = None;
    'o: for r in &rounds {
        for (i, x) in r.iter().enumerate() {
            if *x != alone[i] {
                bad = Some((i, format!("job {i}: alone {:?}, concurrently {:?}", short(&alone[i]), short(x))));
                break 'o;
            }
        }
    }
    let mut r = CaseResult::held(hash);
    let mut flaky = false;
    if let Some((i, msg)) = bad {
        // a verdict only if it reproduces on 3 of 3 further attempts
        let again = together(jobs, 3);
        let repro = again.iter().all(|r| r.iter().enumerate().any(|(k, x)| *x != alone[k]));
        // and the solo result itself must be stable
        let alone2: Vec<Result<String, String>> = jobs.iter().map(|(s, sc)| solo(s, *sc)).collect();
        if alone2 != alone {
            return CaseResult::discard("solo-result-not-deterministic"); // C15's subject
        }
        if repro {
            let kind = match (&alone[i], &rounds[0][i]) {
                (_, Err(e)) if e.contains("poison") => "poisoned-lock",
                (_, Err(_)) => "panic-only-when-concurrent",
                _ => "result-contaminated",
            };
            r = CaseResult::fail(hash, format!("c19:{kind}"), msg);
        } else {
            flaky = true;
        }
    }
    r.classes = classes;
    r.classes.push(format!("jobs:{}", jobs.len()));
    if flaky {
        r.classes.push("flaky-inconclusive".into());
        r.count("flaky_inconclusive", 1);
    }
    let distinct = jobs.iter().map(|(s, _)| s.as_str()).collect::<std::collections::BTreeSet<_>>().len();
    if distinct < jobs.len() {
        r.classes.push("identical-sources".into());
    }
    if alone.iter().any(|a| a.is_ok()) {
        r.classes.push("some-job-compiles".into());
    }
    r.nontrivial = jobs.len() >= 2 && alone.iter().filter(|a| a.is_ok()).count() >= 2 || r.is_fail();
    if cx.render || r.is_fail() {
        r.render = Some(json!({"jobs": jobs.iter().map(|(s, _)| s.chars().take(300).collect::<String>()).collect::<Vec<_>>()}));
    }
    r.direct = Some(direct);
    r
}

fn short(r: &Result<String, String>) -> String {
    match r {
        Ok(d) => format!("ok:{:016x}", hash64(d.as_bytes())),
        Err(e) => format!("panic:{e}"),
    }
}

impl Prop for C19 {
    fn id(&self) -> &'static str {
        "C19"
    }
    fn spaces(&self, tier: Tier) -> Vec<Space> {
        match tier {
            Tier::Quick => vec![Space { name: "stress", size: 160, exhaustive: false, chunk: 20, case_timeout_s: 300.0, what: "K=2..6 compile+run jobs (generated, shipped incl. macro/module programs, identical and near-identical sources, failing programs) started together on K threads, 2 rounds each" }],
            Tier::Thorough => vec![Space { name: "stress", size: 6000, exhaustive: false, chunk: 40, case_timeout_s: 300.0, what: "K=2..6 concurrent compile+run jobs, 2 rounds each" }],
        }
    }
    fn run(&self, _space: &str, _index: u64, g: &mut Gen, cx: &Cx) -> CaseResult {
        let k = g.int(2, 6) as usize;
        let (cfg, _) = c01::pcfg(cx);
        let mut jobs: Vec<(String, bool)> = vec![];
        let mut classes = vec![];
        for _ in 0..k {
            match g.weighted(&[4, 4, 2, 1, 1]) {
                0 => {
                    let mut pg = PG::new(g, cfg.clone());
                    let p = pg.program();
                    jobs.push((prog::render(&p, &Layout::default()), false));
                    classes.push("job:generated".to_string());
                }
                1 => {
                    let c = tg::corpus();
                    let usable: Vec<&(String, String)> = c.iter().filter(|(p, s)| !s.contains("Sampler") && !s.contains("midi") && !s.contains("Slider") && !s.contains("Probe") && !p.contains("/examples/") && !s.contains("include")).collect();
                    let (_, s) = usable[g.usize_below(usable.len())];
                    let sched = s.contains('@') || s.contains("_mimium_schedule_at");
                    if s.contains("#stage") {
                        classes.push("job:macro".to_string());
                    }
                    jobs.push((s.clone(), sched));
                    classes.push("job:shipped".to_string());
                }
                2 if !jobs.is_empty() => {
                    let j = jobs[g.usize_below(jobs.len())].clone();
                    jobs.push(j);
                    classes.push("job:duplicate".to_string());
                }
                3 if !jobs.is_empty() => {
                    let (s, sc) = jobs[g.usize_below(jobs.len())].clone();
                    jobs.push((s.replacen("1.0", "2.0", 1), sc));
                    classes.push("job:near-duplicate".to_string());
                }
                _ => {
                    jobs.push((tg::soup(g, 10), false));
                    classes.push("job:broken".to_string());
                }
            }
        }
        classes.sort();
        classes.dedup();
        finish(&jobs, classes, cx)
    }
    fn run_direct(&self, input: &Value, cx: &Cx) -> Option<CaseResult> {
        let jobs: Vec<(String, bool)> = input.get("jobs")?.as_array()?.iter().filter_map(|j| Some((j.get("text")?.as_str()?.to_string(), j.get("sched").and_then(|v| v.as_bool()).unwrap_or(false)))).collect();
        if jobs.is_empty() {
            return None;
        }
        Some(finish(&jobs, vec![], cx))
    }
    fn shrink_direct(&self, input: &Value) -> Vec<Value> {
        let mut out = vec![];
        if let Some(js) = input.get("jobs").and_then(|v| v.as_array()) {
            if js.len() > 2 {
                for i in 0..js.len() {
                    let mut v = js.clone();
                    v.remove(i);
                    out.push(json!({"jobs": v}));
                }
            }
        }
        out
    }
    fn rule(&self) -> String {
        "Cases are sets of K=2..6 jobs; a job compiles a source for both backends and runs 8 samples on both runtimes (artefacts: bytecode listing, WASM bytes, state layouts, I/O channels, outputs; diagnostics or a panic signature for failing programs). Sources: generated programs, shipped sources (incl. programs with macros, which set the process environment variable, and modules), exact duplicates, near-duplicates differing in one literal, and broken texts. Each job is first run alone; then all jobs are started together on K OS threads behind a barrier, twice. Oracle: every job's artefacts equal its solo artefacts; no panic that does not also occur alone. A difference is reported only if it reproduces on 3 of 3 further concurrent attempts (otherwise it is counted as flaky-inconclusive). Non-trivial = at least two jobs that compile.".into()
    }
    fn assumptions(&self) -> Vec<String> {
        vec![
            "interleavings are whatever the OS scheduler produces on this machine: the harness does not own the schedule, so a rare interleaving can be missed and a difference that does not reproduce 3 times is not reported".into(),
            "deadlocks would show as a case hitting the 300 s limit, which this property treats as inconclusive".into(),
        ]
    }
    fn required_classes(&self, _tier: Tier) -> Vec<&'static str> {
        vec!["job:generated", "job:shipped", "job:macro", "job:duplicate", "job:broken", "some-job-compiles", "identical-sources"]
    }
}
