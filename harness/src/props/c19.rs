//! C19 — concurrent compilations do not interfere.
//!
//! Two spaces.  `stress`: free-running with real parallelism (barrier start): K threads compile
//! and run K programs at the same time.  `sched`: the harness owns the interleaving — hook H3 puts
//! a scheduling point in front of every session-globals access and `runners::coop` lets exactly
//! one thread run at a time, switching where the case's *plan* (drawn from the tape) says.  In both
//! each job's artefacts must equal those of the same job run alone in a fresh process.

use crate::engine::case::*;
use crate::engine::panics;
use crate::engine::rng::hash64;
use crate::engine::tape::Gen;
use crate::gens::prog::{self, Layout, PG};
use crate::gens::textgen as tg;
use crate::props::c01;
use crate::runners::artefacts::compile_artefacts;
use serde_json::{json, Value};
use std::sync::{Arc, Barrier};

pub struct C19;

pub fn prop() -> Option<&'static dyn Prop> {
    Some(&C19)
}

/// digest of one job compiled alone in a fresh child process (`mmv artefacts`)
fn solo(src: &str, sched: bool, tag: u64) -> Result<String, String> {
    let dir = "/verif/target/work/c19";
    let _ = std::fs::create_dir_all(dir);
    let path = format!("{dir}/{}-{tag:016x}.mmm", std::process::id());
    std::fs::write(&path, src).map_err(|e| e.to_string())?;
    let exe = std::env::current_exe().map_err(|e| e.to_string())?;
    let mut cmd = std::process::Command::new(exe);
    cmd.args(["artefacts", &path, "--diags"]);
    if sched {
        cmd.arg("--sched");
    }
    let out = cmd.output().map_err(|e| e.to_string());
    let _ = std::fs::remove_file(&path);
    let out = out?;
    if !out.status.success() {
        return Err(format!("child-died:{:?}", out.status.code()));
    }
    let v: Value = crate::engine::worker::child_result(&out.stdout)?;
    Ok(v.get("digest").and_then(|d| d.as_str()).unwrap_or("").to_string())
}

/// run all jobs at once in THIS process (called in a fresh child: `mmv together`); per job
/// Ok(digest) / Err(panic signature)
pub fn together_here(jobs: &[(String, bool)]) -> Vec<Result<String, String>> {
    let barrier = Arc::new(Barrier::new(jobs.len()));
    let handles: Vec<_> = jobs
        .iter()
        .cloned()
        .map(|(src, sched)| {
            let b = barrier.clone();
            std::thread::Builder::new()
                .stack_size(16 * 1024 * 1024)
                .spawn(move || {
                    b.wait();
                    panics::catch(|| compile_artefacts(&src, sched, true).digest_with_diagnostics()).map_err(|p| p.signature())
                })
                .expect("spawn")
        })
        .collect();
    handles.into_iter().map(|h| h.join().unwrap_or_else(|_| Err("thread-died".into()))).collect()
}

/// run a child process with a wall-clock limit; Err("child-hang") when it had to be killed
fn output_within(cmd: &mut std::process::Command, limit_s: f64) -> Result<std::process::Output, String> {
    use std::io::Read;
    let mut child = cmd.stdout(std::process::Stdio::piped()).stderr(std::process::Stdio::null()).spawn().map_err(|e| e.to_string())?;
    let mut out = child.stdout.take().ok_or("no stdout")?;
    let reader = std::thread::spawn(move || {
        let mut buf = vec![];
        let _ = out.read_to_end(&mut buf);
        buf
    });
    let t0 = std::time::Instant::now();
    loop {
        match child.try_wait().map_err(|e| e.to_string())? {
            Some(status) => {
                let stdout = reader.join().unwrap_or_default();
                return Ok(std::process::Output { status, stdout, stderr: vec![] });
            }
            None => {
                if t0.elapsed().as_secs_f64() > limit_s {
                    let _ = child.kill();
                    let _ = child.wait();
                    let _ = reader.join();
                    return Err("child-hang".into());
                }
                std::thread::sleep(std::time::Duration::from_millis(5));
            }
        }
    }
}

/// wall limit for running the jobs together, from the time they took one after the other: a run that
/// exceeds it is a hang (deadlock, livelock), not slowness
fn hang_limit(solo_total_s: f64) -> f64 {
    (40.0 * solo_total_s).max(45.0)
}

/// run all jobs in THIS process under a harness-owned schedule (`mmv together` with a plan)
pub fn together_planned_here(jobs: &[(String, bool)], plan: Vec<(u64, u64)>) -> (Vec<Result<String, String>>, crate::runners::coop::Stats) {
    let js: Vec<(String, bool)> = jobs.to_vec();
    let (res, stats) = crate::runners::coop::run_planned(jobs.len(), plan, move |i| {
        let (src, sched) = &js[i];
        panics::catch(|| compile_artefacts(src, *sched, true).digest_with_diagnostics()).map_err(|p| p.signature())
    });
    (res.into_iter().map(|r| r.unwrap_or_else(|| Err("thread-died".into()))).collect(), stats)
}

/// one fresh child process that starts all jobs together (nothing was compiled in it before, so
/// which thread interns, registers or caches something first is decided by the race alone)
fn together(jobs: &[(String, bool)], tag: u64, limit_s: f64) -> Result<Vec<Result<String, String>>, String> {
    together_with(jobs, None, tag, limit_s).map(|(r, _)| r)
}

/// schedule statistics of a planned run: (scheduling points, switches, forced turns)
type SchedStats = (u64, u64, u64);

fn together_with(jobs: &[(String, bool)], plan: Option<&[(u64, u64)]>, tag: u64, limit_s: f64) -> Result<(Vec<Result<String, String>>, SchedStats), String> {
    let dir = "/verif/target/work/c19";
    let _ = std::fs::create_dir_all(dir);
    let path = format!("{dir}/{}-{tag:016x}.jobs.json", std::process::id());
    let js: Vec<Value> = jobs.iter().map(|(s, sc)| json!({"text": s, "sched": sc})).collect();
    let payload = match plan {
        None => Value::Array(js),
        Some(p) => json!({"jobs": js, "plan": p.iter().map(|(a, b)| json!([a, b])).collect::<Vec<_>>()}),
    };
    std::fs::write(&path, serde_json::to_vec(&payload).unwrap()).map_err(|e| e.to_string())?;
    let exe = std::env::current_exe().map_err(|e| e.to_string())?;
    let out = output_within(std::process::Command::new(exe).args(["together", &path]), limit_s);
    let _ = std::fs::remove_file(&path);
    let out = out?;
    if !out.status.success() {
        return Err(format!("child-died:{:?}", out.status.code()));
    }
    let v: Value = crate::engine::worker::child_result(&out.stdout)?;
    let (arr, stats) = match v.get("results") {
        Some(r) => (r.as_array().ok_or("no array")?, {
            let st = |k: &str| v.get("stats").and_then(|s| s.get(k)).and_then(|x| x.as_u64()).unwrap_or(0);
            (st("points"), st("switches"), st("forced"))
        }),
        None => (v.as_array().ok_or("no array")?, (0, 0, 0)),
    };
    Ok((
        arr.iter()
            .map(|x| match (x.get("ok").and_then(|d| d.as_str()), x.get("err").and_then(|d| d.as_str())) {
                (Some(d), _) => Ok(d.to_string()),
                (_, Some(e)) => Err(e.to_string()),
                _ => Err("malformed".into()),
            })
            .collect(),
        stats,
    ))
}

fn differs(alone: &[Result<String, String>], r: &[Result<String, String>]) -> Option<usize> {
    // a job that cannot even run alone (child died) is not judged
    r.iter().enumerate().find(|(i, x)| !matches!(&alone[*i], Err(e) if e.starts_with("child-died")) && **x != alone[*i]).map(|(i, _)| i)
}

fn finish(jobs: &[(String, bool)], classes: Vec<String>, cx: &Cx) -> CaseResult {
    finish_with(jobs, None, classes, cx)
}

/// draw a schedule plan: (segment length in scheduling points, thread pick in 0..65536) pairs
fn gen_plan(g: &mut Gen) -> (Vec<(u64, u64)>, &'static str) {
    fn loglen(g: &mut Gen, bits: u64) -> u64 {
        let e = g.int(0, bits as i64) as u64;
        (1u64 << e) + g.below(1u64 << e)
    }
    let style = g.weighted(&[3, 3, 2, 3, 2]);
    let n = g.int(4, 48) as usize;
    let mut plan = vec![];
    let name = match style {
        0 => {
            for _ in 0..n {
                plan.push((g.int(0, 3) as u64, g.below(65536)));
            }
            "plan:fine"
        }
        1 => {
            for _ in 0..n {
                plan.push((loglen(g, 12), g.below(65536)));
            }
            "plan:log"
        }
        2 => {
            for _ in 0..n {
                plan.push((loglen(g, 17), g.below(65536)));
            }
            "plan:coarse"
        }
        3 => {
            // a quiet start of random length, then a burst of fine alternation, then long runs
            plan.push((loglen(g, 15), g.below(65536)));
            for _ in 0..n {
                plan.push((g.int(0, 2) as u64, g.below(65536)));
            }
            plan.push((loglen(g, 14), g.below(65536)));
            "plan:burst"
        }
        _ => {
            for _ in 0..n {
                if g.bool(1, 3) {
                    plan.push((g.int(0, 3) as u64, g.below(65536)));
                } else {
                    plan.push((loglen(g, 14), g.below(65536)));
                }
            }
            "plan:mixed"
        }
    };
    (plan, name)
}

fn finish_with(jobs: &[(String, bool)], plan: Option<Vec<(u64, u64)>>, classes: Vec<String>, cx: &Cx) -> CaseResult {
    let key = jobs.iter().map(|(s, _)| s.as_str()).collect::<Vec<_>>().join("\u{1}");
    let hash = hash64(key.as_bytes());
    let mut direct = json!({"jobs": jobs.iter().map(|(s, sc)| json!({"text": s, "sched": sc})).collect::<Vec<_>>()});
    if let Some(p) = &plan {
        direct["plan"] = json!(p.iter().map(|(a, b)| json!([a, b])).collect::<Vec<_>>());
    }
    if let Some(p) = plan {
        return finish_planned(jobs, p, classes, cx, hash, direct);
    }
    if cx.dry {
        let mut r = CaseResult::discard("dry");
        r.render = Some(direct.clone());
        r.direct = Some(direct);
        return r;
    }
    // every job alone, each in its own fresh process
    let t_solo = std::time::Instant::now();
    let alone: Vec<Result<String, String>> = jobs.iter().enumerate().map(|(i, (s, sc))| solo(s, *sc, hash ^ (i as u64 + 1))).collect();
    let limit = hang_limit(t_solo.elapsed().as_secs_f64());
    // all jobs together, in fresh processes (a replay tries harder: the race is not ours to steer)
    let attempts = if cx.strict { 24 } else { 2 };
    let mut bad: Option<(usize, String, Result<String, String>)> = None;
    let mut seen = 0u32;
    let mut hangs = 0u32;
    for a in 0..attempts {
        if hangs >= 2 {
            break;
        }
        match together(jobs, hash ^ (0x100 + a as u64), limit) {
            Err(e) if e == "child-hang" => hangs += 1,
            Err(e) => return CaseResult::discard(format!("child:{e}")),
            Ok(r) => {
                if let Some(i) = differs(&alone, &r) {
                    seen += 1;
                    if bad.is_none() {
                        let parts = match (&alone[i], &r[i]) {
                            (Ok(a), Ok(b)) => a.split(';').zip(b.split(';')).filter(|(x, y)| x != y).map(|(x, _)| x.split(':').next().unwrap_or("").to_string()).collect::<Vec<_>>().join(","),
                            _ => String::new(),
                        };
                        bad = Some((i, format!("job {i}: alone {:?}, concurrently {:?} (differing artefacts: {parts})", short(&alone[i]), short(&r[i])), r[i].clone()));
                    }
                }
            }
        }
    }
    let mut r = CaseResult::held(hash);
    let mut flaky = false;
    if hangs == 1 {
        // one more look: a hang has to be seen twice
        if matches!(together(jobs, hash ^ 0x1ff, limit), Err(e) if e == "child-hang") {
            hangs += 1;
        }
    }
    if hangs >= 2 {
        r = CaseResult::fail(hash, "c19:hang-only-when-concurrent", format!("the jobs finish one after the other (limit derived from that: {limit:.0} s) but running them together did not finish within the limit in {hangs} runs: deadlock or livelock"));
    } else if hangs == 1 {
        flaky = true;
    }
    if let Some((i, msg, got)) = bad.filter(|_| hangs < 2) {
        // the solo result itself must be stable (otherwise it is C15's subject)
        let alone2: Vec<Result<String, String>> = jobs.iter().enumerate().map(|(k, (s, sc))| solo(s, *sc, hash ^ (k as u64 + 0x1000))).collect();
        if alone2 != alone {
            return CaseResult::discard("solo-result-not-deterministic");
        }
        // a verdict needs three observations: up to 20 more concurrent runs (on the unchanged tree a
        // difference was once seen twice in 12 runs under heavy machine load and never again in 300
        // runs of the same jobs; such a sighting is counted, not reported)
        let mut more = 0;
        while seen < 3 && more < 20 {
            if let Ok(r2) = together(jobs, hash ^ (0x200 + more as u64), limit) {
                if differs(&alone, &r2).is_some() {
                    seen += 1;
                }
            }
            more += 1;
        }
        if seen >= 3 {
            let kind = match (&alone[i], &got) {
                (_, Err(e)) if e.contains("poison") => "poisoned-lock",
                (_, Err(_)) => "panic-only-when-concurrent",
                _ => "result-contaminated",
            };
            r = CaseResult::fail(hash, format!("c19:{kind}"), format!("{msg} (seen in {seen} concurrent runs)"));
        } else {
            flaky = true;
        }
    }
    r.classes = classes;
    r.classes.push(format!("jobs:{}", jobs.len()));
    if flaky {
        r.classes.push("flaky-inconclusive".into());
        r.count("flaky_inconclusive", 1);
    }
    let distinct = jobs.iter().map(|(s, _)| s.as_str()).collect::<std::collections::BTreeSet<_>>().len();
    if distinct < jobs.len() {
        r.classes.push("identical-sources".into());
    }
    if alone.iter().any(|a| a.is_ok()) {
        r.classes.push("some-job-compiles".into());
    }
    r.nontrivial = jobs.len() >= 2 && alone.iter().filter(|a| a.is_ok()).count() >= 2 || r.is_fail();
    if cx.render || r.is_fail() {
        r.render = Some(json!({"jobs": jobs.iter().map(|(s, _)| s.chars().take(300).collect::<String>()).collect::<Vec<_>>()}));
    }
    r.direct = Some(direct);
    r
}

/// the `sched` space: the same oracle under a harness-owned interleaving
fn finish_planned(jobs: &[(String, bool)], plan: Vec<(u64, u64)>, classes: Vec<String>, cx: &Cx, hash: u64, direct: Value) -> CaseResult {
    let hash = hash ^ hash64(format!("{plan:?}").as_bytes());
    if cx.dry {
        let mut r = CaseResult::discard("dry");
        r.render = Some(direct.clone());
        r.direct = Some(direct);
        return r;
    }
    let t_solo = std::time::Instant::now();
    let alone: Vec<Result<String, String>> = jobs.iter().enumerate().map(|(i, (s, sc))| solo(s, *sc, hash ^ (i as u64 + 1))).collect();
    // (a planned run pays about 30 microseconds per turn switch on top: at most a few seconds)
    let limit = hang_limit(t_solo.elapsed().as_secs_f64()) + 15.0;
    let mut hangs = 0u32;
    let mut seen = 0u32;
    let mut runs = 0u32;
    let mut bad: Option<(usize, String, Result<String, String>)> = None;
    let mut stats: SchedStats = (0, 0, 0);
    let first = if cx.strict { 3 } else { 1 };
    let mut a = 0u64;
    while runs < first || (seen > 0 && seen < 2 && runs < first + 4) {
        match together_with(jobs, Some(&plan), hash ^ (0x300 + a), limit) {
            Err(e) if e == "child-hang" => {
                hangs += 1;
                seen += 1;
                if hangs >= 2 {
                    let mut r = CaseResult::fail(hash, "c19:hang-only-when-concurrent", format!("the jobs finish one after the other but did not finish within {limit:.0} s under the planned interleaving, twice: deadlock or livelock"));
                    r.classes = classes;
                    r.render = Some(json!({"jobs": jobs.iter().map(|(s, _)| s.chars().take(300).collect::<String>()).collect::<Vec<_>>(), "plan": format!("{:?}", &plan[..plan.len().min(12)])}));
                    r.direct = Some(direct);
                    return r;
                }
            }
            Err(e) => return CaseResult::discard(format!("child:{e}")),
            Ok((r, st)) => {
                if runs == 0 {
                    stats = st;
                }
                if let Some(i) = differs(&alone, &r) {
                    seen += 1;
                    if bad.is_none() {
                        let parts = match (&alone[i], &r[i]) {
                            (Ok(a), Ok(b)) => a.split(';').zip(b.split(';')).filter(|(x, y)| x != y).map(|(x, _)| x.split(':').next().unwrap_or("").to_string()).collect::<Vec<_>>().join(","),
                            _ => String::new(),
                        };
                        bad = Some((i, format!("job {i}: alone {:?}, under the planned interleaving {:?} (differing artefacts: {parts})", short(&alone[i]), short(&r[i])), r[i].clone()));
                    }
                }
            }
        }
        runs += 1;
        a += 1;
    }
    let mut r = CaseResult::held(hash);
    let mut flaky = false;
    if let Some((i, msg, got)) = bad {
        let alone2: Vec<Result<String, String>> = jobs.iter().enumerate().map(|(k, (s, sc))| solo(s, *sc, hash ^ (k as u64 + 0x1000))).collect();
        if alone2 != alone {
            return CaseResult::discard("solo-result-not-deterministic");
        }
        if seen >= 2 {
            let kind = match (&alone[i], &got) {
                (_, Err(e)) if e.contains("poison") => "poisoned-lock",
                (_, Err(_)) => "panic-only-when-concurrent",
                _ => "result-contaminated",
            };
            r = CaseResult::fail(hash, format!("c19:{kind}"), format!("{msg} (seen in {seen} of {runs} runs of the same plan; {} scheduling points, {} switches)", stats.0, stats.1));
        } else {
            flaky = true;
        }
    }
    r.classes = classes;
    r.classes.push(format!("jobs:{}", jobs.len()));
    r.classes.push(match stats.1 {
        0..=9 => "switches:<10".to_string(),
        10..=99 => "switches:10-99".to_string(),
        100..=999 => "switches:100-999".to_string(),
        _ => "switches:>=1000".to_string(),
    });
    if stats.2 > 0 {
        r.classes.push("forced-turns".into());
        r.count("forced_turns", stats.2);
    }
    r.count("scheduling_points", stats.0);
    r.count("switches", stats.1);
    if flaky {
        r.classes.push("flaky-inconclusive-planned".into());
        r.count("flaky_inconclusive", 1);
    }
    let distinct = jobs.iter().map(|(s, _)| s.as_str()).collect::<std::collections::BTreeSet<_>>().len();
    if distinct < jobs.len() {
        r.classes.push("identical-sources".into());
    }
    if alone.iter().any(|a| a.is_ok()) {
        r.classes.push("some-job-compiles".into());
    }
    r.nontrivial = jobs.len() >= 2 && alone.iter().filter(|a| a.is_ok()).count() >= 2 && stats.1 >= 10 || r.is_fail();
    if cx.render || r.is_fail() {
        r.render = Some(json!({"jobs": jobs.iter().map(|(s, _)| s.chars().take(300).collect::<String>()).collect::<Vec<_>>(), "plan": format!("{:?}", &plan[..plan.len().min(12)]), "scheduling_points": stats.0, "switches": stats.1}));
    }
    r.direct = Some(direct);
    r
}


/// outcome of a planned run of the jobs under valgrind/memcheck (`mmv together` as the child of valgrind)
enum Mem {
    Clean,
    /// (kind, site, excerpt of the report)
    Error(String, String, String),
    /// valgrind missing, child died for another reason, or the wall limit was hit
    Inconclusive(String),
}

/// the first frames of the first memcheck error that lie in the repository's code: `file:function`
fn memcheck_site(log: &str) -> (String, String, String) {
    let mut kind = String::new();
    let mut site = String::new();
    let mut excerpt = vec![];
    for l in log.lines() {
        let t = l.trim_start_matches(|c: char| c == '=' || c.is_ascii_digit()).trim();
        if kind.is_empty() {
            if t.starts_with("Invalid read") || t.starts_with("Invalid write") || t.starts_with("Invalid free") || t.starts_with("Mismatched free") || t.starts_with("Source and destination overlap") {
                kind = t.split(" of size").next().unwrap_or(t).to_lowercase().replace(' ', "-");
            } else {
                continue;
            }
        }
        if excerpt.len() < 40 {
            excerpt.push(t.chars().take(200).collect::<String>());
        }
        if site.is_empty() && (t.starts_with("at ") || t.starts_with("by ")) {
            // `by 0xADDR: function (file.rs:line)`
            if let Some(par) = t.rfind('(') {
                let loc = t[par + 1..].trim_end_matches(')');
                let file = loc.split(':').next().unwrap_or("");
                let func = t.split(": ").nth(1).unwrap_or("").split(" (").next().unwrap_or("");
                let ours = ["lower.rs", "mirgen", "typing", "interner.rs", "parser", "bytecodegen", "wasmgen", "vm.rs", "compiler", "unification", "convert_", "program.rs", "resolve_", "plugin", "builtin_", "wasm", "heap.rs", "translate_staging", "intrinsics"];
                if file.ends_with(".rs") && !file.starts_with("library/") && ours.iter().any(|o| file.contains(o)) && !func.is_empty() {
                    let f: String = func.chars().filter(|c| !c.is_ascii_digit()).take(80).collect();
                    site = format!("{file}:{f}");
                }
            }
        }
        if t.starts_with("Address ") && excerpt.len() > 6 && !site.is_empty() {
            // keep a few lines of the `free'd by` stack, then stop
            if excerpt.len() >= 30 {
                break;
            }
        }
    }
    (kind, site, excerpt.join("\n"))
}

fn together_memcheck(jobs: &[(String, bool)], plan: Option<&[(u64, u64)]>, tag: u64, limit_s: f64) -> Mem {
    let dir = "/verif/target/work/c19";
    let _ = std::fs::create_dir_all(dir);
    let path = format!("{dir}/{}-{tag:016x}.mc.json", std::process::id());
    let logp = format!("{dir}/{}-{tag:016x}.mc.log", std::process::id());
    let js: Vec<Value> = jobs.iter().map(|(s, sc)| json!({"text": s, "sched": sc})).collect();
    let payload = match plan {
        None => Value::Array(js),
        Some(p) => json!({"jobs": js, "plan": p.iter().map(|(a, b)| json!([a, b])).collect::<Vec<_>>()}),
    };
    if std::fs::write(&path, serde_json::to_vec(&payload).unwrap()).is_err() {
        return Mem::Inconclusive("cannot write the job file".into());
    }
    let Ok(exe) = std::env::current_exe() else { return Mem::Inconclusive("no current_exe".into()) };
    let mut cmd = std::process::Command::new("valgrind");
    cmd.args(["-q", "--error-exitcode=97", "--undef-value-errors=no", "--num-callers=24", "--error-limit=no", &format!("--log-file={logp}")]).arg(exe).args(["together", &path]);
    let out = output_within(&mut cmd, limit_s);
    let log = std::fs::read_to_string(&logp).unwrap_or_default();
    let _ = std::fs::remove_file(&path);
    let _ = std::fs::remove_file(&logp);
    match out {
        Err(e) => Mem::Inconclusive(e),
        Ok(o) => {
            let (kind, site, excerpt) = memcheck_site(&log);
            if !kind.is_empty() {
                Mem::Error(kind, if site.is_empty() { "unknown-site".into() } else { site }, excerpt)
            } else if o.status.success() {
                Mem::Clean
            } else {
                Mem::Inconclusive(format!("child-died:{:?}", o.status.code()))
            }
        }
    }
}

/// the `memcheck` space: the planned interleaving once more, with valgrind's memcheck watching every
/// heap access of the process (uninitialised-value tracking off)
fn finish_memcheck(jobs: &[(String, bool)], plan: Vec<(u64, u64)>, mut classes: Vec<String>, cx: &Cx) -> CaseResult {
    let key = jobs.iter().map(|(s, _)| s.as_str()).collect::<Vec<_>>().join("\u{1}");
    let hash = hash64(key.as_bytes()) ^ hash64(format!("mc{plan:?}").as_bytes());
    let direct = json!({"memcheck": true, "jobs": jobs.iter().map(|(s, sc)| json!({"text": s, "sched": sc})).collect::<Vec<_>>(), "plan": plan.iter().map(|(a, b)| json!([a, b])).collect::<Vec<_>>()});
    if cx.dry {
        let mut r = CaseResult::discard("dry");
        r.render = Some(direct.clone());
        r.direct = Some(direct);
        return r;
    }
    let limit = 900.0;
    let mut r = match together_memcheck(jobs, Some(&plan), hash, limit) {
        Mem::Inconclusive(e) => {
            let mut r = CaseResult::discard(format!("memcheck:{e}"));
            r.direct = Some(direct);
            return r;
        }
        Mem::Clean => CaseResult::held(hash),
        Mem::Error(kind, site, excerpt) => {
            // is the error a consequence of running together?  every job alone, also under memcheck
            let mut alone_bad = None;
            for (i, j) in jobs.iter().enumerate() {
                if let Mem::Error(k2, s2, _) = together_memcheck(std::slice::from_ref(j), None, hash ^ (0x4000 + i as u64), limit) {
                    alone_bad = Some((i, k2, s2));
                    break;
                }
            }
            match alone_bad {
                Some((i, k2, s2)) => {
                    // a memory error of one compilation on its own is C03's subject, not C19's
                    let mut r = CaseResult::discard(format!("memory-error-also-alone:{k2}:{s2}"));
                    r.count("memory_error_also_alone", 1);
                    r.render = Some(json!({"job": i, "kind": k2, "site": s2}));
                    r.direct = Some(direct);
                    return r;
                }
                None => CaseResult::fail(hash, format!("c19:memory-error-only-when-concurrent:{kind}:{site}"), format!("memcheck reports `{kind}` at {site} when the jobs run under the planned interleaving; each job alone runs clean under memcheck.\n{excerpt}")),
            }
        }
    };
    classes.push(format!("jobs:{}", jobs.len()));
    classes.push("memcheck".into());
    r.classes = classes;
    r.nontrivial = jobs.len() >= 2 || r.is_fail();
    if cx.render || r.is_fail() {
        r.render = Some(json!({"memcheck": true, "jobs": jobs.iter().map(|(s, _)| s.chars().take(300).collect::<String>()).collect::<Vec<_>>(), "plan": format!("{:?}", &plan[..plan.len().min(12)])}));
    }
    r.direct = Some(direct);
    r
}

/// a source that gives the front end many symbol comparisons and look-ups (records with several
/// fields, qualified paths) or many fresh identifiers to intern
fn symbol_heavy_job(g: &mut Gen) -> String {
    let kind = g.weighted(&[3, 3, 2]);
    symbol_heavy_job_of(g, kind)
}

/// kind 0: records (field-name comparisons), 1: fresh identifiers (the interner grows), 2: qualified paths
fn symbol_heavy_job_of(g: &mut Gen, kind: usize) -> String {
    const NAMES: [&str; 12] = ["zeta", "alpha", "mid", "beta", "omega", "kappa", "gamma", "delta", "phase", "freq", "gain", "width"];
    let tag = g.int(0, 999);
    match kind {
        0 => {
            // records
            let nrec = g.int(2, 30);
            let nf = g.int(2, 8) as usize;
            let p = g.perm(NAMES.len());
            let fields: Vec<&str> = p.iter().take(nf).map(|i| NAMES[*i]).collect();
            let mut s = String::from("fn dsp() {\n");
            for i in 0..nrec {
                s.push_str(&format!("  let r{i} = {{{}}}\n", fields.iter().enumerate().map(|(k, f)| format!("{f} = {}.0", i + k as i64)).collect::<Vec<_>>().join(", ")));
            }
            s.push_str(&format!("  r0.{} + r1.{}\n}}\n", fields[0], fields[nf - 1]));
            s
        }
        1 => {
            // many fresh identifiers
            let n = g.int(5, 200);
            let mut s = String::new();
            for i in 0..n {
                s.push_str(&format!("fn helper_{tag}_{i}_with_a_long_name(argument_{tag}_{i}) {{ argument_{tag}_{i} + {i}.0 }}\n"));
            }
            s.push_str(&format!("fn dsp() {{ helper_{tag}_0_with_a_long_name(1.0) }}\n"));
            s
        }
        _ => {
            // nested modules and qualified paths
            let n = g.int(1, 12);
            let mut s = String::new();
            for i in 0..n {
                s.push_str(&format!("mod outer_{tag}_{i} {{ pub mod inner_{i} {{ pub fn leaf_{i}(x) {{ x + {i}.0 }} }} }}\n"));
            }
            s.push_str("fn dsp() { ");
            s.push_str(&(0..n).map(|i| format!("outer_{tag}_{i}::inner_{i}::leaf_{i}(1.0)")).collect::<Vec<_>>().join(" + "));
            s.push_str(" }\n");
            s
        }
    }
}

/// A program whose types go through two levels of type aliases; the alias NAMES come from a pool
/// of two per level, the definitions differ from job to job (1-3 words), so that concurrent jobs
/// declare same-named aliases with different meanings.
fn alias_job(g: &mut Gen) -> String {
    let s_name = *g.pick(&["Sample", "Unit"][..]);
    let f_name = *g.pick(&["Frame", "Pair"][..]);
    let n = g.int(1, 3) as usize;
    let ty = match n { 1 => "float".to_string(), _ => format!("({})", vec!["float"; n].join(", ")) };
    let lit = |base: usize| match n { 1 => format!("{}.0", base + 1), _ => format!("({})", (0..n).map(|i| format!("{}.0", base + i + 1)).collect::<Vec<_>>().join(", ")) };
    let mut body = String::from("    let (a, b) = f\n");
    let mut terms = vec![];
    for (k, v) in ["a", "b"].iter().enumerate() {
        if n == 1 {
            terms.push(format!("{v} * {}.0", 10usize.pow(k as u32 * n as u32)));
        } else {
            let names: Vec<String> = (0..n).map(|i| format!("{v}{i}")).collect();
            body.push_str(&format!("    let ({}) = {v}\n", names.join(", ")));
            for (i, nm) in names.iter().enumerate() {
                terms.push(format!("{nm} * {}.0", 10usize.pow((k * n + i) as u32)));
            }
        }
    }
    body.push_str(&format!("    {}\n", terms.join(" + ")));
    let direct = if g.coin() { format!("fn first(s: {s_name}) -> {s_name} {{ s }}\n") } else { String::new() };
    format!("type alias {s_name} = {ty}\ntype alias {f_name} = ({s_name}, {s_name})\n{direct}fn mix(f: {f_name}) -> float {{\n{body}}}\nfn dsp() {{\n    mix(({}, {}))\n}}\n", lit(0), lit(n))
}

fn short(r: &Result<String, String>) -> String {
    match r {
        Ok(d) => format!("ok:{:016x}", hash64(d.as_bytes())),
        Err(e) => format!("panic:{e}"),
    }
}

impl Prop for C19 {
    fn id(&self) -> &'static str {
        "C19"
    }
    fn spaces(&self, tier: Tier) -> Vec<Space> {
        match tier {
            Tier::Quick => vec![
                Space { name: "sched", size: 1200, exhaustive: false, chunk: 4, case_timeout_s: 300.0, what: "K=2..4 compile+run jobs under a harness-owned interleaving: one thread runs at a time, switching at session-globals accesses where the case's plan says (fine alternation, log-uniform, coarse, burst and mixed plans)" },
                Space { name: "stress", size: 640, exhaustive: false, chunk: 2, case_timeout_s: 300.0, what: "K=2..6 compile+run jobs (generated, shipped incl. macro/module programs, identical and near-identical sources, failing programs) started together on K threads, 2 rounds each" },
                Space { name: "memcheck", size: 32, exhaustive: false, chunk: 1, case_timeout_s: 3000.0, what: "K=2..3 jobs (one of them symbol-heavy: records, fresh identifiers, qualified paths) under a fine or mixed harness-owned interleaving, the whole process watched by valgrind/memcheck: no invalid read, write or free that does not also occur when each job runs alone" },
            ],
            Tier::Thorough => vec![
                Space { name: "sched", size: 20000, exhaustive: false, chunk: 10, case_timeout_s: 300.0, what: "K=2..4 jobs under a harness-owned interleaving" },
                Space { name: "stress", size: 6000, exhaustive: false, chunk: 10, case_timeout_s: 300.0, what: "K=2..6 concurrent compile+run jobs, 2 rounds each" },
                Space { name: "memcheck", size: 480, exhaustive: false, chunk: 1, case_timeout_s: 3000.0, what: "K=2..3 jobs under a fine or mixed harness-owned interleaving, watched by valgrind/memcheck" },
            ],
        }
    }
    fn run(&self, space: &str, _index: u64, g: &mut Gen, cx: &Cx) -> CaseResult {
        let memcheck = space == "memcheck";
        let planned = space == "sched" || memcheck;
        let k = if memcheck { g.int(2, 3) as usize } else if planned { g.int(2, 4) as usize } else { g.int(2, 6) as usize };
        let (cfg, _) = c01::pcfg(cx);
        let mut jobs: Vec<(String, bool)> = vec![];
        let mut classes = vec![];
        // half of the memcheck cases pair a job that holds symbol strings while it works (records,
        // qualified paths) with a job that makes the interner grow (fresh identifiers)
        let paired = memcheck && g.coin();
        if paired {
            let holder = if g.bool(2, 3) { 0 } else { 2 };
            let a = symbol_heavy_job_of(g, holder);
            let b = symbol_heavy_job_of(g, 1);
            if g.coin() {
                jobs.push((a, false));
                jobs.push((b, false));
            } else {
                jobs.push((b, false));
                jobs.push((a, false));
            }
            classes.push("job:symbol-heavy".to_string());
            classes.push("memcheck:holder-and-grower".to_string());
        }
        for jn in jobs.len()..k {
            if memcheck && (jn == 0 || g.bool(1, 3)) {
                jobs.push((symbol_heavy_job(g), false));
                classes.push("job:symbol-heavy".to_string());
                continue;
            }
            match g.weighted(&[4, 4, 2, 1, 1, if jobs.is_empty() { 0 } else { 3 }, 2, 3]) {
                0 => {
                    let mut pg = PG::new(g, cfg.clone());
                    let p = pg.program();
                    jobs.push((prog::render(&p, &Layout::default()), false));
                    classes.push("job:generated".to_string());
                }
                1 => {
                    let c = tg::corpus();
                    let usable: Vec<&(String, String)> = c.iter().filter(|(p, s)| !s.contains("Sampler") && !s.contains("midi") && !s.contains("Slider") && !s.contains("Probe") && !p.contains("/examples/") && !s.contains("include")).collect();
                    let (_, s) = usable[g.usize_below(usable.len())];
                    let sched = s.contains('@') || s.contains("_mimium_schedule_at");
                    if s.contains("#stage") {
                        classes.push("job:macro".to_string());
                    }
                    jobs.push((s.clone(), sched));
                    classes.push("job:shipped".to_string());
                }
                6 => {
                    // a program over user sum types; half of them with a non-exhaustive match that
                    // misses two or more constructors (the diagnostic names them)
                    let p = crate::gens::sumgen::generate(g, &crate::gens::sumgen::SumCfg { lone_recursive_payload: false, unannotated_params: false, boxed_per_sample: true });
                    if g.coin() {
                        let q = crate::gens::sumgen::drop_arms(&p, g);
                        jobs.push((crate::gens::sumgen::render(&q), false));
                        classes.push("job:sum-nonexhaustive".to_string());
                    } else {
                        jobs.push((crate::gens::sumgen::render(&p), false));
                        classes.push("job:sum".to_string());
                    }
                }
                7 => {
                    jobs.push((alias_job(g), false));
                    classes.push("job:alias".to_string());
                }
                5 => {
                    // the identifiers of an earlier job, mentioned in a shuffled order
                    let (s, _) = jobs[g.usize_below(jobs.len())].clone();
                    jobs.push((crate::props::c15::ident_shuffle(&s, g), false));
                    classes.push("job:ident-shuffle".to_string());
                }
                2 if !jobs.is_empty() => {
                    let j = jobs[g.usize_below(jobs.len())].clone();
                    jobs.push(j);
                    classes.push("job:duplicate".to_string());
                }
                3 if !jobs.is_empty() => {
                    let (s, sc) = jobs[g.usize_below(jobs.len())].clone();
                    jobs.push((s.replacen("1.0", "2.0", 1), sc));
                    classes.push("job:near-duplicate".to_string());
                }
                _ => {
                    jobs.push((tg::soup(g, 10), false));
                    classes.push("job:broken".to_string());
                }
            }
        }
        if memcheck {
            // fine alternation parks a thread at nearly every one of its scheduling points
            let plan: Vec<(u64, u64)> = if g.bool(1, 3) {
                // strict rotation over the threads, 1-2 scheduling points per turn
                (0..jobs.len()).map(|t| (g.int(1, 2) as u64, ((t as u64) << 16) / jobs.len() as u64 + 1)).collect()
            } else if g.bool(1, 2) {
                let n = g.int(2, 6) as usize;
                (0..n).map(|_| (g.int(1, 3) as u64, g.below(65536))).collect()
            } else {
                gen_plan(g).0
            };
            classes.sort();
            classes.dedup();
            return finish_memcheck(&jobs, plan, classes, cx);
        }
        if planned {
            let (plan, name) = gen_plan(g);
            classes.push(name.to_string());
            classes.sort();
            classes.dedup();
            return finish_with(&jobs, Some(plan), classes, cx);
        }
        classes.sort();
        classes.dedup();
        finish(&jobs, classes, cx)
    }
    fn run_direct(&self, input: &Value, cx: &Cx) -> Option<CaseResult> {
        let jobs: Vec<(String, bool)> = input.get("jobs")?.as_array()?.iter().filter_map(|j| Some((j.get("text")?.as_str()?.to_string(), j.get("sched").and_then(|v| v.as_bool()).unwrap_or(false)))).collect();
        if jobs.is_empty() {
            return None;
        }
        if let Some(p) = input.get("plan").and_then(|p| p.as_array()) {
            let plan: Vec<(u64, u64)> = p.iter().map(|e| (e[0].as_u64().unwrap_or(1), e[1].as_u64().unwrap_or(0))).collect();
            if input.get("memcheck").and_then(|v| v.as_bool()).unwrap_or(false) {
                return Some(finish_memcheck(&jobs, plan, vec![], cx));
            }
            return Some(finish_with(&jobs, Some(plan), vec![], cx));
        }
        Some(finish(&jobs, vec![], cx))
    }
    fn shrink_direct(&self, input: &Value) -> Vec<Value> {
        let mut out = vec![];
        if let Some(js) = input.get("jobs").and_then(|v| v.as_array()) {
            if js.len() > 2 {
                for i in 0..js.len() {
                    let mut v = js.clone();
                    v.remove(i);
                    let mut o = json!({"jobs": v});
                    if let Some(p) = input.get("plan") {
                        o["plan"] = p.clone();
                    }
                    if let Some(m) = input.get("memcheck") {
                        o["memcheck"] = m.clone();
                    }
                    out.push(o);
                }
            }
            if let Some(p) = input.get("plan").and_then(|p| p.as_array()) {
                // shorter plans (the plan repeats cyclically, so halving keeps a schedule)
                if p.len() > 1 {
                    for half in [&p[..p.len() / 2], &p[p.len() / 2..]] {
                        let mut o = json!({"jobs": js, "plan": half});
                        if let Some(m) = input.get("memcheck") {
                            o["memcheck"] = m.clone();
                        }
                        out.push(o);
                    }
                }
            }
        }
        out
    }
    fn rule(&self) -> String {
        "Cases are sets of K=2..6 jobs; a job compiles a source for both backends and runs 8 samples on both runtimes (artefacts: bytecode listing, WASM bytes, state layouts, I/O channels, outputs; diagnostics or a panic signature for failing programs). Sources: generated programs, shipped sources (incl. programs with macros, which set the process environment variable, and modules), exact duplicates, near-duplicates differing in one literal, and broken texts. Sources also include programs whose types go through two levels of type aliases (alias names from a pool of two per level, definitions of 1-3 words that differ from job to job), programs over user sum types (half of them with a match that misses several constructors, so that the diagnostic lists names) and a program that mentions the identifiers of another job in a shuffled order. The compared artefacts include the diagnostic messages of refused programs. Each job is first run alone in its own fresh child process; then all jobs are started together on K OS threads behind a barrier in a fresh child process that has compiled nothing before (2 such processes per case). Oracle: every job's artefacts equal its solo artefacts; no panic that does not also occur alone. A difference is reported when it is seen in at least three concurrent runs (up to 20 further runs are made) and the solo artefacts are stable; otherwise it is counted as flaky-inconclusive. Non-trivial = at least two jobs that compile. Space `sched`: the same jobs (K=2..4) and the same oracle, but the interleaving belongs to the case: the repository hook `interner::verif_hooks` calls the harness in front of every session-globals access (about 14 000 such points per compiled job), a cooperative scheduler lets exactly one job thread run at a time and hands the turn over where the case's plan says; a plan is a list of 4..50 (segment length, thread pick) pairs drawn from the tape in five styles (fine alternation of 1-4 points, log-uniform up to 8 000, coarse up to 260 000, a burst of fine alternation after a quiet start of random length, mixed) and repeats cyclically. A difference under a plan is re-run with the same plan (up to 4 more times) and reported when seen at least twice; non-trivial there additionally needs at least 10 turn switches. Space `memcheck`: K=2..3 jobs, the first of them symbol-heavy (records with 2-8 fields, up to 200 fresh long identifiers, or nested modules with qualified paths), under a plan of fine alternation (1-3 scheduling points per turn; two thirds of the cases) or one of the five styles above; the child process that runs the jobs together is started under valgrind/memcheck (uninitialised-value tracking off, all other heap checking on). Oracle: memcheck reports no invalid read, invalid write, invalid or mismatched free; when it does, every job is run alone under memcheck as well, and only an error that none of the jobs shows alone is a failure (`c19:memory-error-only-when-concurrent:<kind>:<site>`, site = first frame in the repository's code); an error that also occurs alone is discarded and counted (it is C03's subject).".into()
    }
    fn assumptions(&self) -> Vec<String> {
        vec![
            "space `stress`: interleavings are whatever the OS scheduler produces on this machine, so a rare interleaving can be missed and a difference seen fewer than three times in 22 concurrent runs is not reported".into(),
            "space `sched`: the harness owns the interleaving only at the granularity of session-globals accesses (hook H3); code between two such accesses runs atomically, so races on other shared state are exercised only insofar as a session-globals access lies inside their window; a job thread's own behaviour is not perfectly deterministic (the number of scheduling points of one job varies by a fraction of a percent between processes), so a plan fixes the interleaving approximately".into(),
            "space `memcheck`: valgrind 3.19 serialises the process's threads, which does not matter here because the cooperative scheduler already lets exactly one job thread run at a time; a scheduling turn is taken by force after 3 s without progress, which under memcheck's slowdown can happen inside a long compilation step and then only changes which interleaving is explored".into(),
            "a deadlock or livelock is recognised by a wall-clock limit derived from the jobs' own solo run time (40x, at least 45 s) and has to be seen twice; a machine so overloaded that a healthy run exceeds that limit twice would be misread".into(),
        ]
    }
    fn fail_budget(&self) -> u64 {
        8
    }
    fn required_classes(&self, _tier: Tier) -> Vec<&'static str> {
        vec!["job:generated", "job:shipped", "job:macro", "job:duplicate", "job:broken", "job:ident-shuffle", "some-job-compiles", "identical-sources", "plan:fine", "plan:log", "plan:coarse", "plan:burst", "plan:mixed", "switches:>=1000", "memcheck", "job:symbol-heavy"]
    }
}
