//! C19 — concurrent compilations do not interfere.
//!
//! Free-running stress with real parallelism (barrier start): K threads compile and run K
//! programs at the same time; each job's artefacts must equal those of the same job run alone.
//! (A harness-owned deterministic scheduler would need a scheduling-point hook inside the
//! repository's interner lock; it was not built — see DESIGN.md, limits.)

use crate::engine::case::*;
use crate::engine::panics;
use crate::engine::rng::hash64;
use crate::engine::tape::Gen;
use crate::gens::prog::{self, Layout, PG};
use crate::gens::textgen as tg;
use crate::props::c01;
use crate::runners::artefacts::compile_artefacts;
use serde_json::{json, Value};
use std::sync::{Arc, Barrier};

pub struct C19;

pub fn prop() -> Option<&'static dyn Prop> {
    Some(&C19)
}

/// digest of one job compiled alone in a fresh child process (`mmv artefacts`)
fn solo(src: &str, sched: bool, tag: u64) -> Result<String, String> {
    let dir = "/verif/target/work/c19";
    let _ = std::fs::create_dir_all(dir);
    let path = format!("{dir}/{}-{tag:016x}.mmm", std::process::id());
    std::fs::write(&path, src).map_err(|e| e.to_string())?;
    let exe = std::env::current_exe().map_err(|e| e.to_string())?;
    let mut cmd = std::process::Command::new(exe);
    cmd.args(["artefacts", &path, "--diags"]);
    if sched {
        cmd.arg("--sched");
    }
    let out = cmd.output().map_err(|e| e.to_string());
    let _ = std::fs::remove_file(&path);
    let out = out?;
    if !out.status.success() {
        return Err(format!("child-died:{:?}", out.status.code()));
    }
    let v: Value = crate::engine::worker::child_result(&out.stdout)?;
    Ok(v.get("digest").and_then(|d| d.as_str()).unwrap_or("").to_string())
}

/// run all jobs at once in THIS process (called in a fresh child: `mmv together`); per job
/// Ok(digest) / Err(panic signature)
pub fn together_here(jobs: &[(String, bool)]) -> Vec<Result<String, String>> {
    let barrier = Arc::new(Barrier::new(jobs.len()));
    let handles: Vec<_> = jobs
        .iter()
        .cloned()
        .map(|(src, sched)| {
            let b = barrier.clone();
            std::thread::Builder::new()
                .stack_size(16 * 1024 * 1024)
                .spawn(move || {
                    b.wait();
                    panics::catch(|| compile_artefacts(&src, sched, true).digest_with_diagnostics()).map_err(|p| p.signature())
                })
                .expect("spawn")
        })
        .collect();
    handles.into_iter().map(|h| h.join().unwrap_or_else(|_| Err("thread-died".into()))).collect()
}

/// one fresh child process that starts all jobs together (nothing was compiled in it before, so
/// which thread interns, registers or caches something first is decided by the race alone)
fn together(jobs: &[(String, bool)], tag: u64) -> Result<Vec<Result<String, String>>, String> {
    let dir = "/verif/target/work/c19";
    let _ = std::fs::create_dir_all(dir);
    let path = format!("{dir}/{}-{tag:016x}.jobs.json", std::process::id());
    let js: Vec<Value> = jobs.iter().map(|(s, sc)| json!({"text": s, "sched": sc})).collect();
    std::fs::write(&path, serde_json::to_vec(&js).unwrap()).map_err(|e| e.to_string())?;
    let exe = std::env::current_exe().map_err(|e| e.to_string())?;
    let out = std::process::Command::new(exe).args(["together", &path]).output().map_err(|e| e.to_string());
    let _ = std::fs::remove_file(&path);
    let out = out?;
    if !out.status.success() {
        return Err(format!("child-died:{:?}", out.status.code()));
    }
    let v: Value = crate::engine::worker::child_result(&out.stdout)?;
    let arr = v.as_array().ok_or("no array")?;
    Ok(arr
        .iter()
        .map(|x| match (x.get("ok").and_then(|d| d.as_str()), x.get("err").and_then(|d| d.as_str())) {
            (Some(d), _) => Ok(d.to_string()),
            (_, Some(e)) => Err(e.to_string()),
            _ => Err("malformed".into()),
        })
        .collect())
}

fn differs(alone: &[Result<String, String>], r: &[Result<String, String>]) -> Option<usize> {
    // a job that cannot even run alone (child died) is not judged
    r.iter().enumerate().find(|(i, x)| !matches!(&alone[*i], Err(e) if e.starts_with("child-died")) && **x != alone[*i]).map(|(i, _)| i)
}

fn finish(jobs: &[(String, bool)], classes: Vec<String>, cx: &Cx) -> CaseResult {
    let key = jobs.iter().map(|(s, _)| s.as_str()).collect::<Vec<_>>().join("\u{1}");
    let hash = hash64(key.as_bytes());
    let direct = json!({"jobs": jobs.iter().map(|(s, sc)| json!({"text": s, "sched": sc})).collect::<Vec<_>>()});
    if cx.dry {
        let mut r = CaseResult::discard("dry");
        r.render = Some(direct.clone());
        r.direct = Some(direct);
        return r;
    }
    // every job alone, each in its own fresh process
    let alone: Vec<Result<String, String>> = jobs.iter().enumerate().map(|(i, (s, sc))| solo(s, *sc, hash ^ (i as u64 + 1))).collect();
    // all jobs together, in fresh processes (a replay tries harder: the race is not ours to steer)
    let attempts = if cx.strict { 24 } else { 2 };
    let mut bad: Option<(usize, String, Result<String, String>)> = None;
    let mut seen = 0u32;
    for a in 0..attempts {
        match together(jobs, hash ^ (0x100 + a as u64)) {
            Err(e) => return CaseResult::discard(format!("child:{e}")),
            Ok(r) => {
                if let Some(i) = differs(&alone, &r) {
                    seen += 1;
                    if bad.is_none() {
                        let parts = match (&alone[i], &r[i]) {
                            (Ok(a), Ok(b)) => a.split(';').zip(b.split(';')).filter(|(x, y)| x != y).map(|(x, _)| x.split(':').next().unwrap_or("").to_string()).collect::<Vec<_>>().join(","),
                            _ => String::new(),
                        };
                        bad = Some((i, format!("job {i}: alone {:?}, concurrently {:?} (differing artefacts: {parts})", short(&alone[i]), short(&r[i])), r[i].clone()));
                    }
                }
            }
        }
    }
    let mut r = CaseResult::held(hash);
    let mut flaky = false;
    if let Some((i, msg, got)) = bad {
        // the solo result itself must be stable (otherwise it is C15's subject)
        let alone2: Vec<Result<String, String>> = jobs.iter().enumerate().map(|(k, (s, sc))| solo(s, *sc, hash ^ (k as u64 + 0x1000))).collect();
        if alone2 != alone {
            return CaseResult::discard("solo-result-not-deterministic");
        }
        // a verdict needs three observations: up to 20 more concurrent runs (on the unchanged tree a
        // difference was once seen twice in 12 runs under heavy machine load and never again in 300
        // runs of the same jobs; such a sighting is counted, not reported)
        let mut more = 0;
        while seen < 3 && more < 20 {
            if let Ok(r2) = together(jobs, hash ^ (0x200 + more as u64)) {
                if differs(&alone, &r2).is_some() {
                    seen += 1;
                }
            }
            more += 1;
        }
        if seen >= 3 {
            let kind = match (&alone[i], &got) {
                (_, Err(e)) if e.contains("poison") => "poisoned-lock",
                (_, Err(_)) => "panic-only-when-concurrent",
                _ => "result-contaminated",
            };
            r = CaseResult::fail(hash, format!("c19:{kind}"), format!("{msg} (seen in {seen} concurrent runs)"));
        } else {
            flaky = true;
        }
    }
    r.classes = classes;
    r.classes.push(format!("jobs:{}", jobs.len()));
    if flaky {
        r.classes.push("flaky-inconclusive".into());
        r.count("flaky_inconclusive", 1);
    }
    let distinct = jobs.iter().map(|(s, _)| s.as_str()).collect::<std::collections::BTreeSet<_>>().len();
    if distinct < jobs.len() {
        r.classes.push("identical-sources".into());
    }
    if alone.iter().any(|a| a.is_ok()) {
        r.classes.push("some-job-compiles".into());
    }
    r.nontrivial = jobs.len() >= 2 && alone.iter().filter(|a| a.is_ok()).count() >= 2 || r.is_fail();
    if cx.render || r.is_fail() {
        r.render = Some(json!({"jobs": jobs.iter().map(|(s, _)| s.chars().take(300).collect::<String>()).collect::<Vec<_>>()}));
    }
    r.direct = Some(direct);
    r
}

fn short(r: &Result<String, String>) -> String {
    match r {
        Ok(d) => format!("ok:{:016x}", hash64(d.as_bytes())),
        Err(e) => format!("panic:{e}"),
    }
}

impl Prop for C19 {
    fn id(&self) -> &'static str {
        "C19"
    }
    fn spaces(&self, tier: Tier) -> Vec<Space> {
        match tier {
            Tier::Quick => vec![Space { name: "stress", size: 640, exhaustive: false, chunk: 20, case_timeout_s: 300.0, what: "K=2..6 compile+run jobs (generated, shipped incl. macro/module programs, identical and near-identical sources, failing programs) started together on K threads, 2 rounds each" }],
            Tier::Thorough => vec![Space { name: "stress", size: 6000, exhaustive: false, chunk: 40, case_timeout_s: 300.0, what: "K=2..6 concurrent compile+run jobs, 2 rounds each" }],
        }
    }
    fn run(&self, _space: &str, _index: u64, g: &mut Gen, cx: &Cx) -> CaseResult {
        let k = g.int(2, 6) as usize;
        let (cfg, _) = c01::pcfg(cx);
        let mut jobs: Vec<(String, bool)> = vec![];
        let mut classes = vec![];
        for _ in 0..k {
            match g.weighted(&[4, 4, 2, 1, 1, if jobs.is_empty() { 0 } else { 3 }, 2]) {
                0 => {
                    let mut pg = PG::new(g, cfg.clone());
                    let p = pg.program();
                    jobs.push((prog::render(&p, &Layout::default()), false));
                    classes.push("job:generated".to_string());
                }
                1 => {
                    let c = tg::corpus();
                    let usable: Vec<&(String, String)> = c.iter().filter(|(p, s)| !s.contains("Sampler") && !s.contains("midi") && !s.contains("Slider") && !s.contains("Probe") && !p.contains("/examples/") && !s.contains("include")).collect();
                    let (_, s) = usable[g.usize_below(usable.len())];
                    let sched = s.contains('@') || s.contains("_mimium_schedule_at");
                    if s.contains("#stage") {
                        classes.push("job:macro".to_string());
                    }
                    jobs.push((s.clone(), sched));
                    classes.push("job:shipped".to_string());
                }
                6 => {
                    // a program over user sum types; half of them with a non-exhaustive match that
                    // misses two or more constructors (the diagnostic names them)
                    let p = crate::gens::sumgen::generate(g, &crate::gens::sumgen::SumCfg { lone_recursive_payload: false, unannotated_params: false, boxed_per_sample: true });
                    if g.coin() {
                        let q = crate::gens::sumgen::drop_arms(&p, g);
                        jobs.push((crate::gens::sumgen::render(&q), false));
                        classes.push("job:sum-nonexhaustive".to_string());
                    } else {
                        jobs.push((crate::gens::sumgen::render(&p), false));
                        classes.push("job:sum".to_string());
                    }
                }
                5 => {
                    // the identifiers of an earlier job, mentioned in a shuffled order
                    let (s, _) = jobs[g.usize_below(jobs.len())].clone();
                    jobs.push((crate::props::c15::ident_shuffle(&s, g), false));
                    classes.push("job:ident-shuffle".to_string());
                }
                2 if !jobs.is_empty() => {
                    let j = jobs[g.usize_below(jobs.len())].clone();
                    jobs.push(j);
                    classes.push("job:duplicate".to_string());
                }
                3 if !jobs.is_empty() => {
                    let (s, sc) = jobs[g.usize_below(jobs.len())].clone();
                    jobs.push((s.replacen("1.0", "2.0", 1), sc));
                    classes.push("job:near-duplicate".to_string());
                }
                _ => {
                    jobs.push((tg::soup(g, 10), false));
                    classes.push("job:broken".to_string());
                }
            }
        }
        classes.sort();
        classes.dedup();
        finish(&jobs, classes, cx)
    }
    fn run_direct(&self, input: &Value, cx: &Cx) -> Option<CaseResult> {
        let jobs: Vec<(String, bool)> = input.get("jobs")?.as_array()?.iter().filter_map(|j| Some((j.get("text")?.as_str()?.to_string(), j.get("sched").and_then(|v| v.as_bool()).unwrap_or(false)))).collect();
        if jobs.is_empty() {
            return None;
        }
        Some(finish(&jobs, vec![], cx))
    }
    fn shrink_direct(&self, input: &Value) -> Vec<Value> {
        let mut out = vec![];
        if let Some(js) = input.get("jobs").and_then(|v| v.as_array()) {
            if js.len() > 2 {
                for i in 0..js.len() {
                    let mut v = js.clone();
                    v.remove(i);
                    out.push(json!({"jobs": v}));
                }
            }
        }
        out
    }
    fn rule(&self) -> String {
        "Cases are sets of K=2..6 jobs; a job compiles a source for both backends and runs 8 samples on both runtimes (artefacts: bytecode listing, WASM bytes, state layouts, I/O channels, outputs; diagnostics or a panic signature for failing programs). Sources: generated programs, shipped sources (incl. programs with macros, which set the process environment variable, and modules), exact duplicates, near-duplicates differing in one literal, and broken texts. Sources also include programs over user sum types (half of them with a match that misses several constructors, so that the diagnostic lists names) and a program that mentions the identifiers of another job in a shuffled order. The compared artefacts include the diagnostic messages of refused programs. Each job is first run alone in its own fresh child process; then all jobs are started together on K OS threads behind a barrier in a fresh child process that has compiled nothing before (2 such processes per case). Oracle: every job's artefacts equal its solo artefacts; no panic that does not also occur alone. A difference is reported when it is seen in at least three concurrent runs (up to 20 further runs are made) and the solo artefacts are stable; otherwise it is counted as flaky-inconclusive. Non-trivial = at least two jobs that compile.".into()
    }
    fn assumptions(&self) -> Vec<String> {
        vec![
            "interleavings are whatever the OS scheduler produces on this machine: the harness does not own the schedule, so a rare interleaving can be missed and a difference seen fewer than three times in 22 concurrent runs is not reported".into(),
            "deadlocks would show as a case hitting the 300 s limit, which this property treats as inconclusive".into(),
        ]
    }
    fn required_classes(&self, _tier: Tier) -> Vec<&'static str> {
        vec!["job:generated", "job:shipped", "job:macro", "job:duplicate", "job:broken", "job:ident-shuffle", "some-job-compiles", "identical-sources"]
    }
}
