//! Shared machinery of C09 / C10: a small two-level language (stage-1 float expressions `X` with
//! splices, macro-stage code expressions `M`), its renderer to mimium source, a reference expander
//! (substitution in the harness, optionally hygienic), alpha-renaming of macro-body binders, and
//! the generators.  Nothing in here calls the repository's macro expander.
#![allow(dead_code)]

use crate::engine::tape::Gen;
use std::collections::BTreeSet;

// ------------------------------------------------------------------------------------------
// AST
// ------------------------------------------------------------------------------------------

#[derive(Clone, Debug, PartialEq)]
pub enum Pat {
    Name(String),
    Tup(Vec<Pat>),
}

#[derive(Clone, Debug)]
pub struct DeepShape(pub Vec<Option<Box<DeepShape>>>);

/// stage-1 expression (float typed unless noted)
#[derive(Clone, Debug, PartialEq)]
pub enum X {
    Num(f64),
    Var(String),
    SelfRef,
    Bin(&'static str, Box<X>, Box<X>),
    /// call of a named function (builtin, global helper, local function variable)
    Call(String, Vec<X>),
    /// `{ let pat = val \n body }`
    Let(Pat, Box<X>, Box<X>),
    If(Box<X>, Box<X>, Box<X>),
    /// `|p| body` (function typed: only as a let value, an applied callee, or a quoted macro result)
    Lam(String, Box<X>),
    /// `(callee)(args)`
    App(Box<X>, Vec<X>),
    /// tuple typed: only as a let value
    Tuple(Vec<X>),
    Proj(Box<X>, usize),
    /// `name = val \n rest` — only as the body of a `Let` (a block cannot start with an assignment)
    Set(String, Box<X>, Box<X>),
    /// `(arg |> f)`
    Pipe(Box<X>, String),
    Now,
    SampleRate,
    /// `$m` — only in staged programs
    Splice(Box<M>),
}

/// macro-stage expression of type code
#[derive(Clone, Debug, PartialEq)]
pub enum M {
    Quote(Box<X>),
    CVar(String),
    Let(String, Box<M>, Box<M>),
    /// macro function call; the flag selects `f!(args)` over `$(f(args))` when the call is spliced directly
    Call(String, Vec<A>, bool),
    /// `lift_f(n)`; the flag selects the pipe form `n |> lift_f`
    Lift(N, bool),
    IfN(N, Box<M>, Box<M>),
}

#[derive(Clone, Debug, PartialEq)]
pub enum A {
    C(M),
    N(N),
}

/// macro-stage number
#[derive(Clone, Debug, PartialEq)]
pub enum N {
    Lit(f64),
    Var(String),
    Bin(&'static str, Box<N>, Box<N>),
}

#[derive(Clone, Debug, PartialEq)]
pub struct MFn {
    pub name: String,
    /// (name, is_code)
    pub params: Vec<(String, bool)>,
    pub body: M,
}

fn bx<T>(x: T) -> Box<T> {
    Box::new(x)
}

// ------------------------------------------------------------------------------------------
// numbers
// ------------------------------------------------------------------------------------------

fn pos_num(v: f64) -> String {
    let s = format!("{v}");
    if s.contains('.') { s } else { format!("{s}.0") }
}

/// exact source text of a float value (no exponent, no unary minus)
pub fn fmt_num(v: f64) -> String {
    if v.is_nan() {
        "(0.0 / 0.0)".into()
    } else if v == f64::INFINITY {
        "(1.0 / 0.0)".into()
    } else if v == f64::NEG_INFINITY {
        "(0.0 - (1.0 / 0.0))".into()
    } else if v == 0.0 && v.is_sign_negative() {
        "(0.0 * (0.0 - 1.0))".into()
    } else if v < 0.0 {
        format!("(0.0 - {})", pos_num(-v))
    } else {
        pos_num(v)
    }
}

pub fn eval_n(n: &N, env: &[(String, Val)]) -> f64 {
    match n {
        N::Lit(v) => *v,
        N::Var(s) => env.iter().rev().find_map(|(k, v)| if k == s { if let Val::N(f) = v { Some(*f) } else { None } } else { None }).unwrap_or(f64::NAN),
        N::Bin(op, a, b) => {
            let (a, b) = (eval_n(a, env), eval_n(b, env));
            match *op {
                "+" => a + b,
                "-" => a - b,
                "*" => a * b,
                "/" => a / b,
                ">" => (a > b) as u8 as f64,
                "<" => (a < b) as u8 as f64,
                _ => f64::NAN,
            }
        }
    }
}

// ------------------------------------------------------------------------------------------
// rendering
// ------------------------------------------------------------------------------------------

pub struct R {
    /// flip every bang flag (`f!(a)` <-> `$(f(a))`)
    pub flip: bool,
}

fn ind(level: usize) -> String {
    "  ".repeat(level)
}

impl R {
    pub fn pat(&self, p: &Pat) -> String {
        match p {
            Pat::Name(n) => n.clone(),
            Pat::Tup(ps) => format!("({})", ps.iter().map(|p| self.pat(p)).collect::<Vec<_>>().join(", ")),
        }
    }
    /// statements of a block body (without braces)
    pub fn body(&self, x: &X, level: usize) -> String {
        let mut out = String::new();
        let mut cur = x;
        loop {
            match cur {
                X::Let(p, v, b) => {
                    out.push_str(&format!("{}let {} = {}\n", ind(level), self.pat(p), self.x(v, level)));
                    cur = b;
                }
                X::Set(n, v, b) => {
                    out.push_str(&format!("{}{} = {}\n", ind(level), n, self.x(v, level)));
                    cur = b;
                }
                other => {
                    out.push_str(&format!("{}{}\n", ind(level), self.x(other, level)));
                    break;
                }
            }
        }
        out
    }
    pub fn x(&self, x: &X, level: usize) -> String {
        match x {
            X::Num(v) => fmt_num(*v),
            X::Var(n) => n.clone(),
            X::SelfRef => "self".into(),
            X::Now => "now".into(),
            X::SampleRate => "samplerate".into(),
            X::Pipe(a, f) => format!("({} |> {})", self.x(a, level), f),
            X::Set(..) => format!("{{\n{}let zz_unused = 0.0\n{}{}}}", ind(level + 1), self.body(x, level + 1), ind(level)),
            X::Bin(op, a, b) => format!("({} {} {})", self.x(a, level), op, self.x(b, level)),
            X::Call(f, args) => format!("{}({})", f, args.iter().map(|a| self.x(a, level)).collect::<Vec<_>>().join(", ")),
            X::Let(..) => format!("{{\n{}{}}}", self.body(x, level + 1), ind(level)),
            X::If(c, t, e) => format!("(if ({}) {{ {} }} else {{ {} }})", self.x(c, level), self.x(t, level), self.x(e, level)),
            X::Lam(p, b) => format!("|{}| {}", p, self.x(b, level)),
            X::App(f, args) => {
                let callee = match &**f {
                    X::Splice(m) => match &**m {
                        M::Call(_, _, bang) if *bang != self.flip => self.splice(m, level),
                        _ => format!("({})", self.splice(m, level)),
                    },
                    X::Var(n) => n.clone(),
                    other => format!("({})", self.x(other, level)),
                };
                format!("{}({})", callee, args.iter().map(|a| self.x(a, level)).collect::<Vec<_>>().join(", "))
            }
            X::Tuple(xs) => format!("({})", xs.iter().map(|a| self.x(a, level)).collect::<Vec<_>>().join(", ")),
            X::Proj(t, i) => match &**t {
                X::Var(n) => format!("{n}.{i}"),
                other => format!("({}).{i}", self.x(other, level)),
            },
            X::Splice(m) => self.splice(m, level),
        }
    }
    fn splice(&self, m: &M, level: usize) -> String {
        match m {
            M::CVar(c) => format!("${c}"),
            M::Call(f, args, bang) if *bang != self.flip => format!("{}!({})", f, self.args(args, level)),
            M::Let(..) => format!("${{\n{}{}}}", self.mbody(m, level + 1), ind(level)),
            other => format!("$({})", self.m(other, level)),
        }
    }
    fn args(&self, args: &[A], level: usize) -> String {
        args.iter()
            .map(|a| match a {
                A::C(m) => self.m(m, level),
                A::N(n) => self.n(n),
            })
            .collect::<Vec<_>>()
            .join(", ")
    }
    pub fn n(&self, n: &N) -> String {
        match n {
            N::Lit(v) => fmt_num(*v),
            N::Var(s) => s.clone(),
            N::Bin(op, a, b) => format!("({} {} {})", self.n(a), op, self.n(b)),
        }
    }
    pub fn quote(&self, x: &X, level: usize) -> String {
        match x {
            X::Num(v) if *v >= 0.0 && v.is_finite() => format!("`{}", fmt_num(*v)),
            X::Var(n) => format!("`{n}"),
            X::Let(..) => format!("`{}", self.x(x, level)),
            X::Lam(..) => format!("`{{ {} }}", self.x(x, level)),
            X::Bin(..) => format!("`{}", self.x(x, level)),
            other => format!("`({})", self.x(other, level)),
        }
    }
    /// macro-stage expression in expression position
    pub fn m(&self, m: &M, level: usize) -> String {
        match m {
            M::Quote(x) => self.quote(x, level),
            M::CVar(c) => c.clone(),
            M::Let(..) => format!("{{\n{}{}}}", self.mbody(m, level + 1), ind(level)),
            M::Call(f, args, _) => format!("{}({})", f, self.args(args, level)),
            M::Lift(n, pipe) => {
                if *pipe {
                    format!("({} |> lift_f)", self.n(n))
                } else {
                    format!("lift_f({})", self.n(n))
                }
            }
            M::IfN(c, a, b) => format!("if ({}) {{ {} }} else {{ {} }}", self.n(c), self.m(a, level), self.m(b, level)),
        }
    }
    pub fn mbody(&self, m: &M, level: usize) -> String {
        let mut out = String::new();
        let mut cur = m;
        loop {
            match cur {
                M::Let(c, v, b) => {
                    out.push_str(&format!("{}let {} = {}\n", ind(level), c, self.m(v, level)));
                    cur = b;
                }
                other => {
                    out.push_str(&format!("{}{}\n", ind(level), self.m(other, level)));
                    break;
                }
            }
        }
        out
    }
    pub fn mfn(&self, f: &MFn) -> String {
        format!("fn {}({}){{\n{}}}\n", f.name, f.params.iter().map(|p| p.0.clone()).collect::<Vec<_>>().join(", "), self.mbody(&f.body, 1))
    }
}

/// stage-1 helpers every generated program may call
pub const HELPERS: &str = "let g0 = 0.75\nfn h1(x){\n  x * 0.5 + 1.0\n}\nfn h2(x, y){\n  x - y * 0.25\n}\nfn hs(x:float)->float{\n  x + self * 0.5\n}\nfn hm(x:float)->float{\n  mem(x) + x\n}\n";

#[derive(Clone, Debug)]
pub struct Case {
    pub fns: Vec<MFn>,
    /// optional stage-1 function `fn k1(p:float)->float` that hosts the use sites
    pub kfn: Option<X>,
    pub dsp: X,
    /// write an explicit `#stage(main)` first
    pub lead_main: bool,
}

pub fn render_staged(c: &Case, flip: bool) -> String {
    let r = R { flip };
    let mut s = String::new();
    if !c.fns.is_empty() {
        if c.lead_main {
            s.push_str("#stage(main)\n");
        }
        s.push_str(HELPERS);
        s.push_str("#stage(macro)\n");
        for f in &c.fns {
            s.push_str(&r.mfn(f));
        }
        s.push_str("#stage(main)\n");
    } else {
        s.push_str(HELPERS);
    }
    if let Some(k) = &c.kfn {
        s.push_str(&format!("fn k1(p:float)->float{{\n{}}}\n", r.body(k, 1)));
    }
    s.push_str(&format!("fn dsp(){{\n{}}}\n", r.body(&c.dsp, 1)));
    s
}

pub fn render_plain(kfn: &Option<X>, dsp: &X) -> String {
    let r = R { flip: false };
    let mut s = String::new();
    s.push_str(HELPERS);
    if let Some(k) = kfn {
        s.push_str(&format!("fn k1(p:float)->float{{\n{}}}\n", r.body(k, 1)));
    }
    s.push_str(&format!("fn dsp(){{\n{}}}\n", r.body(dsp, 1)));
    s
}

// ------------------------------------------------------------------------------------------
// reference expander
// ------------------------------------------------------------------------------------------

#[derive(Clone, Debug)]
pub enum Val {
    C(X),
    N(f64),
}

pub struct Ev<'a> {
    pub fns: &'a [MFn],
    /// hygienic: every evaluation of a binder inside a quote (and in stage-1 code) gets a fresh name
    pub hyg: bool,
    pub counter: usize,
    pub depth: usize,
    pub err: Option<String>,
}

type Ren = Vec<(String, String)>;

fn look(ren: &Ren, n: &str) -> String {
    ren.iter().rev().find(|(k, _)| k == n).map(|(_, v)| v.clone()).unwrap_or_else(|| n.to_string())
}

impl<'a> Ev<'a> {
    pub fn new(fns: &'a [MFn], hyg: bool) -> Self {
        Ev { fns, hyg, counter: 0, depth: 0, err: None }
    }
    fn fresh_pat(&mut self, p: &Pat, ren: &mut Ren) -> Pat {
        match p {
            Pat::Name(n) => {
                if self.hyg {
                    self.counter += 1;
                    let nn = format!("{}_{}", n, self.counter);
                    ren.push((n.clone(), nn.clone()));
                    Pat::Name(nn)
                } else {
                    Pat::Name(n.clone())
                }
            }
            Pat::Tup(ps) => Pat::Tup(ps.iter().map(|p| self.fresh_pat(p, ren)).collect()),
        }
    }
    pub fn x(&mut self, e: &X, se: &[(String, Val)], ren: &mut Ren) -> X {
        match e {
            X::Num(_) | X::SelfRef | X::Now | X::SampleRate => e.clone(),
            X::Var(n) => X::Var(look(ren, n)),
            X::Set(n, v, b) => X::Set(look(ren, n), bx(self.x(v, se, ren)), bx(self.x(b, se, ren))),
            X::Pipe(a, f) => X::Pipe(bx(self.x(a, se, ren)), look(ren, f)),
            X::Bin(op, a, b) => X::Bin(op, bx(self.x(a, se, ren)), bx(self.x(b, se, ren))),
            X::Call(f, args) => X::Call(look(ren, f), args.iter().map(|a| self.x(a, se, ren)).collect()),
            X::Let(p, v, b) => {
                let v2 = self.x(v, se, ren);
                let mark = ren.len();
                let p2 = self.fresh_pat(p, ren);
                let b2 = self.x(b, se, ren);
                ren.truncate(mark);
                X::Let(p2, bx(v2), bx(b2))
            }
            X::If(c, t, f) => X::If(bx(self.x(c, se, ren)), bx(self.x(t, se, ren)), bx(self.x(f, se, ren))),
            X::Lam(p, b) => {
                let mark = ren.len();
                let p2 = match self.fresh_pat(&Pat::Name(p.clone()), ren) {
                    Pat::Name(n) => n,
                    _ => unreachable!(),
                };
                let b2 = self.x(b, se, ren);
                ren.truncate(mark);
                X::Lam(p2, bx(b2))
            }
            X::App(f, args) => X::App(bx(self.x(f, se, ren)), args.iter().map(|a| self.x(a, se, ren)).collect()),
            X::Tuple(xs) => X::Tuple(xs.iter().map(|a| self.x(a, se, ren)).collect()),
            X::Proj(t, i) => X::Proj(bx(self.x(t, se, ren)), *i),
            X::Splice(m) => self.m(m, se, ren),
        }
    }
    pub fn m(&mut self, e: &M, se: &[(String, Val)], ren: &mut Ren) -> X {
        match e {
            M::Quote(x) => self.x(x, se, ren),
            M::CVar(c) => match se.iter().rev().find(|(k, _)| k == c) {
                Some((_, Val::C(x))) => x.clone(),
                _ => {
                    self.err = Some(format!("unbound code variable {c}"));
                    X::Num(0.0)
                }
            },
            M::Let(c, v, b) => {
                let v2 = self.m(v, se, ren);
                let mut se2 = se.to_vec();
                se2.push((c.clone(), Val::C(v2)));
                self.m(b, &se2, ren)
            }
            M::Call(f, args, _) => {
                let Some(def) = self.fns.iter().find(|d| &d.name == f) else {
                    self.err = Some(format!("unknown macro {f}"));
                    return X::Num(0.0);
                };
                if self.depth > 40 || args.len() != def.params.len() {
                    self.err = Some("macro recursion too deep or arity mismatch".into());
                    return X::Num(0.0);
                }
                let mut se2: Vec<(String, Val)> = vec![];
                for (a, (pn, _)) in args.iter().zip(def.params.iter()) {
                    let v = match a {
                        A::C(m) => Val::C(self.m(m, se, ren)),
                        A::N(n) => Val::N(eval_n(n, se)),
                    };
                    se2.push((pn.clone(), v));
                }
                self.depth += 1;
                // a macro function body is lexically at top level: no renaming in scope
                let r = self.m(&def.body, &se2, &mut vec![]);
                self.depth -= 1;
                r
            }
            M::Lift(n, _) => X::Num(eval_n(n, se)),
            M::IfN(c, a, b) => {
                if eval_n(c, se) > 0.0 {
                    self.m(a, se, ren)
                } else {
                    self.m(b, se, ren)
                }
            }
        }
    }
}

/// expansion of a whole case: (k1 body, dsp body) without splices
pub fn expand(c: &Case, hyg: bool) -> Result<(Option<X>, X), String> {
    let mut ev = Ev::new(&c.fns, hyg);
    let k = c.kfn.as_ref().map(|k| ev.x(k, &[], &mut vec![]));
    let d = ev.x(&c.dsp, &[], &mut vec![]);
    match ev.err {
        Some(e) => Err(e),
        None => Ok((k, d)),
    }
}

// ------------------------------------------------------------------------------------------
// analyses
// ------------------------------------------------------------------------------------------

fn pat_names(p: &Pat, out: &mut Vec<String>) {
    match p {
        Pat::Name(n) => out.push(n.clone()),
        Pat::Tup(ps) => ps.iter().for_each(|p| pat_names(p, out)),
    }
}

/// free stage-1 names (variables and called local functions) of staged code, looking through splices
pub fn fv_x(x: &X, bound: &mut Vec<String>, out: &mut BTreeSet<String>) {
    match x {
        X::Num(_) | X::SelfRef | X::Now | X::SampleRate => {}
        X::Var(n) => {
            if !bound.contains(n) {
                out.insert(n.clone());
            }
        }
        X::Set(n, a, b) => {
            if !bound.contains(n) {
                out.insert(n.clone());
            }
            fv_x(a, bound, out);
            fv_x(b, bound, out);
        }
        X::Pipe(a, f) => {
            if !bound.contains(f) {
                out.insert(f.clone());
            }
            fv_x(a, bound, out);
        }
        X::Bin(_, a, b) => {
            fv_x(a, bound, out);
            fv_x(b, bound, out);
        }
        X::Call(f, args) => {
            if !bound.contains(f) {
                out.insert(f.clone());
            }
            args.iter().for_each(|a| fv_x(a, bound, out));
        }
        X::Let(p, v, b) => {
            fv_x(v, bound, out);
            let mark = bound.len();
            pat_names(p, bound);
            fv_x(b, bound, out);
            bound.truncate(mark);
        }
        X::If(c, t, e) => {
            fv_x(c, bound, out);
            fv_x(t, bound, out);
            fv_x(e, bound, out);
        }
        X::Lam(p, b) => {
            bound.push(p.clone());
            fv_x(b, bound, out);
            bound.pop();
        }
        X::App(f, args) => {
            fv_x(f, bound, out);
            args.iter().for_each(|a| fv_x(a, bound, out));
        }
        X::Tuple(xs) => xs.iter().for_each(|a| fv_x(a, bound, out)),
        X::Proj(t, _) => fv_x(t, bound, out),
        X::Splice(m) => fv_m(m, bound, out),
    }
}
pub fn fv_m(m: &M, bound: &mut Vec<String>, out: &mut BTreeSet<String>) {
    match m {
        M::Quote(x) => fv_x(x, bound, out),
        M::CVar(_) | M::Lift(..) => {}
        M::Let(_, a, b) | M::IfN(_, a, b) => {
            fv_m(a, bound, out);
            fv_m(b, bound, out);
        }
        M::Call(_, args, _) => args.iter().for_each(|a| {
            if let A::C(m) = a {
                fv_m(m, bound, out)
            }
        }),
    }
}

/// every binder name and variable name of staged stage-1 code (through splices and argument quotes)
pub fn names_x(x: &X, out: &mut BTreeSet<String>) {
    match x {
        X::Num(_) | X::SelfRef | X::Now | X::SampleRate => {}
        X::Var(n) => {
            out.insert(n.clone());
        }
        X::Set(n, a, b) => {
            out.insert(n.clone());
            names_x(a, out);
            names_x(b, out);
        }
        X::Pipe(a, f) => {
            out.insert(f.clone());
            names_x(a, out);
        }
        X::Bin(_, a, b) => {
            names_x(a, out);
            names_x(b, out);
        }
        X::Call(f, args) => {
            out.insert(f.clone());
            args.iter().for_each(|a| names_x(a, out));
        }
        X::Let(p, v, b) => {
            let mut ns = vec![];
            pat_names(p, &mut ns);
            out.extend(ns);
            names_x(v, out);
            names_x(b, out);
        }
        X::If(c, t, e) => {
            names_x(c, out);
            names_x(t, out);
            names_x(e, out);
        }
        X::Lam(p, b) => {
            out.insert(p.clone());
            names_x(b, out);
        }
        X::App(f, args) => {
            names_x(f, out);
            args.iter().for_each(|a| names_x(a, out));
        }
        X::Tuple(xs) => xs.iter().for_each(|a| names_x(a, out)),
        X::Proj(t, _) => names_x(t, out),
        X::Splice(m) => names_m(m, out),
    }
}
pub fn names_m(m: &M, out: &mut BTreeSet<String>) {
    match m {
        M::Quote(x) => names_x(x, out),
        M::CVar(_) | M::Lift(..) => {}
        M::Let(_, a, b) | M::IfN(_, a, b) => {
            names_m(a, out);
            names_m(b, out);
        }
        M::Call(_, args, _) => args.iter().for_each(|a| {
            if let A::C(m) = a {
                names_m(m, out)
            }
        }),
    }
}

/// binder names (with kinds) occurring in the quotes of a macro-stage expression
pub fn binders_m(m: &M, out: &mut Vec<(String, &'static str)>) {
    match m {
        M::Quote(x) => binders_x(x, out),
        M::CVar(_) | M::Lift(..) => {}
        M::Let(_, a, b) | M::IfN(_, a, b) => {
            binders_m(a, out);
            binders_m(b, out);
        }
        M::Call(_, args, _) => args.iter().for_each(|a| {
            if let A::C(m) = a {
                binders_m(m, out)
            }
        }),
    }
}
fn pat_kinds(p: &Pat, v: &X, depth: usize, out: &mut Vec<(String, &'static str)>) {
    match p {
        Pat::Name(n) => out.push((n.clone(), if depth == 0 { if matches!(v, X::Lam(..)) { "let-fn" } else { "let" } } else if depth == 1 { "tuple" } else { "nested-tuple" })),
        Pat::Tup(ps) => ps.iter().for_each(|q| pat_kinds(q, v, depth + 1, out)),
    }
}
pub fn binders_x(x: &X, out: &mut Vec<(String, &'static str)>) {
    match x {
        X::Num(_) | X::SelfRef | X::Var(_) | X::Now | X::SampleRate => {}
        X::Pipe(a, _) => binders_x(a, out),
        X::Bin(_, a, b) | X::Set(_, a, b) => {
            binders_x(a, out);
            binders_x(b, out);
        }
        X::Call(_, args) => args.iter().for_each(|a| binders_x(a, out)),
        X::Let(p, v, b) => {
            pat_kinds(p, v, 0, out);
            binders_x(v, out);
            binders_x(b, out);
        }
        X::If(c, t, e) => {
            binders_x(c, out);
            binders_x(t, out);
            binders_x(e, out);
        }
        X::Lam(p, b) => {
            out.push((p.clone(), "lambda"));
            binders_x(b, out);
        }
        X::App(f, args) => {
            binders_x(f, out);
            args.iter().for_each(|a| binders_x(a, out));
        }
        X::Tuple(xs) => xs.iter().for_each(|a| binders_x(a, out)),
        X::Proj(t, _) => binders_x(t, out),
        X::Splice(m) => binders_m(m, out),
    }
}

/// AST forms occurring inside a quote (class labels `q:*`)
fn form_label(x: &X) -> &'static str {
    match x {
        X::Num(_) => "q:num",
        X::Var(_) => "q:var",
        X::SelfRef => "q:self",
        X::Now => "q:now",
        X::SampleRate => "q:samplerate",
        X::Set(..) => "q:assign",
        X::Pipe(..) => "q:pipe",
        X::Bin(op, _, _) => {
            if matches!(*op, "+" | "-" | "*" | "/") {
                "q:binop"
            } else {
                "q:compare"
            }
        }
        X::Call(f, _) => match f.as_str() {
            "mem" => "q:mem",
            "h1" | "h2" => "q:call",
            "hs" | "hm" | "k1" => "q:stateful-call",
            "sin" | "cos" | "abs" | "floor" | "tanh" | "atan" | "min" | "max" | "sqrt" => "q:builtin",
            _ => "q:local-fn-call",
        },
        X::Let(p, v, _) => match p {
            Pat::Name(_) => {
                if matches!(**v, X::Lam(..)) {
                    "q:let-fn"
                } else if matches!(**v, X::Tuple(..)) {
                    "q:tuple"
                } else {
                    "q:let"
                }
            }
            Pat::Tup(ps) => {
                if ps.iter().any(|p| matches!(p, Pat::Tup(_))) {
                    "q:let-nested-tuple"
                } else {
                    "q:let-tuple"
                }
            }
        },
        X::If(..) => "q:if",
        X::Lam(..) => "q:lambda",
        X::App(..) => "q:apply",
        X::Tuple(..) => "q:tuple",
        X::Proj(..) => "q:proj",
        X::Splice(..) => "q:splice",
    }
}
pub fn forms_x(x: &X, inq: bool, out: &mut BTreeSet<&'static str>) {
    if inq {
        out.insert(form_label(x));
    }
    match x {
        X::Num(_) | X::Var(_) | X::SelfRef | X::Now | X::SampleRate => {}
        X::Pipe(a, _) => forms_x(a, inq, out),
        X::Bin(_, a, b) | X::Set(_, a, b) => {
            forms_x(a, inq, out);
            forms_x(b, inq, out);
        }
        X::Call(_, args) | X::Tuple(args) => args.iter().for_each(|a| forms_x(a, inq, out)),
        X::Let(_, v, b) => {
            forms_x(v, inq, out);
            forms_x(b, inq, out);
        }
        X::If(c, t, e) => {
            forms_x(c, inq, out);
            forms_x(t, inq, out);
            forms_x(e, inq, out);
        }
        X::Lam(_, b) => forms_x(b, inq, out),
        X::App(f, args) => {
            forms_x(f, inq, out);
            args.iter().for_each(|a| forms_x(a, inq, out));
        }
        X::Proj(t, _) => forms_x(t, inq, out),
        X::Splice(m) => forms_m(m, out),
    }
}
pub fn forms_m(m: &M, out: &mut BTreeSet<&'static str>) {
    match m {
        M::Quote(x) => forms_x(x, true, out),
        M::CVar(_) | M::Lift(..) => {}
        M::Let(_, a, b) | M::IfN(_, a, b) => {
            forms_m(a, out);
            forms_m(b, out);
        }
        M::Call(_, args, _) => args.iter().for_each(|a| {
            if let A::C(m) = a {
                forms_m(m, out)
            }
        }),
    }
}
pub const LEAF_FORMS: &[&str] = &["q:num", "q:var", "q:splice", "q:now", "q:samplerate"];

/// does the (expanded or staged) code use tuples anywhere?
pub fn has_tuple(x: &X) -> bool {
    let mut s = BTreeSet::new();
    forms_x(x, true, &mut s);
    s.iter().any(|f| matches!(*f, "q:tuple" | "q:proj" | "q:let-tuple" | "q:let-nested-tuple"))
}

/// count direct macro-call use sites: (bang, splice)
pub fn count_sites(x: &X, out: &mut (u32, u32)) {
    match x {
        X::Num(_) | X::SelfRef | X::Var(_) | X::Now | X::SampleRate => {}
        X::Pipe(a, _) => count_sites(a, out),
        X::Bin(_, a, b) | X::Set(_, a, b) => {
            count_sites(a, out);
            count_sites(b, out);
        }
        X::Call(_, args) | X::Tuple(args) => args.iter().for_each(|a| count_sites(a, out)),
        X::Let(_, v, b) => {
            count_sites(v, out);
            count_sites(b, out);
        }
        X::If(c, t, e) => {
            count_sites(c, out);
            count_sites(t, out);
            count_sites(e, out);
        }
        X::Lam(_, b) => count_sites(b, out),
        X::App(f, args) => {
            count_sites(f, out);
            args.iter().for_each(|a| count_sites(a, out));
        }
        X::Proj(t, _) => count_sites(t, out),
        X::Splice(m) => {
            if let M::Call(_, _, bang) = &**m {
                if *bang {
                    out.0 += 1
                } else {
                    out.1 += 1
                }
            }
            count_sites_m(m, out);
        }
    }
}
fn count_sites_m(m: &M, out: &mut (u32, u32)) {
    match m {
        M::Quote(x) => count_sites(x, out),
        M::CVar(_) | M::Lift(..) => {}
        M::Let(_, a, b) | M::IfN(_, a, b) => {
            count_sites_m(a, out);
            count_sites_m(b, out);
        }
        M::Call(_, args, _) => args.iter().for_each(|a| {
            if let A::C(m) = a {
                count_sites_m(m, out)
            }
        }),
    }
}

// ------------------------------------------------------------------------------------------
// alpha renaming of the binders inside macro bodies (C10's metamorphic transformation)
// ------------------------------------------------------------------------------------------

pub struct Renamer {
    pub counter: usize,
}
impl Renamer {
    fn fresh(&mut self) -> String {
        self.counter += 1;
        format!("zq{}", self.counter)
    }
    fn pat(&mut self, p: &Pat, ren: &mut Ren) -> Pat {
        match p {
            Pat::Name(n) => {
                let nn = self.fresh();
                ren.push((n.clone(), nn.clone()));
                Pat::Name(nn)
            }
            Pat::Tup(ps) => Pat::Tup(ps.iter().map(|p| self.pat(p, ren)).collect()),
        }
    }
    pub fn x(&mut self, e: &X, ren: &mut Ren) -> X {
        match e {
            X::Num(_) | X::SelfRef | X::Now | X::SampleRate => e.clone(),
            X::Var(n) => X::Var(look(ren, n)),
            X::Set(n, v, b) => X::Set(look(ren, n), bx(self.x(v, ren)), bx(self.x(b, ren))),
            X::Pipe(a, f) => X::Pipe(bx(self.x(a, ren)), look(ren, f)),
            X::Bin(op, a, b) => X::Bin(op, bx(self.x(a, ren)), bx(self.x(b, ren))),
            X::Call(f, args) => X::Call(look(ren, f), args.iter().map(|a| self.x(a, ren)).collect()),
            X::Let(p, v, b) => {
                let v2 = self.x(v, ren);
                let mark = ren.len();
                let p2 = self.pat(p, ren);
                let b2 = self.x(b, ren);
                ren.truncate(mark);
                X::Let(p2, bx(v2), bx(b2))
            }
            X::If(c, t, f) => X::If(bx(self.x(c, ren)), bx(self.x(t, ren)), bx(self.x(f, ren))),
            X::Lam(p, b) => {
                let nn = self.fresh();
                ren.push((p.clone(), nn.clone()));
                let b2 = self.x(b, ren);
                ren.pop();
                X::Lam(nn, bx(b2))
            }
            X::App(f, args) => X::App(bx(self.x(f, ren)), args.iter().map(|a| self.x(a, ren)).collect()),
            X::Tuple(xs) => X::Tuple(xs.iter().map(|a| self.x(a, ren)).collect()),
            X::Proj(t, i) => X::Proj(bx(self.x(t, ren)), *i),
            X::Splice(m) => X::Splice(bx(self.m(m, ren))),
        }
    }
    pub fn m(&mut self, e: &M, ren: &mut Ren) -> M {
        match e {
            M::Quote(x) => M::Quote(bx(self.x(x, ren))),
            M::CVar(_) | M::Lift(..) => e.clone(),
            M::Let(c, a, b) => M::Let(c.clone(), bx(self.m(a, ren)), bx(self.m(b, ren))),
            M::IfN(c, a, b) => M::IfN(c.clone(), bx(self.m(a, ren)), bx(self.m(b, ren))),
            M::Call(f, args, bang) => M::Call(
                f.clone(),
                args.iter()
                    .map(|a| match a {
                        A::C(m) => A::C(self.m(m, ren)),
                        A::N(n) => A::N(n.clone()),
                    })
                    .collect(),
                *bang,
            ),
        }
    }
}

/// the macro functions with every binder of their quoted bodies renamed to a globally fresh name
pub fn rename_macro_binders(fns: &[MFn]) -> Vec<MFn> {
    let mut r = Renamer { counter: 0 };
    fns.iter().map(|f| MFn { name: f.name.clone(), params: f.params.clone(), body: r.m(&f.body, &mut vec![]) }).collect()
}

// ------------------------------------------------------------------------------------------
// alpha equivalence of two splice-free expansions of the same shape
// ------------------------------------------------------------------------------------------

#[derive(Clone, Debug, PartialEq)]
pub enum Res {
    Bound(usize),
    Free(String),
}

pub struct Resolver {
    pub kinds: Vec<&'static str>,
    pub uses: Vec<Res>,
    /// model of the repository's block scoping: a `let` stays visible until the end of the
    /// enclosing function body (known finding), not just until the end of its block
    pub leaky: bool,
    /// model of the repository's `self`: a reference to a variable named `feed_id<lambda depth>`
    pub self_feed: bool,
    depth: usize,
}
impl Resolver {
    pub fn new(leaky: bool, self_feed: bool) -> Self {
        Resolver { kinds: vec![], uses: vec![], leaky, self_feed, depth: 0 }
    }
    fn pat(&mut self, p: &Pat, v: &X, depth: usize, scope: &mut Vec<(String, usize)>) {
        match p {
            Pat::Name(n) => {
                let k = if depth == 0 { if matches!(v, X::Lam(..)) { "let-fn" } else { "let" } } else if depth == 1 { "tuple" } else { "nested-tuple" };
                self.kinds.push(k);
                scope.push((n.clone(), self.kinds.len() - 1));
            }
            Pat::Tup(ps) => ps.iter().for_each(|q| self.pat(q, v, depth + 1, scope)),
        }
    }
    fn name(&mut self, n: &str, scope: &[(String, usize)]) {
        self.uses.push(match scope.iter().rev().find(|(k, _)| k == n) {
            Some((_, i)) => Res::Bound(*i),
            None => Res::Free(n.to_string()),
        });
    }
    pub fn x(&mut self, e: &X, scope: &mut Vec<(String, usize)>) {
        match e {
            X::Num(_) | X::Now | X::SampleRate => {}
            X::SelfRef => {
                if self.self_feed {
                    let n = format!("feed_id{}", self.depth);
                    match scope.iter().rev().find(|(k, _)| *k == n) {
                        Some((_, i)) => self.uses.push(Res::Bound(*i)),
                        None => self.uses.push(Res::Free("self".into())),
                    }
                } else {
                    self.uses.push(Res::Free("self".into()));
                }
            }
            X::Var(n) => self.name(n, scope),
            X::Set(n, a, b) => {
                // the repository evaluates the right-hand side before it resolves the assignee
                self.x(a, scope);
                self.name(n, scope);
                self.x(b, scope);
            }
            X::Pipe(a, f) => {
                self.name(f, scope);
                self.x(a, scope);
            }
            X::Bin(_, a, b) => {
                self.x(a, scope);
                self.x(b, scope);
            }
            X::Call(f, args) => {
                self.name(f, scope);
                args.iter().for_each(|a| self.x(a, scope));
            }
            X::Let(p, v, b) => {
                self.x(v, scope);
                let mark = scope.len();
                self.pat(p, v, 0, scope);
                self.x(b, scope);
                if !self.leaky {
                    scope.truncate(mark);
                }
            }
            X::If(c, t, f) => {
                self.x(c, scope);
                self.x(t, scope);
                self.x(f, scope);
            }
            X::Lam(p, b) => {
                let mark = scope.len();
                self.kinds.push("lambda");
                scope.push((p.clone(), self.kinds.len() - 1));
                self.depth += 1;
                self.x(b, scope);
                self.depth -= 1;
                scope.truncate(mark);
            }
            X::App(f, args) => {
                self.x(f, scope);
                args.iter().for_each(|a| self.x(a, scope));
            }
            X::Tuple(xs) => xs.iter().for_each(|a| self.x(a, scope)),
            X::Proj(t, _) => self.x(t, scope),
            X::Splice(_) => {}
        }
    }
}

/// binding structure of splice-free function bodies (each body is its own function)
pub fn resolve(bodies: &[&X], leaky: bool, self_feed: bool) -> Resolver {
    let mut r = Resolver::new(leaky, self_feed);
    for x in bodies {
        r.x(x, &mut vec![]);
    }
    r
}

/// None when the two binding structures agree; otherwise the kind of the binder that captures the
/// first differing occurrence in `a` ("escaped" when `a` leaves free what `h` binds)
pub fn capture_kind(a: &Resolver, h: &Resolver) -> Option<&'static str> {
    if a.uses.len() != h.uses.len() {
        return Some("shape");
    }
    for (u, v) in a.uses.iter().zip(h.uses.iter()) {
        match (u, v) {
            (Res::Bound(i), Res::Bound(j)) if i == j => {}
            (Res::Free(_), Res::Free(_)) => {}
            (Res::Bound(i), _) => return Some(a.kinds.get(*i).copied().unwrap_or("unknown")),
            (Res::Free(_), _) => return Some("escaped"),
        }
    }
    None
}

// ------------------------------------------------------------------------------------------
// generator
// ------------------------------------------------------------------------------------------

pub const NUMS: &[f64] = &[1.0, 2.0, 0.5, 3.0, 0.25, 10.0, 0.1, 1.5, 7.0, 0.30000000000000004, 123456789.0, 0.000001, 100.0, 0.3333333333333333, 0.0];

/// C10's collision pool: ordinary names, names the compiler itself synthesises, and the global `g0`
/// that macro bodies mention free (so a use-site binder can capture a macro's free variable too)
pub const POOL: &[&str] = &["t", "x", "acc", "__dt0", "feed_id0", "__lambda_arg_0", "record_update_temp", "y", "g0"];

#[derive(Clone, Copy, Debug, PartialEq)]
enum K {
    F,
    T(usize),
    Fn,
}

#[derive(Clone, Debug)]
pub struct QC {
    /// code variables that may be spliced as `$c`
    pub holes: Vec<String>,
    /// macro-stage numbers that may be lifted
    pub nholes: Vec<String>,
    /// a bare `self` is legal here
    pub allow_self: bool,
    pub in_branch: bool,
    /// lambdas may be generated
    pub lam: bool,
    /// mem / stateful helpers / self-in-lambda may be generated
    pub stateful: bool,
    /// macro use sites may be generated
    pub sites: bool,
    /// this is argument code of a macro call (known-finding name avoidance applies)
    pub arg: bool,
    pub tuples: bool,
}

#[derive(Clone, Debug)]
pub enum Use {
    QuoteSplice,
    LetInline,
    /// macro name, parameters (true = code), result is a function to be applied
    Macro(String, Vec<bool>, bool),
}

pub struct SG<'a> {
    pub g: &'a mut Gen,
    /// binder names come from the collision pool
    pub pool: bool,
    /// names that argument code must not mention (known-finding exclusion); empty = no exclusion
    pub avoid: BTreeSet<String>,
    /// draws in which a name was withheld from argument code because of `avoid`
    pub avoided: u64,
    next: usize,
    scope: Vec<(String, K)>,
    pub fns: Vec<MFn>,
    pub uses: Vec<Use>,
    /// quotes that contain holes may contain lambdas (then argument code has no bare `self`)
    pub lam_templates: bool,
    pub tuples: bool,
    pub max_num: i64,
}

const ARITH: &[&str] = &["+", "*", "-", "/"];
const CMP: &[&str] = &[">", "<", ">=", "<=", "==", "!="];

impl<'a> SG<'a> {
    pub fn new(g: &'a mut Gen, pool: bool) -> Self {
        SG { g, pool, avoid: BTreeSet::new(), avoided: 0, next: 0, scope: vec![("g0".into(), K::F)], fns: vec![], uses: vec![], lam_templates: false, tuples: true, max_num: 4 }
    }
    fn binder(&mut self) -> String {
        if self.pool {
            (*self.g.pick(POOL)).to_string()
        } else {
            self.next += 1;
            format!("v{}", self.next)
        }
    }
    fn distinct_binders(&mut self, k: usize) -> Vec<String> {
        let mut out: Vec<String> = vec![];
        while out.len() < k {
            let mut b = self.binder();
            let mut tries = 0;
            while out.contains(&b) {
                tries += 1;
                b = if tries > 4 { format!("{}{}", b, out.len()) } else { self.binder() };
            }
            out.push(b);
        }
        out
    }
    fn visible(&self, want: impl Fn(&K) -> bool) -> Vec<(String, K)> {
        let mut seen: Vec<&str> = vec![];
        let mut out = vec![];
        for (n, k) in self.scope.iter().rev() {
            if seen.contains(&n.as_str()) {
                continue;
            }
            seen.push(n);
            if want(k) {
                out.push((n.clone(), *k));
            }
        }
        out.reverse();
        out
    }
    fn usable(&mut self, c: &QC, want: impl Fn(&K) -> bool) -> Vec<(String, K)> {
        let mut v = self.visible(want);
        if c.arg && !self.avoid.is_empty() {
            let before = v.len();
            v.retain(|(n, _)| !self.avoid.contains(n));
            if v.len() != before {
                self.avoided += 1;
            }
        }
        v
    }
    fn num(&mut self) -> X {
        X::Num(*self.g.pick(NUMS))
    }
    /// nested tuple shape: `None` = leaf. The chain of first elements stays a pair of pairs so that
    /// the literal's first element ends within the parser's tuple lookahead.
    fn deep_shape(&mut self, levels: u32, first_chain: bool, leaves: &mut usize) -> Option<Vec<Option<Box<DeepShape>>>> {
        let n = if first_chain { 2 } else { 2 + self.g.usize_below(2) };
        let mut out = vec![];
        for i in 0..n {
            if levels > 0 && self.g.bool(1, 2) {
                let sub = self.deep_shape(levels - 1, first_chain || i == 0, leaves);
                out.push(Some(Box::new(DeepShape(sub.unwrap()))));
            } else {
                *leaves += 1;
                out.push(None);
            }
        }
        Some(out)
    }
    fn shape_pat(shape: &Option<Vec<Option<Box<DeepShape>>>>, ns: &[String], i: &mut usize) -> Pat {
        Pat::Tup(
            shape
                .as_ref()
                .unwrap()
                .iter()
                .map(|e| match e {
                    None => {
                        *i += 1;
                        Pat::Name(ns[*i - 1].clone())
                    }
                    Some(d) => Self::shape_pat(&Some(d.0.clone()), ns, i),
                })
                .collect(),
        )
    }
    fn shape_val(&mut self, shape: &Option<Vec<Option<Box<DeepShape>>>>, first_chain: bool, f: i32, c: &QC) -> X {
        let es = shape.as_ref().unwrap().clone();
        let mut out = vec![];
        for (i, e) in es.iter().enumerate() {
            // position 0 of every tuple literal (and everything inside it) stays short
            let fc = first_chain || i == 0;
            out.push(match e {
                None => {
                    if fc || self.g.bool(2, 3) {
                        self.atom(c)
                    } else {
                        self.gx(f, c)
                    }
                }
                Some(d) => self.shape_val(&Some(d.0.clone()), fc, f, c),
            });
        }
        X::Tuple(out)
    }
    fn atom(&mut self, c: &QC) -> X {
        let fl = self.usable(c, |k| *k == K::F);
        if !fl.is_empty() && self.g.bool(2, 3) {
            // prefer the most recently bound names
            let i = fl.len() - 1 - self.g.int_small(0, fl.len() as i64 - 1) as usize;
            X::Var(fl[i].0.clone())
        } else if self.g.bool(1, 12) {
            if self.g.coin() { X::Now } else { X::SampleRate }
        } else {
            self.num()
        }
    }
    fn hole(&mut self, c: &QC) -> X {
        let nh = c.nholes.len();
        let i = self.g.usize_below(c.holes.len() + nh);
        if i < c.holes.len() {
            X::Splice(bx(M::CVar(c.holes[i].clone())))
        } else {
            let v = N::Var(c.nholes[i - c.holes.len()].clone());
            let n = if self.g.bool(1, 3) { N::Bin(*self.g.pick(&["*", "+", "/"]), bx(v), bx(N::Lit(*self.g.pick(&[0.5, 0.1, 3.0])))) } else { v };
            X::Splice(bx(M::Lift(n, self.g.bool(1, 4))))
        }
    }
    fn leaf(&mut self, c: &QC) -> X {
        if !(c.holes.is_empty() && c.nholes.is_empty()) && self.g.bool(1, 2) {
            return self.hole(c);
        }
        self.atom(c)
    }
    /// a float-typed stage-1 expression
    pub fn gx(&mut self, fuel: i32, c: &QC) -> X {
        if fuel <= 0 || self.g.exhausted() {
            return self.leaf(c);
        }
        let has_holes = !(c.holes.is_empty() && c.nholes.is_empty());
        let st = c.stateful && !c.in_branch;
        let tvars = self.usable(c, |k| matches!(k, K::T(_)));
        let fvars = self.usable(c, |k| *k == K::Fn);
        let tup = c.tuples && self.tuples;
        let w: [u32; 21] = [
            3,                                              // 0 leaf
            6,                                              // 1 arithmetic
            if has_holes { 5 } else { 0 },                  // 2 hole
            if c.sites && !c.in_branch { 5 } else { 0 },    // 3 macro use site
            4,                                              // 4 let
            2,                                              // 5 builtin/1
            2,                                              // 6 if
            2,                                              // 7 pure helper call
            if c.lam { 3 } else { 0 },                      // 8 lambda applied in place
            if tup { 2 } else { 0 },                        // 9 let with tuple pattern
            1,                                              // 10 comparison
            1,                                              // 11 builtin/2
            if tup { 2 } else { 0 },                        // 12 tuple variable + projection
            if c.lam { 2 } else { 0 },                      // 13 let-bound lambda + call
            if c.allow_self && !c.in_branch { 2 } else { 0 }, // 14 self
            if st { 2 } else { 0 },                         // 15 mem
            if st { 2 } else { 0 },                         // 16 stateful helper
            if !tvars.is_empty() { 3 } else { 0 },          // 17 projection of a visible tuple variable
            if !fvars.is_empty() { 3 } else { 0 },          // 18 call of a visible local function
            2,                                              // 19 let + assignment
            2,                                              // 20 pipe
        ];
        let f = fuel - 1;
        match self.g.weighted(&w) {
            0 => self.leaf(c),
            1 => {
                let op = *self.g.pick(ARITH);
                X::Bin(op, bx(self.gx(f, c)), bx(self.gx(f, c)))
            }
            2 => self.hole(c),
            3 => self.use_site(c),
            4 => {
                let v = self.gx(f, c);
                let n = self.binder();
                self.scope.push((n.clone(), K::F));
                let b = self.gx(f, c);
                self.scope.pop();
                X::Let(Pat::Name(n), bx(v), bx(b))
            }
            5 => {
                let name = *self.g.pick(&["sin", "abs", "cos", "floor", "tanh", "atan"]);
                X::Call(name.into(), vec![self.gx(f, c)])
            }
            6 => {
                let op = *self.g.pick(CMP);
                let cond = X::Bin(op, bx(self.gx(f - 1, c)), bx(self.gx(f - 1, c)));
                let mut cb = c.clone();
                cb.in_branch = true;
                X::If(bx(cond), bx(self.gx(f, &cb)), bx(self.gx(f, &cb)))
            }
            7 => {
                if self.g.coin() {
                    X::Call("h1".into(), vec![self.gx(f, c)])
                } else {
                    X::Call("h2".into(), vec![self.gx(f, c), self.gx(f, c)])
                }
            }
            8 => {
                let arg = self.gx(f, c);
                let p = self.binder();
                self.scope.push((p.clone(), K::F));
                let mut cb = c.clone();
                cb.allow_self = st;
                let b = self.gx(f, &cb);
                self.scope.pop();
                X::App(bx(X::Lam(p, bx(b))), vec![arg])
            }
            9 => {
                let nested = self.g.bool(1, 4);
                if nested && self.g.bool(1, 2) {
                    // up to three levels with several nested siblings: (((a, b), (c, d)), (e, f))
                    let mut k = 0usize;
                    let shape = self.deep_shape(2, true, &mut k);
                    let ns = self.distinct_binders(k);
                    let mut i = 0usize;
                    let pat = Self::shape_pat(&shape, &ns, &mut i);
                    let v = self.shape_val(&shape, false, f, c);
                    for n in &ns {
                        self.scope.push((n.clone(), K::F));
                    }
                    let b = self.gx(f, c);
                    self.scope.truncate(self.scope.len() - k);
                    X::Let(pat, bx(v), bx(b))
                } else if nested {
                    let ns = self.distinct_binders(3);
                    let v = X::Tuple(vec![X::Tuple(vec![self.atom(c), self.atom(c)]), self.gx(f, c)]);
                    for n in &ns {
                        self.scope.push((n.clone(), K::F));
                    }
                    let b = self.gx(f, c);
                    self.scope.truncate(self.scope.len() - 3);
                    X::Let(Pat::Tup(vec![Pat::Tup(vec![Pat::Name(ns[0].clone()), Pat::Name(ns[1].clone())]), Pat::Name(ns[2].clone())]), bx(v), bx(b))
                } else {
                    let k = 2 + self.g.usize_below(2);
                    let ns = self.distinct_binders(k);
                    let mut vals = vec![self.atom(c)];
                    for _ in 1..k {
                        vals.push(self.gx(f, c));
                    }
                    for n in &ns {
                        self.scope.push((n.clone(), K::F));
                    }
                    let b = self.gx(f, c);
                    self.scope.truncate(self.scope.len() - k);
                    X::Let(Pat::Tup(ns.into_iter().map(Pat::Name).collect()), bx(X::Tuple(vals)), bx(b))
                }
            }
            10 => {
                let op = *self.g.pick(CMP);
                X::Bin(op, bx(self.gx(f, c)), bx(self.gx(f, c)))
            }
            11 => {
                let name = *self.g.pick(&["min", "max"]);
                X::Call(name.into(), vec![self.gx(f, c), self.gx(f, c)])
            }
            12 => {
                let k = 2 + self.g.usize_below(2);
                let mut vals = vec![self.atom(c)];
                for _ in 1..k {
                    vals.push(self.gx(f, c));
                }
                let n = self.binder();
                self.scope.push((n.clone(), K::T(k)));
                let i = self.g.usize_below(k);
                let op = *self.g.pick(ARITH);
                let rest = self.gx(f, c);
                self.scope.pop();
                X::Let(Pat::Name(n.clone()), bx(X::Tuple(vals)), bx(X::Bin(op, bx(X::Proj(bx(X::Var(n)), i)), bx(rest))))
            }
            13 => {
                let fname = self.binder();
                let p = {
                    let mut p = self.binder();
                    if p == fname {
                        p = format!("{p}1");
                    }
                    p
                };
                self.scope.push((p.clone(), K::F));
                let mut cb = c.clone();
                cb.allow_self = st;
                let body = self.gx(f, &cb);
                self.scope.pop();
                self.scope.push((fname.clone(), K::Fn));
                let arg = self.gx(f, c);
                let op = *self.g.pick(ARITH);
                let rest = self.gx(f, c);
                self.scope.pop();
                X::Let(Pat::Name(fname.clone()), bx(X::Lam(p, bx(body))), bx(X::Bin(op, bx(X::Call(fname, vec![arg])), bx(rest))))
            }
            14 => X::SelfRef,
            15 => X::Call("mem".into(), vec![self.gx(f, c)]),
            16 => {
                let name = *self.g.pick(&["hs", "hm"]);
                X::Call(name.into(), vec![self.gx(f, c)])
            }
            17 => {
                let (n, k) = tvars[self.g.usize_below(tvars.len())].clone();
                let K::T(k) = k else { return self.leaf(c) };
                X::Proj(bx(X::Var(n)), self.g.usize_below(k))
            }
            18 => {
                let n = fvars[self.g.usize_below(fvars.len())].0.clone();
                X::Call(n, vec![self.gx(f, c)])
            }
            19 => {
                let v = self.gx(f, c);
                let n = self.binder();
                self.scope.push((n.clone(), K::F));
                let e = self.gx(f, c);
                let b = self.gx(f, c);
                self.scope.pop();
                X::Let(Pat::Name(n.clone()), bx(v), bx(X::Set(n, bx(e), bx(b))))
            }
            _ => {
                let fname = if !fvars.is_empty() && self.g.coin() { fvars[self.g.usize_below(fvars.len())].0.clone() } else { (*self.g.pick(&["h1", "sin", "abs"])).to_string() };
                X::Pipe(bx(self.gx(f, c)), fname)
            }
        }
    }

    fn arg_qc(&self, c: &QC) -> QC {
        QC { holes: vec![], nholes: vec![], allow_self: c.allow_self && !self.lam_templates, in_branch: c.in_branch, lam: true, stateful: c.stateful, sites: false, arg: true, tuples: c.tuples }
    }

    /// one use of the case's staging context, as a stage-1 expression
    pub fn use_site(&mut self, c: &QC) -> X {
        if self.uses.is_empty() {
            return self.leaf(c);
        }
        let u = self.uses[self.g.usize_below(self.uses.len())].clone();
        let fuel = 2 + self.g.usize_below(2) as i32;
        match u {
            Use::QuoteSplice => {
                let mut qc = c.clone();
                qc.sites = false;
                qc.lam = true;
                X::Splice(bx(M::Quote(bx(self.gx(fuel + 1, &qc)))))
            }
            Use::LetInline => {
                let ac = self.arg_qc(c);
                let e1 = self.gx(fuel, &ac);
                let st = c.stateful && !c.in_branch;
                let holes = vec!["c1".to_string()];
                let mut fin = self.template(fuel, &holes, &[], st, false);
                if self.g.coin() {
                    let op = *self.g.pick(ARITH);
                    fin = X::Bin(op, bx(fin), bx(X::Splice(bx(M::CVar("c1".into())))));
                }
                X::Splice(bx(M::Let("c1".into(), bx(M::Quote(bx(e1))), bx(M::Quote(bx(fin))))))
            }
            Use::Macro(name, params, is_fn) => {
                let ac = self.arg_qc(c);
                let mut args = vec![];
                for is_code in &params {
                    if *is_code {
                        let e = self.gx(fuel, &ac);
                        args.push(A::C(M::Quote(bx(e))));
                    } else {
                        let k = self.g.int(0, self.max_num) as f64;
                        let lit = if self.g.bool(1, 5) { N::Bin("+", bx(N::Lit(k)), bx(N::Lit(0.0))) } else { N::Lit(k) };
                        args.push(A::N(lit));
                    }
                }
                let call = X::Splice(bx(M::Call(name, args, self.g.coin())));
                if is_fn {
                    let mut qc = c.clone();
                    qc.sites = false;
                    let a = self.gx(fuel - 1, &qc);
                    X::App(bx(call), vec![a])
                } else {
                    call
                }
            }
        }
    }
    /// a quoted template over the given holes in which every code hole occurs at least once
    pub fn template(&mut self, fuel: i32, holes: &[String], nholes: &[String], stateful: bool, top_of_macro_fn: bool) -> X {
        let _ = top_of_macro_fn;
        let qc = QC { holes: holes.to_vec(), nholes: nholes.to_vec(), allow_self: false, in_branch: false, lam: self.lam_templates || holes.is_empty(), stateful, sites: false, arg: false, tuples: true };
        let mut x = self.gx(fuel, &qc);
        if self.pool && !holes.is_empty() {
            let mut bs = vec![];
            binders_x(&x, &mut bs);
            if bs.is_empty() {
                // C10's domain: the quoted body binds a local around its splices
                let n = self.binder();
                let v = self.num();
                let op = *self.g.pick(ARITH);
                x = if self.lam_templates && self.g.coin() { X::App(bx(X::Lam(n.clone(), bx(X::Bin(op, bx(x), bx(X::Var(n)))))), vec![v]) } else { X::Let(Pat::Name(n.clone()), bx(v), bx(X::Bin(op, bx(x), bx(X::Var(n))))) };
            }
        }
        for h in holes {
            if !mentions_cvar_x(&x, h) {
                let op = *self.g.pick(ARITH);
                x = X::Bin(op, bx(x), bx(X::Splice(bx(M::CVar(h.clone())))));
            }
        }
        x
    }

    fn mname(&mut self, stem: &str) -> String {
        format!("{}{}", stem, self.fns.len())
    }

    /// `fn m(){ `e }`
    pub fn add_plain_macro(&mut self) -> Use {
        let saved = std::mem::replace(&mut self.scope, vec![("g0".into(), K::F)]);
        let fuel = 2 + self.g.usize_below(3) as i32;
        let e = self.template(fuel, &[], &[], true, true);
        self.scope = saved;
        let name = self.mname("m");
        self.fns.push(MFn { name: name.clone(), params: vec![], body: M::Quote(bx(e)) });
        Use::Macro(name, vec![], false)
    }
    /// `fn m(a, b){ `{ ... $a ... $b ... } }`, optionally through an earlier macro
    pub fn add_param_macro(&mut self) -> Use {
        let saved = std::mem::replace(&mut self.scope, vec![("g0".into(), K::F)]);
        let k = 1 + self.g.usize_below(2) + self.g.bool(1, 4) as usize;
        let params: Vec<String> = ["a", "b", "c"][..k].iter().map(|s| s.to_string()).collect();
        let fuel = 2 + self.g.usize_below(2) as i32;
        let earlier: Vec<(String, Vec<bool>)> = self
            .fns
            .iter()
            .filter_map(|f| if !f.params.is_empty() && f.params.iter().all(|p| p.1) { Some((f.name.clone(), f.params.iter().map(|p| p.1).collect())) } else { None })
            .collect();
        let body = if !earlier.is_empty() && self.g.bool(1, 2) {
            // function application at the macro stage: hand (code built from) the parameters to an earlier macro
            let (callee, ps) = earlier[self.g.usize_below(earlier.len())].clone();
            let mut args = vec![];
            for _ in &ps {
                if self.g.bool(1, 3) {
                    args.push(A::C(M::CVar(params[self.g.usize_below(k)].clone())));
                } else {
                    let upto = 1 + self.g.usize_below(k);
                    let t = self.template(fuel - 1, &params[..upto], &[], true, true);
                    args.push(A::C(M::Quote(bx(t))));
                }
            }
            let call = M::Call(callee, args, false);
            if self.g.coin() {
                call
            } else {
                let inner = X::Splice(bx(call));
                let t = self.template(fuel - 1, &params, &[], true, true);
                let op = *self.g.pick(ARITH);
                M::Quote(bx(X::Bin(op, bx(t), bx(inner))))
            }
        } else {
            M::Quote(bx(self.template(fuel + 1, &params, &[], true, true)))
        };
        // every parameter must be used somewhere, or its type stays unresolved
        let mut body = body;
        for p in &params {
            if !mentions_cvar_m(&body, p) {
                body = M::Quote(bx(X::Bin("+", bx(X::Splice(bx(body))), bx(X::Splice(bx(M::CVar(p.clone())))))));
            }
        }
        self.scope = saved;
        let name = self.mname("m");
        self.fns.push(MFn { name: name.clone(), params: params.iter().map(|p| (p.clone(), true)).collect(), body });
        Use::Macro(name, vec![true; k], false)
    }
    /// `fn m(a){ let c = `(..$a..) \n `{ ..$c..$c.. } }`
    pub fn add_letcode_macro(&mut self) -> Use {
        let saved = std::mem::replace(&mut self.scope, vec![("g0".into(), K::F)]);
        let fuel = 2 + self.g.usize_below(2) as i32;
        let has_param = self.g.bool(3, 4);
        let params: Vec<String> = if has_param { vec!["a".into()] } else { vec![] };
        let c1 = self.template(fuel, &params, &[], true, true);
        let mut holes = params.clone();
        holes.push("c1".into());
        let body = if self.g.bool(1, 3) {
            let c2 = self.template(fuel - 1, &holes[holes.len() - 1..], &[], true, true);
            holes.push("c2".into());
            let fin = self.template(fuel, &holes[holes.len() - 2..], &[], true, true);
            M::Let("c1".into(), bx(M::Quote(bx(c1))), bx(M::Let("c2".into(), bx(M::Quote(bx(c2))), bx(M::Quote(bx(fin))))))
        } else {
            let mut fin = self.template(fuel, &holes[holes.len() - 1..], &[], true, true);
            if self.g.coin() {
                // the classic duplication `$c + $c`
                let op = *self.g.pick(ARITH);
                fin = X::Bin(op, bx(fin), bx(X::Splice(bx(M::CVar("c1".into())))));
            }
            M::Let("c1".into(), bx(M::Quote(bx(c1))), bx(M::Quote(bx(fin))))
        };
        self.scope = saved;
        let name = self.mname("m");
        self.fns.push(MFn { name: name.clone(), params: params.iter().map(|p| (p.clone(), true)).collect(), body });
        Use::Macro(name, vec![true; params.len()], false)
    }
    /// numeric recursion that builds code
    pub fn add_recursive_macro(&mut self) -> Use {
        let saved = std::mem::replace(&mut self.scope, vec![("g0".into(), K::F)]);
        let fuel = 1 + self.g.usize_below(2) as i32;
        let name = self.mname("pw");
        let thr = *self.g.pick(&[0.0, 1.0]);
        let holes = vec!["x".to_string()];
        let with_n = self.g.bool(1, 3);
        let nh: Vec<String> = if with_n { vec!["n".into()] } else { vec![] };
        let step = self.template(fuel, &holes, &nh, true, true);
        let rec = X::Splice(bx(M::Call(name.clone(), vec![A::N(N::Bin("-", bx(N::Var("n".into())), bx(N::Lit(1.0)))), A::C(M::CVar("x".into()))], false)));
        let op = *self.g.pick(&["*", "+", "-"]);
        let q = if self.g.coin() {
            X::Bin(op, bx(step), bx(rec))
        } else if self.g.coin() {
            X::Bin(op, bx(rec), bx(step))
        } else {
            let b = self.binder();
            X::Let(Pat::Name(b.clone()), bx(step), bx(X::Bin(op, bx(X::Var(b)), bx(rec))))
        };
        let base = match self.g.weighted(&[2, 2, 1]) {
            0 => M::Quote(bx(X::Num(1.0))),
            1 => M::CVar("x".into()),
            _ => M::Quote(bx(self.template(1, &holes, &[], false, true))),
        };
        let body = M::IfN(N::Bin(">", bx(N::Var("n".into())), bx(N::Lit(thr))), bx(M::Quote(bx(q))), bx(base));
        self.fns.push(MFn { name: name.clone(), params: vec![("n".into(), false), ("x".into(), true)], body });
        self.scope = saved;
        if self.g.bool(1, 3) {
            // genpower style: the macro returns the code of a function
            let gname = self.mname("gp");
            let y = self.binder();
            let inner = X::Splice(bx(M::Call(name, vec![A::N(N::Var("n".into())), A::C(M::Quote(bx(X::Var(y.clone()))))], false)));
            self.fns.push(MFn { name: gname.clone(), params: vec![("n".into(), false)], body: M::Quote(bx(X::Lam(y, bx(inner)))) });
            Use::Macro(gname, vec![false], true)
        } else {
            Use::Macro(name, vec![false, true], false)
        }
    }

    /// the body hosting the use sites: a few locals, then an expression with >= 1 use site
    pub fn top_body(&mut self, in_fn: bool) -> X {
        let qc = QC { holes: vec![], nholes: vec![], allow_self: true, in_branch: false, lam: true, stateful: true, sites: false, arg: false, tuples: true };
        let nloc = self.g.usize_below(3);
        let mut lets: Vec<(String, X)> = vec![];
        let mark = self.scope.len();
        if in_fn {
            self.scope.push(("p".into(), K::F));
        }
        for i in 0..nloc {
            let v = match self.g.weighted(&[2, 2, 2]) {
                0 => self.num(),
                1 => X::Call("hs".into(), vec![self.num()]),
                _ => self.gx(1, &qc),
            };
            let _ = i;
            let n = self.binder();
            self.scope.push((n.clone(), K::F));
            lets.push((n, v));
        }
        let mut sc = qc.clone();
        sc.sites = true;
        let mut fin = self.use_site(&sc);
        let extra = self.g.usize_below(3);
        for _ in 0..extra {
            let op = *self.g.pick(ARITH);
            let other = self.gx(2, &sc);
            fin = if self.g.coin() { X::Bin(op, bx(fin), bx(other)) } else { X::Bin(op, bx(other), bx(fin)) };
        }
        if self.g.bool(1, 4) {
            // code after the expansion that mentions the locals again
            let n = self.binder();
            self.scope.push((n.clone(), K::F));
            let after = self.gx(1, &qc);
            self.scope.pop();
            fin = X::Let(Pat::Name(n.clone()), bx(fin), bx(X::Bin("+", bx(X::Var(n)), bx(after))));
        }
        self.scope.truncate(mark);
        let mut body = fin;
        for (n, v) in lets.into_iter().rev() {
            body = X::Let(Pat::Name(n), bx(v), bx(body));
        }
        body
    }

    pub fn finish(&mut self, body: X, in_fn: bool) -> Case {
        let lead_main = self.g.bool(1, 4);
        if in_fn {
            let a1 = self.num();
            let dsp = if self.g.coin() { X::Call("k1".into(), vec![a1]) } else { X::Bin("+", bx(X::Call("k1".into(), vec![a1])), bx(X::Call("k1".into(), vec![X::Call("hs".into(), vec![X::Num(1.0)])]))) };
            Case { fns: self.fns.clone(), kfn: Some(body), dsp, lead_main }
        } else {
            Case { fns: self.fns.clone(), kfn: None, dsp: body, lead_main }
        }
    }
}

pub fn mentions_cvar_x(x: &X, c: &str) -> bool {
    match x {
        X::Num(_) | X::SelfRef | X::Var(_) | X::Now | X::SampleRate => false,
        X::Pipe(a, _) => mentions_cvar_x(a, c),
        X::Bin(_, a, b) | X::Set(_, a, b) => mentions_cvar_x(a, c) || mentions_cvar_x(b, c),
        X::Call(_, args) | X::Tuple(args) => args.iter().any(|a| mentions_cvar_x(a, c)),
        X::Let(_, v, b) => mentions_cvar_x(v, c) || mentions_cvar_x(b, c),
        X::If(a, t, e) => mentions_cvar_x(a, c) || mentions_cvar_x(t, c) || mentions_cvar_x(e, c),
        X::Lam(_, b) => mentions_cvar_x(b, c),
        X::App(f, args) => mentions_cvar_x(f, c) || args.iter().any(|a| mentions_cvar_x(a, c)),
        X::Proj(t, _) => mentions_cvar_x(t, c),
        X::Splice(m) => mentions_cvar_m(m, c),
    }
}
pub fn mentions_cvar_m(m: &M, c: &str) -> bool {
    match m {
        M::Quote(x) => mentions_cvar_x(x, c),
        M::CVar(v) => v == c,
        M::Lift(..) => false,
        M::Let(_, a, b) | M::IfN(_, a, b) => mentions_cvar_m(a, c) || mentions_cvar_m(b, c),
        M::Call(_, args, _) => args.iter().any(|a| matches!(a, A::C(m) if mentions_cvar_m(m, c))),
    }
}
