//! C15 — compilation is deterministic.

use crate::engine::case::*;
use crate::engine::rng::hash64;
use crate::engine::tape::Gen;
use crate::gens::prog::{self, Layout, PG};
use crate::gens::textgen as tg;
use crate::props::c01;
use crate::runners::artefacts::diff_line;
use serde_json::{json, Value};

pub struct C15;

pub fn prop() -> Option<&'static dyn Prop> {
    Some(&C15)
}

/// one child process: compiles `history` (in order), then `src` (twice when `twice`); the artefacts of
/// a case are a pure function of (history, src) — nothing of the worker's own past enters
struct Child {
    digest: String,
    texts: Vec<(String, String)>,
    digest2: Option<String>,
    texts2: Vec<(String, String)>,
}

fn child(src: &str, sched: bool, history: &[String], twice: bool, tag: u64) -> Result<Child, String> {
    let dir = "/verif/target/work/c15";
    let _ = std::fs::create_dir_all(dir);
    let path = format!("{dir}/{}-{tag:016x}.mmm", std::process::id());
    let hpath = format!("{dir}/{}-{tag:016x}.hist.json", std::process::id());
    std::fs::write(&path, src).map_err(|e| e.to_string())?;
    let exe = std::env::current_exe().map_err(|e| e.to_string())?;
    let mut cmd = std::process::Command::new(exe);
    cmd.args(["artefacts", &path]);
    if sched {
        cmd.arg("--sched");
    }
    if twice {
        cmd.arg("--twice");
    }
    if !history.is_empty() {
        std::fs::write(&hpath, serde_json::to_vec(history).unwrap()).map_err(|e| e.to_string())?;
        cmd.args(["--history", &hpath]);
    }
    let out = cmd.output().map_err(|e| e.to_string());
    let _ = std::fs::remove_file(&path);
    let _ = std::fs::remove_file(&hpath);
    let out = out?;
    if !out.status.success() {
        return Err(format!("child exited with {:?}", out.status));
    }
    let v: Value = crate::engine::worker::child_result(&out.stdout)?;
    let texts = |k: &str| -> Vec<(String, String)> { v.get(k).and_then(|t| t.as_array()).map(|a| a.iter().filter_map(|x| Some((x.get(0)?.as_str()?.to_string(), x.get(1)?.as_str()?.to_string()))).collect()).unwrap_or_default() };
    Ok(Child { digest: v.get("digest").and_then(|d| d.as_str()).unwrap_or("").to_string(), texts: texts("texts"), digest2: v.get("digest2").and_then(|d| d.as_str()).map(|s| s.to_string()), texts2: texts("texts2") })
}

fn which_differs(a: &str, b: &str) -> String {
    let mine: Vec<&str> = a.split(';').collect();
    let theirs: Vec<&str> = b.split(';').collect();
    mine.iter().zip(theirs.iter()).find(|(x, y)| x != y).map(|(x, _)| x.split(':').next().unwrap_or("").to_string()).unwrap_or_else(|| "number-of-artefacts".into())
}

fn text_of<'a>(ts: &'a [(String, String)], which: &str) -> &'a str {
    ts.iter().find(|(n, _)| n == which).map(|(_, t)| t.as_str()).unwrap_or("")
}

/// a syntactically valid program that merely mentions the identifiers of `src` in a shuffled order
/// (as local variable names): it gives the process a different interning history for exactly the names
/// the program under test uses
pub fn ident_shuffle(src: &str, g: &mut Gen) -> String {
    const RESERVED: &[&str] = &["fn", "let", "letrec", "if", "else", "self", "now", "samplerate", "match", "type", "mod", "use", "pub", "include", "macro", "stage", "main", "rec", "alias", "float", "int", "string", "struct", "dsp", "_"];
    let mut ids: Vec<String> = vec![];
    let mut cur = String::new();
    for ch in src.chars().chain(std::iter::once(' ')) {
        if ch.is_ascii_alphanumeric() || ch == '_' {
            cur.push(ch);
        } else {
            if !cur.is_empty() && !cur.chars().next().unwrap().is_ascii_digit() && !RESERVED.contains(&cur.as_str()) && !ids.contains(&cur) {
                ids.push(cur.clone());
            }
            cur.clear();
        }
    }
    ids.truncate(400);
    let perm = g.perm(ids.len());
    let mut out = String::from("fn history_fn() {\n");
    for i in perm {
        out.push_str(&format!("  let {} = 0.0\n", ids[i]));
    }
    out.push_str("  0.0\n}\n");
    out
}

fn finish(src: &str, sched: bool, history: &[String], classes: Vec<String>, cx: &Cx) -> CaseResult {
    let hash = hash64(format!("{src}\u{1}{}", history.join("\u{2}")).as_bytes());
    let direct = json!({"text": src, "sched": sched, "history": history});
    if cx.dry {
        let mut r = CaseResult::discard("dry");
        r.render = Some(direct.clone());
        r.direct = Some(direct);
        return r;
    }
    // A: a fresh process that compiles nothing but the program
    // B: a fresh process that compiles the history first, then the program twice
    let a = match child(src, sched, &[], false, hash) {
        Ok(a) => a,
        Err(e) => return CaseResult::discard(format!("child:{e}")),
    };
    let b = match child(src, sched, history, true, hash ^ 0x5555) {
        Ok(b) => b,
        Err(e) => return CaseResult::discard(format!("child:{e}")),
    };
    let mut r = CaseResult::held(hash);
    let b2 = b.digest2.clone().unwrap_or_default();
    if b.digest != b2 {
        let w = which_differs(&b.digest, &b2);
        r = CaseResult::fail(hash, format!("c15:differs-within-process:{w}"), format!("artefact `{w}` differs between two compilations in one process: {}", diff_line(text_of(&b.texts, &w), text_of(&b.texts2, &w))));
    } else if a.digest != b.digest {
        let w = which_differs(&a.digest, &b.digest);
        let kind = if history.is_empty() { "differs-across-processes" } else { "depends-on-history" };
        r = CaseResult::fail(hash, format!("c15:{kind}:{w}"), format!("artefact `{w}` of a fresh process differs from that of a process that compiled {} other source(s) before: {}", history.len(), diff_line(text_of(&a.texts, &w), text_of(&b.texts, &w))));
    }
    r.classes = classes;
    let compiled = a.texts.iter().any(|(n, t)| n == "bytecode" && !t.starts_with("ERR") && !t.starts_with("PANIC"));
    if compiled {
        r.classes.push("compiled".into());
    }
    if !history.is_empty() {
        r.classes.push("with-history".into());
    }
    r.nontrivial = compiled || r.is_fail();
    if cx.render || r.is_fail() {
        r.render = Some(json!({"text": src, "sched": sched, "history_len": history.len()}));
    }
    r.direct = Some(direct);
    r
}

impl Prop for C15 {
    fn id(&self) -> &'static str {
        "C15"
    }
    fn spaces(&self, tier: Tier) -> Vec<Space> {
        let nc = tg::corpus().len() as u64;
        match tier {
            Tier::Quick => vec![
                Space { name: "corpus", size: nc, exhaustive: true, chunk: 8, case_timeout_s: 120.0, what: "every shipped source (modules, macros, sum types, arrays, scheduler)" },
                Space { name: "gen", size: 1200, exhaustive: false, chunk: 20, case_timeout_s: 120.0, what: "generated programs x generated compilation histories" },
                Space { name: "modsoup", size: 3000, exhaustive: false, chunk: 50, case_timeout_s: 120.0, what: "module-structured texts over a 4-name pool (wildcard and list imports, re-exports, duplicate names) x a history that mentions their identifiers in a shuffled order" },
            ],
            Tier::Thorough => vec![
                Space { name: "corpus", size: nc, exhaustive: true, chunk: 8, case_timeout_s: 120.0, what: "every shipped source" },
                Space { name: "gen", size: 20_000, exhaustive: false, chunk: 50, case_timeout_s: 120.0, what: "generated programs x generated compilation histories" },
                Space { name: "modsoup", size: 80_000, exhaustive: false, chunk: 100, case_timeout_s: 120.0, what: "module-structured texts over a 4-name pool x a history that mentions their identifiers in a shuffled order" },
            ],
        }
    }
    fn run(&self, space: &str, index: u64, g: &mut Gen, cx: &Cx) -> CaseResult {
        if space == "corpus" {
            let (path, src) = &tg::corpus()[index as usize];
            let sched = src.contains('@') || src.contains("_mimium_schedule_at");
            let mut classes = vec!["mode:corpus".to_string()];
            for (k, l) in [("type ", "uses:type-decl"), ("mod ", "uses:module"), ("#stage", "uses:macro"), ("match ", "uses:match"), ("[", "uses:array")] {
                if src.contains(k) {
                    classes.push(l.to_string());
                }
            }
            let _ = path;
            // every second run of a file is preceded by a program that mentions its identifiers in a
            // shuffled order
            let history = if g.coin() { vec![ident_shuffle(src, g)] } else { vec![] };
            if !history.is_empty() {
                classes.push("history:ident-shuffle".into());
            }
            return finish(src, sched, &history, classes, cx);
        }
        if space == "modsoup" {
            let src = tg::modsoup(g);
            let history = vec![ident_shuffle(&src, g)];
            return finish(&src, false, &history, vec!["mode:modsoup".to_string(), "history:ident-shuffle".to_string()], cx);
        }
        let (cfg, _off) = c01::pcfg(cx);
        let mut pg = PG::new(g, cfg.clone());
        let p = pg.program();
        let mut classes = pg.feat.classes();
        classes.push("mode:gen".into());
        let src = prog::render(&p, &Layout::default());
        // history: 0-4 other programs (generated, shipped, or broken) compiled in between
        let hn = g.int_small(0, 4) as usize;
        let mut history = vec![];
        for _ in 0..hn {
            match g.below(4) {
                3 => {
                    history.push(ident_shuffle(&src, g));
                    classes.push("history:ident-shuffle".into());
                }
                0 => {
                    let mut pg2 = PG::new(g, cfg.clone());
                    let p2 = pg2.program();
                    history.push(prog::render(&p2, &Layout::default()));
                }
                1 => {
                    let c = tg::corpus();
                    history.push(c[g.usize_below(c.len())].1.clone());
                }
                _ => history.push(tg::soup(g, 12)),
            }
        }
        finish(&src, false, &history, classes, cx)
    }
    fn run_direct(&self, input: &Value, cx: &Cx) -> Option<CaseResult> {
        let t = input.get("text")?.as_str()?;
        let sched = input.get("sched").and_then(|v| v.as_bool()).unwrap_or(false);
        let history: Vec<String> = input.get("history").and_then(|v| v.as_array()).map(|a| a.iter().filter_map(|x| x.as_str().map(|s| s.to_string())).collect()).unwrap_or_default();
        Some(finish(t, sched, &history, vec![], cx))
    }
    fn shrink_direct(&self, input: &Value) -> Vec<Value> {
        let Some(t) = input.get("text").and_then(|v| v.as_str()) else { return vec![] };
        let mut out = vec![];
        if input.get("history").and_then(|v| v.as_array()).map(|a| !a.is_empty()).unwrap_or(false) {
            let mut v = input.clone();
            v["history"] = json!([]);
            out.push(v);
        }
        for s in c01::line_candidates(t) {
            let mut v = input.clone();
            v["text"] = json!(s);
            out.push(v);
        }
        out
    }
    fn rule(&self) -> String {
        "Cases are (program, compilation history). Every shipped source (exhaustive) and generated programs. Each case runs two fresh child processes (different hash seeds): A compiles only the program; B first compiles the history — 0-4 other programs (generated, shipped, broken, or a program that mentions the identifiers of the program under test in a shuffled order) — and then the program twice. B's two compilations must agree, and A must agree with B. Compared byte for byte: bytecode listing, dsp state layout, I/O channels, WASM module bytes, WASM-side layout, and the outputs of 8 samples on both runtimes. Non-trivial = the program compiles; distinct by source.".into()
    }
    fn assumptions(&self) -> Vec<String> {
        vec!["Display of Mir / vm::Program (what the CLI's --emit-* options print) is taken as the listing; a process-dependent id inside it is the property's subject".into()]
    }
    fn required_classes(&self, _tier: Tier) -> Vec<&'static str> {
        vec!["compiled", "with-history", "history:ident-shuffle", "mode:corpus", "mode:gen", "uses:type-decl", "uses:module", "uses:macro"]
    }
}
