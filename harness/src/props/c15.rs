//! C15 — compilation is deterministic.

use crate::engine::case::*;
use crate::engine::rng::hash64;
use crate::engine::tape::Gen;
use crate::gens::prog::{self, Layout, PG};
use crate::gens::textgen as tg;
use crate::props::c01;
use crate::runners::artefacts::{compile_artefacts, diff_line, Artefacts};
use serde_json::{json, Value};

pub struct C15;

pub fn prop() -> Option<&'static dyn Prop> {
    Some(&C15)
}

/// artefacts of `src` computed by a fresh process (different hash seeds, empty interner history)
fn fresh_process(src: &str, sched: bool, tag: u64) -> Result<(String, Vec<(String, String)>), String> {
    let dir = "/verif/target/work/c15";
    let _ = std::fs::create_dir_all(dir);
    let path = format!("{dir}/{}-{tag:016x}.mmm", std::process::id());
    std::fs::write(&path, src).map_err(|e| e.to_string())?;
    let exe = std::env::current_exe().map_err(|e| e.to_string())?;
    let mut cmd = std::process::Command::new(exe);
    cmd.args(["artefacts", &path]);
    if sched {
        cmd.arg("--sched");
    }
    let out = cmd.output().map_err(|e| e.to_string());
    let _ = std::fs::remove_file(&path);
    let out = out?;
    if !out.status.success() {
        return Err(format!("child exited with {:?}", out.status));
    }
    let v: Value = serde_json::from_slice(&out.stdout).map_err(|e| e.to_string())?;
    let digest = v.get("digest").and_then(|d| d.as_str()).unwrap_or("").to_string();
    let texts = v.get("texts").and_then(|t| t.as_array()).map(|a| a.iter().filter_map(|x| Some((x.get(0)?.as_str()?.to_string(), x.get(1)?.as_str()?.to_string()))).collect()).unwrap_or_default();
    Ok((digest, texts))
}

fn describe(a: &Artefacts, which: &str, other_texts: &[(String, String)]) -> String {
    let mine = a.texts.iter().find(|(n, _)| n == which).map(|(_, t)| t.as_str()).unwrap_or("");
    let theirs = other_texts.iter().find(|(n, _)| n == which).map(|(_, t)| t.as_str()).unwrap_or("");
    diff_line(mine, theirs)
}

fn finish(src: &str, sched: bool, history: &[String], classes: Vec<String>, cx: &Cx) -> CaseResult {
    let hash = hash64(src.as_bytes());
    let direct = json!({"text": src, "sched": sched, "history": history});
    if cx.dry {
        let mut r = CaseResult::discard("dry");
        r.render = Some(direct.clone());
        r.direct = Some(direct);
        return r;
    }
    // 1. first compilation in this process (which has compiled whatever came before)
    let a1 = compile_artefacts(src, sched, true);
    // 2. a generated history of other compilations, then again
    for h in history {
        let _ = compile_artefacts(h, false, false);
    }
    let a2 = compile_artefacts(src, sched, true);
    let a3 = compile_artefacts(src, sched, true);
    let mut r = CaseResult::held(hash);
    if let Some(w) = a1.first_difference(&a2).or_else(|| a2.first_difference(&a3)) {
        let other = if a1.first_difference(&a2).is_some() { &a2 } else { &a3 };
        r = CaseResult::fail(hash, format!("c15:differs-within-process:{w}"), format!("artefact `{w}` differs between two compilations in one process: {}", describe(&a1, &w, &other.texts)));
    } else {
        // 3. a fresh process
        match fresh_process(src, sched, hash) {
            Err(e) => {
                return CaseResult::discard(format!("child:{e}"));
            }
            Ok((digest, texts)) => {
                if digest != a1.digest() {
                    let my_digest = a1.digest();
                    let mine: Vec<&str> = my_digest.split(';').collect();
                    let theirs: Vec<&str> = digest.split(';').collect();
                    let w = mine.iter().zip(theirs.iter()).find(|(x, y)| x != y).map(|(x, _)| x.split(':').next().unwrap_or("").to_string()).unwrap_or_else(|| "number-of-artefacts".into());
                    r = CaseResult::fail(hash, format!("c15:differs-across-processes:{w}"), format!("artefact `{w}` differs between this process and a fresh one: {}", describe(&a1, &w, &texts)));
                }
            }
        }
    }
    r.classes = classes;
    let compiled = a1.texts.iter().any(|(n, t)| n == "bytecode" && !t.starts_with("ERR") && !t.starts_with("PANIC"));
    if compiled {
        r.classes.push("compiled".into());
    }
    if !history.is_empty() {
        r.classes.push("with-history".into());
    }
    r.nontrivial = compiled || r.is_fail();
    if cx.render || r.is_fail() {
        r.render = Some(json!({"text": src, "sched": sched, "history_len": history.len()}));
    }
    r.direct = Some(direct);
    r
}

impl Prop for C15 {
    fn id(&self) -> &'static str {
        "C15"
    }
    fn spaces(&self, tier: Tier) -> Vec<Space> {
        let nc = tg::corpus().len() as u64;
        match tier {
            Tier::Quick => vec![
                Space { name: "corpus", size: nc, exhaustive: true, chunk: 8, case_timeout_s: 120.0, what: "every shipped source (modules, macros, sum types, arrays, scheduler)" },
                Space { name: "gen", size: 600, exhaustive: false, chunk: 20, case_timeout_s: 120.0, what: "generated programs x generated compilation histories" },
            ],
            Tier::Thorough => vec![
                Space { name: "corpus", size: nc, exhaustive: true, chunk: 8, case_timeout_s: 120.0, what: "every shipped source" },
                Space { name: "gen", size: 20_000, exhaustive: false, chunk: 50, case_timeout_s: 120.0, what: "generated programs x generated compilation histories" },
            ],
        }
    }
    fn run(&self, space: &str, index: u64, g: &mut Gen, cx: &Cx) -> CaseResult {
        if space == "corpus" {
            let (path, src) = &tg::corpus()[index as usize];
            let sched = src.contains('@') || src.contains("_mimium_schedule_at");
            let mut classes = vec!["mode:corpus".to_string()];
            for (k, l) in [("type ", "uses:type-decl"), ("mod ", "uses:module"), ("#stage", "uses:macro"), ("match ", "uses:match"), ("[", "uses:array")] {
                if src.contains(k) {
                    classes.push(l.to_string());
                }
            }
            let _ = path;
            return finish(src, sched, &[], classes, cx);
        }
        let (cfg, _off) = c01::pcfg(cx);
        let mut pg = PG::new(g, cfg.clone());
        let p = pg.program();
        let mut classes = pg.feat.classes();
        classes.push("mode:gen".into());
        let src = prog::render(&p, &Layout::default());
        // history: 0-4 other programs (generated, shipped, or broken) compiled in between
        let hn = g.int_small(0, 4) as usize;
        let mut history = vec![];
        for _ in 0..hn {
            match g.below(3) {
                0 => {
                    let mut pg2 = PG::new(g, cfg.clone());
                    let p2 = pg2.program();
                    history.push(prog::render(&p2, &Layout::default()));
                }
                1 => {
                    let c = tg::corpus();
                    history.push(c[g.usize_below(c.len())].1.clone());
                }
                _ => history.push(tg::soup(g, 12)),
            }
        }
        finish(&src, false, &history, classes, cx)
    }
    fn run_direct(&self, input: &Value, cx: &Cx) -> Option<CaseResult> {
        let t = input.get("text")?.as_str()?;
        let sched = input.get("sched").and_then(|v| v.as_bool()).unwrap_or(false);
        let history: Vec<String> = input.get("history").and_then(|v| v.as_array()).map(|a| a.iter().filter_map(|x| x.as_str().map(|s| s.to_string())).collect()).unwrap_or_default();
        Some(finish(t, sched, &history, vec![], cx))
    }
    fn shrink_direct(&self, input: &Value) -> Vec<Value> {
        let Some(t) = input.get("text").and_then(|v| v.as_str()) else { return vec![] };
        let mut out = vec![];
        if input.get("history").and_then(|v| v.as_array()).map(|a| !a.is_empty()).unwrap_or(false) {
            let mut v = input.clone();
            v["history"] = json!([]);
            out.push(v);
        }
        for s in c01::line_candidates(t) {
            let mut v = input.clone();
            v["text"] = json!(s);
            out.push(v);
        }
        out
    }
    fn rule(&self) -> String {
        "Cases are (program, compilation history). Every shipped source (exhaustive) and generated programs, each compiled three times in a worker process that has already compiled other cases, with 0-4 further programs (generated, shipped or broken) compiled in between, and once in a fresh child process (different hash seeds, empty interner history). Compared byte for byte: bytecode listing, dsp state layout, I/O channels, WASM module bytes, WASM-side layout, and the outputs of 8 samples on both runtimes. Non-trivial = the program compiles; distinct by source.".into()
    }
    fn assumptions(&self) -> Vec<String> {
        vec!["Display of Mir / vm::Program (what the CLI's --emit-* options print) is taken as the listing; a process-dependent id inside it is the property's subject".into()]
    }
    fn required_classes(&self, _tier: Tier) -> Vec<&'static str> {
        vec!["compiled", "with-history", "mode:corpus", "mode:gen", "uses:type-decl", "uses:module", "uses:macro"]
    }
}
