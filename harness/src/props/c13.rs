//! C13 — tokens and syntax tree are lossless over the source text.

use crate::engine::case::*;
use crate::engine::rng::hash64;
use crate::engine::shrink::text_candidates;
use crate::engine::tape::Gen;
use crate::gens::textgen as tg;
use mimium_lang::compiler::parser::{self, green::GreenNode, GreenNodeArena, GreenNodeId, TokenKind};
use serde_json::{json, Value};

pub struct C13;

pub const KF_HEADER: &str = "C13-header-trivia-dropped";

struct Out {
    fail: Option<(String, String)>,
    kinds: usize,
    has_error_tok: bool,
    float_after_dot: bool,
    unterminated: bool,
    header_dropped: u64,
    parse_errors: usize,
    ntokens: usize,
}

fn leaves(arena: &GreenNodeArena, id: GreenNodeId, out: &mut Vec<(usize, usize)>, depth: usize, bad_width: &mut Option<String>) -> usize {
    // returns the width computed from the leaves
    if depth > 100_000 {
        return 0;
    }
    match arena.get(id) {
        GreenNode::Token { token_index, width } => {
            out.push((*token_index, *width));
            *width
        }
        GreenNode::Internal { children, width, kind } => {
            let mut w = 0;
            for c in children {
                w += leaves(arena, *c, out, depth + 1, bad_width);
            }
            if w != *width && bad_width.is_none() {
                *bad_width = Some(format!("node {kind:?} has width {width} but its leaves sum to {w}"));
            }
            w
        }
    }
}

fn check_text(src: &str, strict: bool) -> Out {
    let mut o = Out { fail: None, kinds: 0, has_error_tok: false, float_after_dot: false, unterminated: false, header_dropped: 0, parse_errors: 0, ntokens: 0 };
    macro_rules! fail {
        ($sig:expr, $($arg:tt)*) => {{ o.fail = Some((format!("c13:{}", $sig), format!($($arg)*))); return o; }};
    }
    let tokens = parser::tokenize(src);
    o.ntokens = tokens.len();
    // ---- tiling
    if tokens.is_empty() {
        fail!("no-eof", "token list is empty (no end marker)");
    }
    let mut pos = 0usize;
    for (i, t) in tokens.iter().enumerate() {
        if t.start != pos {
            fail!("gap-or-overlap", "token {i} ({:?}) starts at {} but the previous token ended at {pos}", t.kind, t.start);
        }
        let end = t.start + t.length;
        if end > src.len() {
            fail!("past-end", "token {i} ({:?}) ends at {end} beyond the text length {}", t.kind, src.len());
        }
        if !src.is_char_boundary(t.start) || !src.is_char_boundary(end) {
            fail!("char-boundary", "token {i} ({:?}) [{}, {end}) is not on character boundaries", t.kind, t.start);
        }
        if t.kind == TokenKind::Eof && i + 1 != tokens.len() {
            fail!("eof-not-last", "end marker at index {i} of {}", tokens.len());
        }
        if t.length == 0 && t.kind != TokenKind::Eof {
            fail!("empty-token", "token {i} ({:?}) has length 0", t.kind);
        }
        pos = end;
    }
    let last = tokens.last().unwrap();
    if last.kind != TokenKind::Eof || last.length != 0 || last.start != src.len() {
        fail!("bad-eof", "last token is {:?}@{}+{} for a text of {} bytes", last.kind, last.start, last.length, src.len());
    }
    if pos != src.len() {
        fail!("not-covering", "tokens cover {pos} of {} bytes", src.len());
    }
    let cat: String = tokens.iter().map(|t| t.text(src)).collect();
    if cat != src {
        fail!("concat", "concatenated token texts differ from the input");
    }
    let mut kinds: Vec<TokenKind> = tokens.iter().map(|t| t.kind).filter(|k| *k != TokenKind::Eof).collect();
    o.has_error_tok = kinds.contains(&TokenKind::Error);
    for w in tokens.windows(2) {
        if w[0].kind == TokenKind::Dot && matches!(w[1].kind, TokenKind::Int | TokenKind::Float) {
            o.float_after_dot = true;
        }
    }
    o.unterminated = src.contains("/*") && !src.contains("*/") || src.matches('"').count() % 2 == 1;
    kinds.sort_by_key(|k| *k as u8 as usize + 0);
    kinds.dedup();
    o.kinds = kinds.len();

    // ---- preparse: every non-trivia token once in order, every trivia token attached once to a neighbour
    let pre = parser::preparse(&tokens);
    let expect_nt: Vec<usize> = tokens.iter().enumerate().filter(|(_, t)| !t.is_trivia() && t.kind != TokenKind::Eof).map(|(i, _)| i).collect();
    if pre.token_indices != expect_nt {
        fail!("token-indices", "non-trivia indices {:?} differ from the expected {:?}", &pre.token_indices, &expect_nt);
    }
    if !expect_nt.is_empty() {
        // where may each trivia token go?  run between non-trivia k and k+1: trailing[k] or leading[k+1]
        let mut seen = vec![0u32; tokens.len()];
        let mut owner_ok = true;
        let mut why = String::new();
        let mut k_of_token = vec![usize::MAX; tokens.len()]; // for trivia i: number of non-trivia tokens before it
        let mut cnt = 0usize;
        for (i, t) in tokens.iter().enumerate() {
            if t.is_trivia() {
                k_of_token[i] = cnt;
            } else if t.kind != TokenKind::Eof {
                cnt += 1;
            }
        }
        let nnt = expect_nt.len();
        for (k, list) in pre.leading_trivia_map.iter() {
            for &ti in list {
                if ti >= tokens.len() || !tokens[ti].is_trivia() {
                    owner_ok = false;
                    why = format!("leading list of token #{k} holds index {ti} which is not a trivia token");
                    continue;
                }
                seen[ti] += 1;
                // leading of non-trivia #k: trivia must sit between #k-1 and #k  => k_of_token == k
                if k_of_token[ti] != *k || *k >= nnt {
                    owner_ok = false;
                    why = format!("trivia token {ti} is attached as leading to non-trivia #{k} which is not its neighbour");
                }
            }
        }
        for (k, list) in pre.trailing_trivia_map.iter() {
            for &ti in list {
                if ti >= tokens.len() || !tokens[ti].is_trivia() {
                    owner_ok = false;
                    why = format!("trailing list of token #{k} holds index {ti} which is not a trivia token");
                    continue;
                }
                seen[ti] += 1;
                if k_of_token[ti] != *k + 1 || *k >= nnt {
                    owner_ok = false;
                    why = format!("trivia token {ti} is attached as trailing to non-trivia #{k} which is not its neighbour");
                }
            }
        }
        if !owner_ok {
            fail!("trivia-wrong-owner", "{why}");
        }
        // the known finding: trivia before the first non-trivia token, up to and including the last
        // line break of that run, is discarded
        let first_nt = expect_nt[0];
        let last_lb_in_header = (0..first_nt).rev().find(|i| tokens[*i].kind == TokenKind::LineBreak);
        for (i, t) in tokens.iter().enumerate() {
            if !t.is_trivia() {
                continue;
            }
            if seen[i] == 1 {
                continue;
            }
            if seen[i] > 1 {
                fail!("trivia-attached-twice", "trivia token {i} ({:?}) is attached {} times", t.kind, seen[i]);
            }
            let in_known = last_lb_in_header.map(|l| i <= l).unwrap_or(false);
            if in_known && !strict {
                o.header_dropped += 1;
                continue;
            }
            if in_known {
                fail!("trivia-dropped-header", "trivia token {i} ({:?} {:?}) before the first token of the file is attached to no token", t.kind, t.text(src));
            }
            fail!("trivia-dropped", "trivia token {i} ({:?} {:?}) is attached to no token", t.kind, t.text(src));
        }
    }

    // ---- CST: leaves == non-trivia tokens, each once, in order; widths add up
    let tokens_copy = tokens.clone();
    let (root, arena, tokens2, errors) = parser::parse_cst(tokens, &pre);
    o.parse_errors = errors.len();
    // parse_cst may re-annotate token kinds (Ident -> IdentFunction, ...); positions must not change
    if tokens2.len() != tokens_copy.len() || tokens2.iter().zip(tokens_copy.iter()).any(|(a, b)| a.start != b.start || a.length != b.length) {
        fail!("tokens-changed", "parse_cst returned a token list with different positions");
    }
    let mut ls = vec![];
    let mut bad = None;
    let w = leaves(&arena, root, &mut ls, 0, &mut bad);
    if let Some(b) = bad {
        fail!("node-width", "{b}");
    }
    let leaf_idx: Vec<usize> = ls.iter().map(|(i, _)| *i).collect();
    if leaf_idx != expect_nt {
        // describe the first difference
        let mut d = String::new();
        for (p, (a, b)) in leaf_idx.iter().zip(expect_nt.iter()).enumerate() {
            if a != b {
                d = format!("position {p}: tree has token {a}, source order has token {b}");
                break;
            }
        }
        if d.is_empty() {
            d = format!("tree has {} token leaves, the text has {} non-trivia tokens", leaf_idx.len(), expect_nt.len());
        }
        let sig = if leaf_idx.len() < expect_nt.len() { "cst-token-lost" } else if leaf_idx.len() > expect_nt.len() { "cst-token-duplicated" } else { "cst-token-order" };
        fail!(sig, "{d} (parser reported {} errors)", errors.len());
    }
    for (i, wd) in &ls {
        if tokens_copy[*i].length != *wd {
            fail!("leaf-width", "leaf for token {i} has width {wd}, token length {}", tokens_copy[*i].length);
        }
    }
    let expect_w: usize = expect_nt.iter().map(|i| tokens_copy[*i].length).sum();
    if w != expect_w {
        fail!("root-width", "root width {w} != sum of non-trivia token lengths {expect_w}");
    }
    for e in &errors {
        if e.token_index >= tokens_copy.len() {
            fail!("error-index", "parser error refers to token {} of {}", e.token_index, tokens_copy.len());
        }
    }
    o
}

fn finish(src: &str, mode: &str, extra: Option<&str>, cx: &Cx) -> CaseResult {
    let hash = hash64(src.as_bytes());
    if cx.dry {
        let mut r = CaseResult::discard("dry");
        r.render = Some(json!({"text": src}));
        r.direct = Some(json!({"text": src}));
        return r;
    }
    let o = check_text(src, cx.strict || !cx.excluded(KF_HEADER));
    let mut r = match &o.fail {
        Some((s, m)) => CaseResult::fail(hash, s.clone(), m.clone()),
        None => CaseResult::held(hash),
    };
    r.nontrivial = o.kinds >= 2 || o.has_error_tok;
    r.classes.push(format!("mode:{mode}"));
    if let Some(e) = extra {
        r.classes.push(format!("mut:{e}"));
    }
    if o.has_error_tok {
        r.classes.push("has-error-token".into());
    }
    if o.float_after_dot {
        r.classes.push("number-after-dot".into());
    }
    if o.unterminated {
        r.classes.push("unterminated".into());
    }
    if !src.is_ascii() {
        r.classes.push("non-ascii".into());
    }
    if o.parse_errors > 0 {
        r.classes.push("parser-errors".into());
    } else if o.ntokens > 3 {
        r.classes.push("parses-clean".into());
    }
    if o.header_dropped > 0 {
        r.count(&format!("excluded_by_known_finding:{KF_HEADER}"), 1);
        r.classes.push("known:header-trivia".into());
    }
    if cx.render || r.is_fail() {
        let shown: String = if src.len() > 600 { format!("{}…[{} bytes]", src.chars().take(300).collect::<String>(), src.len()) } else { src.to_string() };
        r.render = Some(json!({"text": shown, "bytes": src.len(), "tokens": o.ntokens, "parse_errors": o.parse_errors}));
    }
    if r.is_fail() || mode != "chars" {
        r.direct = Some(json!({"text": src}));
    }
    r
}

impl Prop for C13 {
    fn id(&self) -> &'static str {
        "C13"
    }
    fn spaces(&self, tier: Tier) -> Vec<Space> {
        let k = tg::CHAR_ALPHABET.len() as u64;
        match tier {
            Tier::Quick => vec![
                Space { name: "chars", size: tg::count_upto(k, 5), exhaustive: true, chunk: 200_000, case_timeout_s: 10.0, what: "all strings of length 1-5 over a 24-symbol character alphabet" },
                Space { name: "lexemes", size: 300_000, exhaustive: false, chunk: 4000, case_timeout_s: 10.0, what: "random sequences of token lexemes (incl. fusing and unterminated forms), grammar fragments and Unicode pieces" },
                Space { name: "corpus", size: 80_000, exhaustive: false, chunk: 1500, case_timeout_s: 20.0, what: "shipped .mmm sources truncated / range-deleted / duplicated / with insertions" },
            ],
            Tier::Thorough => vec![
                Space { name: "chars", size: tg::count_upto(k, 6), exhaustive: true, chunk: 1_000_000, case_timeout_s: 10.0, what: "all strings of length 1-6 over a 24-symbol character alphabet" },
                Space { name: "lexemes", size: 10_000_000, exhaustive: false, chunk: 20_000, case_timeout_s: 10.0, what: "random sequences of token lexemes (incl. fusing and unterminated forms), grammar fragments and Unicode pieces" },
                Space { name: "corpus", size: 600_000, exhaustive: false, chunk: 5000, case_timeout_s: 20.0, what: "shipped .mmm sources truncated / range-deleted / duplicated / with insertions" },
            ],
        }
    }
    fn run(&self, space: &str, index: u64, g: &mut Gen, cx: &Cx) -> CaseResult {
        match space {
            "chars" => finish(&tg::nth_string(&tg::CHAR_ALPHABET, index), "chars", None, cx),
            "lexemes" => {
                let s = tg::soup(g, 30);
                finish(&s, "lexemes", None, cx)
            }
            _ => {
                let (s, m) = tg::corpus_mutant(g);
                finish(&s, "corpus", Some(m), cx)
            }
        }
    }
    fn run_direct(&self, input: &Value, cx: &Cx) -> Option<CaseResult> {
        let t = input.get("text")?.as_str()?;
        Some(finish(t, "direct", None, cx))
    }
    fn shrink_direct(&self, input: &Value) -> Vec<Value> {
        let Some(t) = input.get("text").and_then(|v| v.as_str()) else { return vec![] };
        text_candidates(t).into_iter().map(|s| json!({"text": s})).collect()
    }
    fn rule(&self) -> String {
        "Cases are texts. Exhaustive: every string of length 1-5 (quick) / 1-6 (thorough) over the 24 symbols a 1 . \" / * \\n space ( ) { } | ! = < > - + $ ` é _ :. Random: sequences of up to 30 lexemes/fragments (one lexeme per token kind plus fusing forms such as a.0.1, 1..2, ||>, unterminated strings and comments, CR/LS/PS/NUL/BOM/astral characters) and mutated shipped sources (truncation at any char, range deletion/duplication, insertion, char replacement). Oracle: tokens tile the text (contiguous from 0, on char boundaries, Eof of length 0 at the end, concatenation equals the text); preparse lists every non-trivia token once in order and attaches every trivia token exactly once to a neighbouring token of its run; the CST's token leaves in order equal the non-trivia tokens (also under parser errors) and node widths equal the sum of their leaves. Non-trivial = at least 2 token kinds or an error token; distinct by text.".into()
    }
    fn assumptions(&self) -> Vec<String> {
        vec!["trivia attachment is only demanded for texts with at least one non-trivia token (there is no token to attach to otherwise)".into()]
    }
    fn required_classes(&self, _tier: Tier) -> Vec<&'static str> {
        vec!["has-error-token", "number-after-dot", "unterminated", "non-ascii", "parser-errors", "parses-clean", "mode:corpus"]
    }
}

pub fn prop() -> Option<&'static dyn Prop> {
    Some(&C13)
}
