//! C20 — values and types survive the plugin FFI encoding.
//!
//! Subject: `runtime::ffi_serde` (`serialize_value` / `deserialize_value`, `serialize_macro_args` /
//! `deserialize_macro_args`, `Value::to_ffi_value` / `FfiValue::to_value`) and the hand-written
//! serde impls `types/serde_impl.rs` (`Type`) and `interpreter/serde_impl.rs` (`Value`).
//!
//! The harness keeps its own model of a case (`MV` value trees, `MT` type trees), builds the
//! repository's `Value` / `Type` from the model, sends it through the encoding and compares what
//! comes back against the *model* (numbers by bit pattern — bincode writes the raw f64 bits, no NaN
//! payload is documented to be lost —, strings and record keys by content, code by interner key or
//! structural print, types structurally through `TypeNodeId::to_type()` ignoring locations).
//!
//! Points of the design that the code / the build makes impossible (read before trusting coverage):
//!  * The harness crate has no `bincode` and no `serde` dependency and Cargo.toml must not be edited,
//!    so `bincode::serialize(&Type)` cannot be called from here.  What does cross the boundary in the
//!    repository is the `TypeNodeId` (slotmap key, `#[serde(transparent)]`), and that path IS exercised
//!    with the real bincode through `serialize_macro_args`.  The hand-written `Serialize`/`Deserialize`
//!    of `Type` (and of `Value`) are exercised through `serde_json::to_value` / `from_value` with a
//!    positional transcoding step that imitates what a non-self-describing format does (variant
//!    content `{"0": x}` -> `x`, `{"0":a,"1":b}` -> `[a,b]`, variant key tried lower-cased and as is).
//!    That leg sees variant *names* and field contents but not the numeric variant indices bincode uses;
//!    a swap of two indices in `Serialize` is invisible to it.  Non-finite numbers are kept out of the
//!    JSON leg for `Value` (JSON has no NaN/inf; the loss would be serde_json's, not the repository's).
//!  * Interner keys inside encodings depend on how much the process interned before, so encoded bytes
//!    of values with code / of types are not a pure function of the case.  Distinctness therefore hashes
//!    an injective structural rendering of the model instead of the encoded bytes.
//!  * Decoded `ExprNodeId` / `TypeNodeId` are dereferenced with `get_unchecked` by the repository in
//!    release builds; the harness checks `contains_key` on the public storages before any dereference
//!    and never dereferences ids decoded from arbitrary bytes.
//!  * All non-transportable variants are constructible through public API (Closure, Fixpoint,
//!    ExternalFn, Store, ConstructorFn, ErrorV), as are `Type::Intermediate` and `Type::TypeScheme`.

use crate::engine::case::*;
use crate::engine::panics;
use crate::engine::rng::hash64;
use crate::engine::tape::Gen;
use mimium_lang::ast::{Expr, Literal};
use mimium_lang::compiler::EvalStage;
use mimium_lang::compiler::parser::parse_to_expr;
use mimium_lang::interner::{ExprNodeId, Symbol, ToSymbol, TypeNodeId, with_session_globals};
use mimium_lang::interpreter::{ExtFunction, Value};
use mimium_lang::runtime::ffi_serde::{deserialize_macro_args, deserialize_value, serialize_macro_args, serialize_value};
use mimium_lang::types::{IntermediateId, PType, RecordTypeField, Type, TypeSchemeId, TypeVar};
use mimium_lang::utils::environment::Environment;
use mimium_lang::utils::metadata::Location;
use serde_json::{Map, Value as J, json};
use std::cell::RefCell;
use std::fmt::Write as _;
use std::rc::Rc;
use std::sync::{Arc, OnceLock, RwLock};

pub struct C20;

/// known finding: `Value::ErrorV` is encoded as `Ok(FfiValue::ErrorV)` and decodes to `Value::Unit`
pub const KF_ERRORV: &str = "C20-errorv-becomes-unit";

// ---------------------------------------------------------------- the harness-side model

#[derive(Clone, Debug, PartialEq)]
pub enum MV {
    Unit,
    /// bit pattern of the f64
    Num(u64),
    Str(String),
    Array(Vec<MV>),
    Tuple(Vec<MV>),
    Record(Vec<(String, MV)>),
    Tagged(u64, Box<MV>),
    /// index into the expression pool
    Code(usize),
    // ---- variants that cannot cross the FFI boundary
    ErrorV(usize),
    Fixpoint(String, usize),
    ExtFn(String),
    Store(Box<MV>),
    Closure(usize, Vec<String>, Vec<(String, MV)>),
    Ctor(u64, String, MT),
}

#[derive(Clone, Debug, PartialEq)]
pub enum MT {
    /// 0 unit, 1 int, 2 numeric, 3 string
    Prim(u8),
    Array(Box<MT>),
    Tuple(Vec<MT>),
    Record(Vec<(String, MT, bool)>),
    Func(Box<MT>, Box<MT>),
    Ref(Box<MT>),
    Code(Box<MT>),
    Union(Vec<MT>),
    UserSum(String, Vec<(String, Option<MT>)>),
    Boxed(Box<MT>),
    Alias(String),
    Any,
    Failure,
    Unknown,
    // ---- refused by the hand-written serde
    IVar(u64, u64),
    Scheme(u64),
}

fn mv_name(v: &MV) -> &'static str {
    match v {
        MV::Unit => "Unit",
        MV::Num(_) => "Number",
        MV::Str(_) => "String",
        MV::Array(_) => "Array",
        MV::Tuple(_) => "Tuple",
        MV::Record(_) => "Record",
        MV::Tagged(..) => "TaggedUnion",
        MV::Code(_) => "Code",
        MV::ErrorV(_) => "ErrorV",
        MV::Fixpoint(..) => "Fixpoint",
        MV::ExtFn(_) => "ExternalFn",
        MV::Store(_) => "Store",
        MV::Closure(..) => "Closure",
        MV::Ctor(..) => "ConstructorFn",
    }
}
fn mv_label(v: &MV) -> &'static str {
    match v {
        MV::Unit => "v:Unit",
        MV::Num(_) => "v:Number",
        MV::Str(_) => "v:String",
        MV::Array(_) => "v:Array",
        MV::Tuple(_) => "v:Tuple",
        MV::Record(_) => "v:Record",
        MV::Tagged(..) => "v:TaggedUnion",
        MV::Code(_) => "v:Code",
        MV::ErrorV(_) => "v:ErrorV",
        MV::Fixpoint(..) => "v:Fixpoint",
        MV::ExtFn(_) => "v:ExternalFn",
        MV::Store(_) => "v:Store",
        MV::Closure(..) => "v:Closure",
        MV::Ctor(..) => "v:ConstructorFn",
    }
}
fn mt_name(t: &MT) -> &'static str {
    match t {
        MT::Prim(_) => "Primitive",
        MT::Array(_) => "Array",
        MT::Tuple(_) => "Tuple",
        MT::Record(_) => "Record",
        MT::Func(..) => "Function",
        MT::Ref(_) => "Ref",
        MT::Code(_) => "Code",
        MT::Union(_) => "Union",
        MT::UserSum(..) => "UserSum",
        MT::Boxed(_) => "Boxed",
        MT::Alias(_) => "TypeAlias",
        MT::Any => "Any",
        MT::Failure => "Failure",
        MT::Unknown => "Unknown",
        MT::IVar(..) => "Intermediate",
        MT::Scheme(_) => "TypeScheme",
    }
}
fn mt_label(t: &MT) -> &'static str {
    match t {
        MT::Prim(_) => "t:Primitive",
        MT::Array(_) => "t:Array",
        MT::Tuple(_) => "t:Tuple",
        MT::Record(_) => "t:Record",
        MT::Func(..) => "t:Function",
        MT::Ref(_) => "t:Ref",
        MT::Code(_) => "t:Code",
        MT::Union(_) => "t:Union",
        MT::UserSum(..) => "t:UserSum",
        MT::Boxed(_) => "t:Boxed",
        MT::Alias(_) => "t:TypeAlias",
        MT::Any => "t:Any",
        MT::Failure => "t:Failure",
        MT::Unknown => "t:Unknown",
        MT::IVar(..) => "t:Intermediate",
        MT::Scheme(_) => "t:TypeScheme",
    }
}

/// is the variant itself one that may not cross the boundary (FFI encoding)?
fn mv_is_bad(v: &MV) -> bool {
    matches!(v, MV::ErrorV(_) | MV::Fixpoint(..) | MV::ExtFn(_) | MV::Store(_) | MV::Closure(..) | MV::Ctor(..))
}

// ---------------------------------------------------------------- expression pool

const POOL_DESCR: [&str; 8] = ["int-literal 42 (no span)", "var x @3..4", "parsed `1.0+2.0`", "parsed `fn f(x){x*2.0}\\nf(1.0)`", "Expr::Error", "parsed `|x| x`", "tuple of pool[0], pool[1]", "parsed quote `(1.0)"];

fn pool() -> &'static Vec<ExprNodeId> {
    static P: OnceLock<Vec<ExprNodeId>> = OnceLock::new();
    P.get_or_init(|| {
        let lit = Expr::Literal(Literal::Int(42)).into_id_without_span();
        let var = Expr::Var("x".to_symbol()).into_id(Location::new(3..4, "c20.mmm".into()));
        let parse = |s: &str| parse_to_expr(s, None).0;
        let tup = Expr::Tuple(vec![lit, var]).into_id_without_span();
        vec![lit, var, parse("1.0+2.0"), parse("fn f(x){x*2.0}\nf(1.0)"), Expr::Error.into_id_without_span(), parse("|x| x"), tup, parse("`(1.0)")]
    })
}
fn pool_get(i: usize) -> ExprNodeId {
    let p = pool();
    p[i % p.len()]
}

// ---------------------------------------------------------------- model -> repository data

fn build(v: &MV) -> Value {
    match v {
        MV::Unit => Value::Unit,
        MV::Num(b) => Value::Number(f64::from_bits(*b)),
        MV::Str(s) => Value::String(s.to_symbol()),
        MV::Array(xs) => Value::Array(xs.iter().map(build).collect()),
        MV::Tuple(xs) => Value::Tuple(xs.iter().map(build).collect()),
        MV::Record(fs) => Value::Record(fs.iter().map(|(k, x)| (k.to_symbol(), build(x))).collect()),
        MV::Tagged(t, x) => Value::TaggedUnion(*t, Box::new(build(x))),
        MV::Code(i) => Value::Code(pool_get(*i)),
        MV::ErrorV(i) => Value::ErrorV(pool_get(*i)),
        MV::Fixpoint(n, i) => Value::Fixpoint(n.to_symbol(), pool_get(*i)),
        MV::ExtFn(n) => Value::ExternalFn(ExtFunction::new(n.to_symbol(), |_args: &[(Value, TypeNodeId)]| Value::Unit)),
        MV::Store(x) => Value::Store(Rc::new(RefCell::new(build(x)))),
        MV::Closure(i, names, env) => {
            let mut e: Environment<(Value, EvalStage)> = Environment::new();
            e.extend();
            let binds: Vec<(Symbol, (Value, EvalStage))> = env.iter().map(|(k, x)| (k.to_symbol(), (build(x), EvalStage::Stage(0)))).collect();
            e.add_bind(&binds);
            Value::Closure(pool_get(*i), names.iter().map(|n| n.to_symbol()).collect(), e)
        }
        MV::Ctor(t, n, ty) => Value::ConstructorFn(*t, n.to_symbol(), build_type(ty).into_id()),
    }
}

fn build_type(t: &MT) -> Type {
    let id = |x: &MT| build_type(x).into_id();
    match t {
        MT::Prim(k) => Type::Primitive(match k % 4 {
            0 => PType::Unit,
            1 => PType::Int,
            2 => PType::Numeric,
            _ => PType::String,
        }),
        MT::Array(x) => Type::Array(id(x)),
        MT::Tuple(xs) => Type::Tuple(xs.iter().map(id).collect()),
        MT::Record(fs) => Type::Record(fs.iter().map(|(k, x, d)| RecordTypeField::new(k.to_symbol(), id(x), *d)).collect()),
        MT::Func(a, r) => Type::Function { arg: id(a), ret: id(r) },
        MT::Ref(x) => Type::Ref(id(x)),
        MT::Code(x) => Type::Code(id(x)),
        MT::Union(xs) => Type::Union(xs.iter().map(id).collect()),
        MT::UserSum(n, vs) => Type::UserSum { name: n.to_symbol(), variants: vs.iter().map(|(k, x)| (k.to_symbol(), x.as_ref().map(id))).collect() },
        MT::Boxed(x) => Type::Boxed(id(x)),
        MT::Alias(s) => Type::TypeAlias(s.to_symbol()),
        MT::Any => Type::Any,
        MT::Failure => Type::Failure,
        MT::Unknown => Type::Unknown,
        MT::IVar(v, l) => Type::Intermediate(Arc::new(RwLock::new(TypeVar::new(IntermediateId(*v), *l)))),
        MT::Scheme(n) => Type::TypeScheme(TypeSchemeId(*n)),
    }
}

// ---------------------------------------------------------------- harness-side equality (model vs decoded data)

pub struct Mismatch {
    /// variant name of the model node at which the difference was found
    variant: &'static str,
    path: String,
    what: String,
}

fn mm(variant: &'static str, path: &str, what: String) -> Mismatch {
    Mismatch { variant, path: if path.is_empty() { "/".to_string() } else { path.to_string() }, what }
}

fn value_variant(v: &Value) -> &'static str {
    match v {
        Value::ErrorV(_) => "ErrorV",
        Value::Unit => "Unit",
        Value::Number(_) => "Number",
        Value::String(_) => "String",
        Value::Array(_) => "Array",
        Value::Record(_) => "Record",
        Value::Tuple(_) => "Tuple",
        Value::Closure(..) => "Closure",
        Value::Fixpoint(..) => "Fixpoint",
        Value::Code(_) => "Code",
        Value::ExternalFn(_) => "ExternalFn",
        Value::Store(_) => "Store",
        Value::TaggedUnion(..) => "TaggedUnion",
        Value::ConstructorFn(..) => "ConstructorFn",
    }
}

/// same expression: same interner key, or (key exists and) the same structural print
fn same_expr(want: ExprNodeId, got: ExprNodeId) -> Result<(), String> {
    if want.0 == got.0 {
        return Ok(());
    }
    let valid = with_session_globals(|g| g.expr_storage.contains_key(got.0));
    if !valid {
        return Err(format!("decoded expression key {:?} does not exist in the interner (encoded {:?})", got.0, want.0));
    }
    let a = format!("{:?}", want.to_expr());
    let b = format!("{:?}", got.to_expr());
    if a == b { Ok(()) } else { Err(format!("decoded expression {b} differs from the encoded {a}")) }
}

/// `errorv_as_unit`: tolerate the known finding (ErrorV comes back as Unit) while still comparing the rest
fn cmp_value(m: &MV, v: &Value, path: &mut String, errorv_as_unit: bool) -> Result<(), Mismatch> {
    let name = mv_name(m);
    let wrong = |path: &str| mm(name, path, format!("encoded {name}, decoded {}", value_variant(v)));
    let plen = path.len();
    macro_rules! sub {
        ($seg:expr, $m:expr, $v:expr) => {{
            let _ = write!(path, "/{}", $seg);
            let r = cmp_value($m, $v, path, errorv_as_unit);
            path.truncate(plen);
            r?;
        }};
    }
    match (m, v) {
        (MV::Unit, Value::Unit) => Ok(()),
        (MV::Num(b), Value::Number(n)) => {
            if n.to_bits() == *b {
                Ok(())
            } else {
                Err(mm(name, path, format!("number bits 0x{b:016x} ({:?}) decoded as 0x{:016x} ({n:?})", f64::from_bits(*b), n.to_bits())))
            }
        }
        (MV::Str(s), Value::String(sym)) => {
            let got = sym.as_str();
            if got == s { Ok(()) } else { Err(mm(name, path, format!("string {s:?} decoded as {got:?}"))) }
        }
        (MV::Array(xs), Value::Array(ys)) | (MV::Tuple(xs), Value::Tuple(ys)) => {
            if xs.len() != ys.len() {
                return Err(mm(name, path, format!("{} elements encoded, {} decoded", xs.len(), ys.len())));
            }
            for (i, (x, y)) in xs.iter().zip(ys).enumerate() {
                sub!(i, x, y);
            }
            Ok(())
        }
        (MV::Record(xs), Value::Record(ys)) => {
            if xs.len() != ys.len() {
                return Err(mm(name, path, format!("{} fields encoded, {} decoded", xs.len(), ys.len())));
            }
            for (i, ((k, x), (k2, y))) in xs.iter().zip(ys).enumerate() {
                if k2.as_str() != k {
                    return Err(mm(name, path, format!("field #{i} key {k:?} decoded as {:?}", k2.as_str())));
                }
                sub!(i, x, y);
            }
            Ok(())
        }
        (MV::Tagged(t, x), Value::TaggedUnion(t2, y)) => {
            if t != t2 {
                return Err(mm(name, path, format!("tag {t} decoded as {t2}")));
            }
            sub!("payload", x.as_ref(), y.as_ref());
            Ok(())
        }
        (MV::Code(i), Value::Code(id)) | (MV::ErrorV(i), Value::ErrorV(id)) => same_expr(pool_get(*i), *id).map_err(|e| mm(name, path, e)),
        (MV::ErrorV(_), Value::Unit) if errorv_as_unit => Ok(()),
        (MV::Fixpoint(n, i), Value::Fixpoint(sym, id)) => {
            if sym.as_str() != n {
                return Err(mm(name, path, format!("fixpoint name {n:?} decoded as {:?}", sym.as_str())));
            }
            same_expr(pool_get(*i), *id).map_err(|e| mm(name, path, e))
        }
        (MV::Ctor(t, n, ty), Value::ConstructorFn(t2, sym, id)) => {
            if t != t2 || sym.as_str() != n {
                return Err(mm(name, path, format!("constructor ({t},{n:?}) decoded as ({t2},{:?})", sym.as_str())));
            }
            let _ = write!(path, "/type");
            let r = cmp_type_id(ty, *id, path);
            path.truncate(plen);
            r
        }
        _ => Err(wrong(path)),
    }
}

fn cmp_type_id(m: &MT, id: TypeNodeId, path: &mut String) -> Result<(), Mismatch> {
    let valid = with_session_globals(|g| g.type_storage.contains_key(id.0));
    if !valid {
        return Err(mm(mt_name(m), path, format!("decoded type key {:?} does not exist in the interner", id.0)));
    }
    cmp_type(m, &id.to_type(), path)
}

fn type_variant(t: &Type) -> &'static str {
    match t {
        Type::Primitive(_) => "Primitive",
        Type::Array(_) => "Array",
        Type::Tuple(_) => "Tuple",
        Type::Record(_) => "Record",
        Type::Function { .. } => "Function",
        Type::Ref(_) => "Ref",
        Type::Code(_) => "Code",
        Type::Union(_) => "Union",
        Type::UserSum { .. } => "UserSum",
        Type::Boxed(_) => "Boxed",
        Type::Intermediate(_) => "Intermediate",
        Type::TypeScheme(_) => "TypeScheme",
        Type::TypeAlias(_) => "TypeAlias",
        Type::Any => "Any",
        Type::Failure => "Failure",
        Type::Unknown => "Unknown",
    }
}

/// structural comparison of a decoded `Type` against the model; locations are not looked at
fn cmp_type(m: &MT, t: &Type, path: &mut String) -> Result<(), Mismatch> {
    let name = mt_name(m);
    let plen = path.len();
    macro_rules! sub {
        ($seg:expr, $m:expr, $id:expr) => {{
            let _ = write!(path, "/{}", $seg);
            let r = cmp_type_id($m, $id, path);
            path.truncate(plen);
            r?;
        }};
    }
    match (m, t) {
        (MT::Prim(k), Type::Primitive(p)) => {
            let got = match p {
                PType::Unit => 0,
                PType::Int => 1,
                PType::Numeric => 2,
                PType::String => 3,
            };
            if got == k % 4 { Ok(()) } else { Err(mm(name, path, format!("primitive kind {} decoded as {p:?}", k % 4))) }
        }
        (MT::Array(x), Type::Array(id)) | (MT::Ref(x), Type::Ref(id)) | (MT::Code(x), Type::Code(id)) | (MT::Boxed(x), Type::Boxed(id)) => {
            sub!("0", x.as_ref(), *id);
            Ok(())
        }
        (MT::Tuple(xs), Type::Tuple(ids)) | (MT::Union(xs), Type::Union(ids)) => {
            if xs.len() != ids.len() {
                return Err(mm(name, path, format!("{} members encoded, {} decoded", xs.len(), ids.len())));
            }
            for (i, (x, id)) in xs.iter().zip(ids).enumerate() {
                sub!(i, x, *id);
            }
            Ok(())
        }
        (MT::Record(fs), Type::Record(gs)) => {
            if fs.len() != gs.len() {
                return Err(mm(name, path, format!("{} fields encoded, {} decoded", fs.len(), gs.len())));
            }
            for (i, ((k, x, d), f)) in fs.iter().zip(gs).enumerate() {
                if f.key.as_str() != k {
                    return Err(mm(name, path, format!("field #{i} key {k:?} decoded as {:?}", f.key.as_str())));
                }
                if f.has_default != *d {
                    return Err(mm(name, path, format!("field #{i} ({k:?}) has_default {d} decoded as {}", f.has_default)));
                }
                sub!(i, x, f.ty);
            }
            Ok(())
        }
        (MT::Func(a, r), Type::Function { arg, ret }) => {
            sub!("arg", a.as_ref(), *arg);
            sub!("ret", r.as_ref(), *ret);
            Ok(())
        }
        (MT::UserSum(n, vs), Type::UserSum { name: n2, variants }) => {
            if n2.as_str() != n {
                return Err(mm(name, path, format!("sum type name {n:?} decoded as {:?}", n2.as_str())));
            }
            if vs.len() != variants.len() {
                return Err(mm(name, path, format!("{} variants encoded, {} decoded", vs.len(), variants.len())));
            }
            for (i, ((k, x), (k2, y))) in vs.iter().zip(variants).enumerate() {
                if k2.as_str() != k {
                    return Err(mm(name, path, format!("variant #{i} name {k:?} decoded as {:?}", k2.as_str())));
                }
                match (x, y) {
                    (None, None) => {}
                    (Some(x), Some(id)) => sub!(i, x, *id),
                    _ => return Err(mm(name, path, format!("variant #{i} ({k:?}) payload presence {} decoded as {}", x.is_some(), y.is_some()))),
                }
            }
            Ok(())
        }
        (MT::Alias(s), Type::TypeAlias(sym)) => {
            if sym.as_str() == s { Ok(()) } else { Err(mm(name, path, format!("alias {s:?} decoded as {:?}", sym.as_str()))) }
        }
        (MT::Any, Type::Any) | (MT::Failure, Type::Failure) | (MT::Unknown, Type::Unknown) => Ok(()),
        (MT::IVar(v, l), Type::Intermediate(cell)) => {
            let tv = cell.read().unwrap();
            if tv.var.0 == *v && tv.level == *l { Ok(()) } else { Err(mm(name, path, format!("type variable ({v},{l}) decoded as ({},{})", tv.var.0, tv.level))) }
        }
        (MT::Scheme(n), Type::TypeScheme(id)) => {
            if id.0 == *n { Ok(()) } else { Err(mm(name, path, format!("type scheme {n} decoded as {}", id.0))) }
        }
        _ => Err(mm(name, path, format!("encoded {name}, decoded {}", type_variant(t)))),
    }
}

// ---------------------------------------------------------------- case statistics, rendering

#[derive(Default)]
struct Info {
    depth: usize,
    nodes: usize,
    labels: Vec<&'static str>,
    edge: bool,
    /// non-transportable nodes reachable from the root through transportable nodes only (pre-order): (variant, depth)
    bad: Vec<(&'static str, usize)>,
}

fn is_edge_bits(b: u64) -> Option<&'static str> {
    let f = f64::from_bits(b);
    if f.is_nan() {
        Some("edge:nan")
    } else if f.is_infinite() {
        Some("edge:inf")
    } else if b == 0x8000_0000_0000_0000 {
        Some("edge:neg-zero")
    } else if f != 0.0 && f.is_subnormal() {
        Some("edge:subnormal")
    } else if f.abs() >= 1e300 || (f != 0.0 && f.abs() <= 1e-300) {
        Some("edge:magnitude")
    } else {
        None
    }
}

fn str_labels(s: &str, info: &mut Info) {
    if s.is_empty() {
        info.labels.push("empty-string");
        info.edge = true;
    }
    if !s.is_ascii() {
        info.labels.push("non-ascii");
        info.edge = true;
    }
    if s.contains('\0') {
        info.labels.push("nul-in-string");
        info.edge = true;
    }
    if s.len() >= 256 {
        info.labels.push("long-string");
        info.edge = true;
    }
}

fn walk_v(v: &MV, depth: usize, in_bad: bool, info: &mut Info) {
    info.nodes += 1;
    info.depth = info.depth.max(depth);
    info.labels.push(mv_label(v));
    let bad = mv_is_bad(v);
    if bad && !in_bad {
        info.bad.push((mv_name(v), depth));
    }
    let inb = in_bad || bad;
    match v {
        MV::Num(b) => {
            if let Some(l) = is_edge_bits(*b) {
                info.labels.push(l);
                info.edge = true;
            }
        }
        MV::Str(s) => str_labels(s, info),
        MV::Array(xs) | MV::Tuple(xs) => {
            if xs.is_empty() {
                info.labels.push("empty-aggregate");
            }
            for x in xs {
                walk_v(x, depth + 1, inb, info);
            }
        }
        MV::Record(fs) => {
            if fs.is_empty() {
                info.labels.push("empty-aggregate");
            }
            for (i, (k, x)) in fs.iter().enumerate() {
                str_labels(k, info);
                if fs[..i].iter().any(|(k2, _)| k2 == k) {
                    info.labels.push("duplicate-keys");
                }
                walk_v(x, depth + 1, inb, info);
            }
        }
        MV::Tagged(t, x) => {
            if *t > u32::MAX as u64 {
                info.labels.push("edge:big-tag");
            }
            walk_v(x, depth + 1, inb, info);
        }
        MV::Store(x) => walk_v(x, depth + 1, inb, info),
        MV::Closure(_, _, env) => {
            for (_, x) in env {
                walk_v(x, depth + 1, inb, info);
            }
        }
        MV::Ctor(_, _, t) => walk_t(t, depth + 1, info),
        _ => {}
    }
}

fn walk_t(t: &MT, depth: usize, info: &mut Info) {
    info.nodes += 1;
    info.depth = info.depth.max(depth);
    info.labels.push(mt_label(t));
    match t {
        MT::Array(x) | MT::Ref(x) | MT::Code(x) | MT::Boxed(x) => walk_t(x, depth + 1, info),
        MT::Tuple(xs) | MT::Union(xs) => {
            if xs.is_empty() {
                info.labels.push("empty-aggregate");
            }
            for x in xs {
                walk_t(x, depth + 1, info);
            }
        }
        MT::Record(fs) => {
            if fs.is_empty() {
                info.labels.push("empty-aggregate");
            }
            for (k, x, d) in fs {
                str_labels(k, info);
                if *d {
                    info.labels.push("t:has-default");
                }
                walk_t(x, depth + 1, info);
            }
        }
        MT::Func(a, r) => {
            walk_t(a, depth + 1, info);
            walk_t(r, depth + 1, info);
        }
        MT::UserSum(n, vs) => {
            str_labels(n, info);
            if vs.is_empty() {
                info.labels.push("empty-aggregate");
            }
            for (k, x) in vs {
                str_labels(k, info);
                match x {
                    Some(x) => {
                        info.labels.push("t:UserSum-payload");
                        walk_t(x, depth + 1, info);
                    }
                    None => info.labels.push("t:UserSum-bare"),
                }
            }
        }
        MT::Alias(s) => str_labels(s, info),
        _ => {}
    }
}

fn finish_labels(info: &mut Info) -> Vec<String> {
    info.labels.sort_unstable();
    info.labels.dedup();
    info.labels.iter().map(|s| s.to_string()).collect()
}

/// injective compact rendering (used for the distinctness hash)
fn show_v(v: &MV, o: &mut String) {
    match v {
        MV::Unit => o.push('U'),
        MV::Num(b) => {
            let _ = write!(o, "N{b:x}");
        }
        MV::Str(s) => {
            let _ = write!(o, "S{}:{s}", s.len());
        }
        MV::Array(xs) | MV::Tuple(xs) => {
            o.push(if matches!(v, MV::Array(_)) { 'A' } else { 'T' });
            let _ = write!(o, "{}[", xs.len());
            for x in xs {
                show_v(x, o);
            }
            o.push(']');
        }
        MV::Record(fs) => {
            let _ = write!(o, "R{}[", fs.len());
            for (k, x) in fs {
                let _ = write!(o, "{}:{k}=", k.len());
                show_v(x, o);
            }
            o.push(']');
        }
        MV::Tagged(t, x) => {
            let _ = write!(o, "G{t}(");
            show_v(x, o);
            o.push(')');
        }
        MV::Code(i) => {
            let _ = write!(o, "C{i}");
        }
        MV::ErrorV(i) => {
            let _ = write!(o, "E{i}");
        }
        MV::Fixpoint(n, i) => {
            let _ = write!(o, "F{}:{n}{i}", n.len());
        }
        MV::ExtFn(n) => {
            let _ = write!(o, "X{}:{n}", n.len());
        }
        MV::Store(x) => {
            o.push_str("M(");
            show_v(x, o);
            o.push(')');
        }
        MV::Closure(i, names, env) => {
            let _ = write!(o, "L{i}<");
            for n in names {
                let _ = write!(o, "{}:{n}", n.len());
            }
            o.push('>');
            for (k, x) in env {
                let _ = write!(o, "{}:{k}=", k.len());
                show_v(x, o);
            }
            o.push(';');
        }
        MV::Ctor(t, n, ty) => {
            let _ = write!(o, "K{t},{}:{n}", n.len());
            show_t(ty, o);
        }
    }
}

fn show_t(t: &MT, o: &mut String) {
    match t {
        MT::Prim(k) => {
            let _ = write!(o, "p{}", k % 4);
        }
        MT::Array(x) | MT::Ref(x) | MT::Code(x) | MT::Boxed(x) => {
            o.push(match t {
                MT::Array(_) => 'a',
                MT::Ref(_) => 'r',
                MT::Code(_) => 'c',
                _ => 'b',
            });
            show_t(x, o);
        }
        MT::Tuple(xs) | MT::Union(xs) => {
            o.push(if matches!(t, MT::Tuple(_)) { 't' } else { 'u' });
            let _ = write!(o, "{}[", xs.len());
            for x in xs {
                show_t(x, o);
            }
            o.push(']');
        }
        MT::Record(fs) => {
            let _ = write!(o, "e{}[", fs.len());
            for (k, x, d) in fs {
                let _ = write!(o, "{}:{k}{}", k.len(), if *d { '?' } else { '=' });
                show_t(x, o);
            }
            o.push(']');
        }
        MT::Func(a, r) => {
            o.push('f');
            show_t(a, o);
            show_t(r, o);
        }
        MT::UserSum(n, vs) => {
            let _ = write!(o, "s{}:{n}{}[", n.len(), vs.len());
            for (k, x) in vs {
                let _ = write!(o, "{}:{k}", k.len());
                match x {
                    Some(x) => {
                        o.push('+');
                        show_t(x, o);
                    }
                    None => o.push('-'),
                }
            }
            o.push(']');
        }
        MT::Alias(s) => {
            let _ = write!(o, "l{}:{s}", s.len());
        }
        MT::Any => o.push('y'),
        MT::Failure => o.push('x'),
        MT::Unknown => o.push('k'),
        MT::IVar(v, l) => {
            let _ = write!(o, "i{v},{l};");
        }
        MT::Scheme(n) => {
            let _ = write!(o, "m{n};");
        }
    }
}

// ---------------------------------------------------------------- JSON form of the model (render / direct replay)

fn v_json(v: &MV) -> J {
    match v {
        MV::Unit => json!("unit"),
        MV::Num(b) => json!({"num": format!("0x{b:016x}"), "f64": format!("{:?}", f64::from_bits(*b))}),
        MV::Str(s) => json!({"str": s}),
        MV::Array(xs) => json!({"arr": xs.iter().map(v_json).collect::<Vec<_>>()}),
        MV::Tuple(xs) => json!({"tup": xs.iter().map(v_json).collect::<Vec<_>>()}),
        MV::Record(fs) => json!({"rec": fs.iter().map(|(k, x)| json!([k, v_json(x)])).collect::<Vec<_>>()}),
        MV::Tagged(t, x) => json!({"tagged": [t, v_json(x)]}),
        MV::Code(i) => json!({"code": i, "expr": POOL_DESCR[i % POOL_DESCR.len()]}),
        MV::ErrorV(i) => json!({"errorv": i}),
        MV::Fixpoint(n, i) => json!({"fixpoint": [n, i]}),
        MV::ExtFn(n) => json!({"extfn": n}),
        MV::Store(x) => json!({"store": v_json(x)}),
        MV::Closure(i, names, env) => json!({"closure": [i, names, env.iter().map(|(k, x)| json!([k, v_json(x)])).collect::<Vec<_>>()]}),
        MV::Ctor(t, n, ty) => json!({"ctor": [t, n, t_json(ty)]}),
    }
}

fn t_json(t: &MT) -> J {
    match t {
        MT::Prim(k) => json!(["unit", "int", "num", "string"][(*k % 4) as usize]),
        MT::Array(x) => json!({"array": t_json(x)}),
        MT::Ref(x) => json!({"ref": t_json(x)}),
        MT::Code(x) => json!({"code": t_json(x)}),
        MT::Boxed(x) => json!({"boxed": t_json(x)}),
        MT::Tuple(xs) => json!({"tuple": xs.iter().map(t_json).collect::<Vec<_>>()}),
        MT::Union(xs) => json!({"union": xs.iter().map(t_json).collect::<Vec<_>>()}),
        MT::Record(fs) => json!({"record": fs.iter().map(|(k, x, d)| json!([k, t_json(x), d])).collect::<Vec<_>>()}),
        MT::Func(a, r) => json!({"fn": [t_json(a), t_json(r)]}),
        MT::UserSum(n, vs) => json!({"usersum": [n, vs.iter().map(|(k, x)| json!([k, x.as_ref().map(t_json)])).collect::<Vec<_>>()]}),
        MT::Alias(s) => json!({"alias": s}),
        MT::Any => json!("any"),
        MT::Failure => json!("failure"),
        MT::Unknown => json!("unknown"),
        MT::IVar(v, l) => json!({"ivar": [v, l]}),
        MT::Scheme(n) => json!({"scheme": n}),
    }
}

fn v_parse(j: &J) -> Option<MV> {
    if let Some(s) = j.as_str() {
        return if s == "unit" { Some(MV::Unit) } else { None };
    }
    let o = j.as_object()?;
    let list = |x: &J| -> Option<Vec<MV>> { x.as_array()?.iter().map(v_parse).collect() };
    let pairs = |x: &J| -> Option<Vec<(String, MV)>> { x.as_array()?.iter().map(|p| Some((p.get(0)?.as_str()?.to_string(), v_parse(p.get(1)?)?))).collect() };
    if let Some(x) = o.get("num") {
        let s = x.as_str()?;
        return Some(MV::Num(u64::from_str_radix(s.trim_start_matches("0x"), 16).ok()?));
    }
    if let Some(x) = o.get("str") {
        return Some(MV::Str(x.as_str()?.to_string()));
    }
    if let Some(x) = o.get("arr") {
        return Some(MV::Array(list(x)?));
    }
    if let Some(x) = o.get("tup") {
        return Some(MV::Tuple(list(x)?));
    }
    if let Some(x) = o.get("rec") {
        return Some(MV::Record(pairs(x)?));
    }
    if let Some(x) = o.get("tagged") {
        return Some(MV::Tagged(x.get(0)?.as_u64()?, Box::new(v_parse(x.get(1)?)?)));
    }
    if let Some(x) = o.get("code") {
        return Some(MV::Code(x.as_u64()? as usize));
    }
    if let Some(x) = o.get("errorv") {
        return Some(MV::ErrorV(x.as_u64()? as usize));
    }
    if let Some(x) = o.get("fixpoint") {
        return Some(MV::Fixpoint(x.get(0)?.as_str()?.to_string(), x.get(1)?.as_u64()? as usize));
    }
    if let Some(x) = o.get("extfn") {
        return Some(MV::ExtFn(x.as_str()?.to_string()));
    }
    if let Some(x) = o.get("store") {
        return Some(MV::Store(Box::new(v_parse(x)?)));
    }
    if let Some(x) = o.get("closure") {
        let names: Option<Vec<String>> = x.get(1)?.as_array()?.iter().map(|n| n.as_str().map(|s| s.to_string())).collect();
        return Some(MV::Closure(x.get(0)?.as_u64()? as usize, names?, pairs(x.get(2)?)?));
    }
    if let Some(x) = o.get("ctor") {
        return Some(MV::Ctor(x.get(0)?.as_u64()?, x.get(1)?.as_str()?.to_string(), t_parse(x.get(2)?)?));
    }
    None
}

fn t_parse(j: &J) -> Option<MT> {
    if let Some(s) = j.as_str() {
        return match s {
            "unit" => Some(MT::Prim(0)),
            "int" => Some(MT::Prim(1)),
            "num" => Some(MT::Prim(2)),
            "string" => Some(MT::Prim(3)),
            "any" => Some(MT::Any),
            "failure" => Some(MT::Failure),
            "unknown" => Some(MT::Unknown),
            _ => None,
        };
    }
    let o = j.as_object()?;
    let list = |x: &J| -> Option<Vec<MT>> { x.as_array()?.iter().map(t_parse).collect() };
    let bx = |x: &J| -> Option<Box<MT>> { Some(Box::new(t_parse(x)?)) };
    if let Some(x) = o.get("array") {
        return Some(MT::Array(bx(x)?));
    }
    if let Some(x) = o.get("ref") {
        return Some(MT::Ref(bx(x)?));
    }
    if let Some(x) = o.get("code") {
        return Some(MT::Code(bx(x)?));
    }
    if let Some(x) = o.get("boxed") {
        return Some(MT::Boxed(bx(x)?));
    }
    if let Some(x) = o.get("tuple") {
        return Some(MT::Tuple(list(x)?));
    }
    if let Some(x) = o.get("union") {
        return Some(MT::Union(list(x)?));
    }
    if let Some(x) = o.get("record") {
        let fs: Option<Vec<(String, MT, bool)>> = x.as_array()?.iter().map(|f| Some((f.get(0)?.as_str()?.to_string(), t_parse(f.get(1)?)?, f.get(2)?.as_bool()?))).collect();
        return Some(MT::Record(fs?));
    }
    if let Some(x) = o.get("fn") {
        return Some(MT::Func(bx(x.get(0)?)?, bx(x.get(1)?)?));
    }
    if let Some(x) = o.get("usersum") {
        let vs: Option<Vec<(String, Option<MT>)>> = x
            .get(1)?
            .as_array()?
            .iter()
            .map(|f| {
                let p = f.get(1)?;
                let payload = if p.is_null() { None } else { Some(t_parse(p)?) };
                Some((f.get(0)?.as_str()?.to_string(), payload))
            })
            .collect();
        return Some(MT::UserSum(x.get(0)?.as_str()?.to_string(), vs?));
    }
    if let Some(x) = o.get("alias") {
        return Some(MT::Alias(x.as_str()?.to_string()));
    }
    if let Some(x) = o.get("ivar") {
        return Some(MT::IVar(x.get(0)?.as_u64()?, x.get(1)?.as_u64()?));
    }
    if let Some(x) = o.get("scheme") {
        return Some(MT::Scheme(x.as_u64()?));
    }
    None
}

// ---------------------------------------------------------------- the oracles

#[derive(Default)]
struct Verdict {
    fail: Option<(String, String)>,
    enc_len: Option<usize>,
    /// the case ran into the tolerated known finding
    known_errorv: bool,
    /// the encoder refused the case (as it must)
    refused: bool,
    extra: Vec<&'static str>,
}

fn vfail(v: &mut Verdict, sig: String, msg: String) {
    if v.fail.is_none() {
        v.fail = Some((sig, msg));
    }
}

fn mismatch_sig(kind: &str, m: &Mismatch) -> (String, String) {
    (format!("c20:{kind}:{}", m.variant), format!("at {}: {}", m.path, m.what))
}

/// FFI encoding of a single value: `to_ffi_value`/`to_value` and `serialize_value`/`deserialize_value`.
fn check_value(mv: &MV, info: &Info, tolerate_errorv: bool) -> Verdict {
    let mut out = Verdict::default();
    let v = build(mv);
    let root = mv_name(mv);
    let ffi = match panics::catch(|| v.to_ffi_value()) {
        Ok(r) => r,
        Err(p) => {
            vfail(&mut out, "c20:encode-panic".into(), format!("to_ffi_value: {}", p.describe()));
            return out;
        }
    };
    let enc = match panics::catch(|| serialize_value(&v)) {
        Ok(r) => r,
        Err(p) => {
            vfail(&mut out, "c20:encode-panic".into(), format!("serialize_value: {}", p.describe()));
            return out;
        }
    };
    out.enc_len = enc.as_ref().ok().map(|b| b.len());
    let mut errorv_as_unit = false;
    if !info.bad.is_empty() {
        if ffi.is_err() && enc.is_err() {
            out.refused = true;
            return out;
        }
        let who = match (ffi.is_ok(), enc.is_ok()) {
            (true, true) => "to_ffi_value and serialize_value both return Ok",
            (true, false) => "to_ffi_value returns Ok (serialize_value refuses)",
            _ => "serialize_value returns Ok (to_ffi_value refuses)",
        };
        if let Some((b, d)) = info.bad.iter().find(|(b, _)| *b != "ErrorV") {
            vfail(&mut out, format!("c20:refused-value-accepted:{b}"), format!("the value contains a {b} at depth {d}, yet {who}"));
            return out;
        }
        // only ErrorV nodes: held if they arrive intact, otherwise they were silently altered
        let intact = match (&ffi, &enc) {
            (Ok(f), Ok(bytes)) => {
                let a = panics::catch(|| f.clone().to_value()).ok().map(|v2| cmp_value(mv, &v2, &mut String::new(), false).is_ok()).unwrap_or(false);
                let b = panics::catch(|| deserialize_value(bytes)).ok().and_then(|r| r.ok()).map(|v2| cmp_value(mv, &v2, &mut String::new(), false).is_ok()).unwrap_or(false);
                a && b
            }
            _ => false,
        };
        if intact {
            out.extra.push("errorv-crossed-intact");
            return out;
        }
        if !tolerate_errorv {
            let d = info.bad[0].1;
            vfail(
                &mut out,
                "c20:refused-value-accepted:ErrorV".into(),
                format!("the value contains Value::ErrorV at depth {d}; {who} and the ErrorV node does not come back as ErrorV (FfiValue::ErrorV decodes to Value::Unit): neither refused nor preserved"),
            );
            return out;
        }
        out.known_errorv = true;
        errorv_as_unit = true;
    }
    // transportable (or tolerated): both encoders must accept
    let ffi = match ffi {
        Ok(f) => f,
        Err(e) => {
            vfail(&mut out, format!("c20:transportable-value-refused:{root}"), format!("to_ffi_value refused a value made of transportable variants only: {e}"));
            return out;
        }
    };
    let bytes = match enc {
        Ok(b) => b,
        Err(e) => {
            vfail(&mut out, format!("c20:transportable-value-refused:{root}"), format!("serialize_value refused a value made of transportable variants only: {e}"));
            return out;
        }
    };
    match panics::catch(|| ffi.to_value()) {
        Err(p) => vfail(&mut out, "c20:decode-panic".into(), format!("FfiValue::to_value: {}", p.describe())),
        Ok(v2) => {
            if let Err(m) = cmp_value(mv, &v2, &mut String::new(), errorv_as_unit) {
                let (s, msg) = mismatch_sig("value-roundtrip-mismatch", &m);
                vfail(&mut out, s, format!("to_ffi_value().to_value(): {msg}"));
            }
        }
    }
    match panics::catch(|| deserialize_value(&bytes)) {
        Err(p) => vfail(&mut out, "c20:decode-panic".into(), format!("deserialize_value on a valid encoding: {}", p.describe())),
        Ok(Err(e)) => vfail(&mut out, format!("c20:valid-encoding-rejected:{root}"), format!("deserialize_value rejects the output of serialize_value: {e}")),
        Ok(Ok(v2)) => {
            if let Err(m) = cmp_value(mv, &v2, &mut String::new(), errorv_as_unit) {
                let (s, msg) = mismatch_sig("value-roundtrip-mismatch", &m);
                vfail(&mut out, s, format!("deserialize_value(serialize_value(v)): {msg}"));
            }
        }
    }
    out
}

/// macro argument lists through `serialize_macro_args` / `deserialize_macro_args`
fn check_args(args: &[(MV, MT)], infos: &[Info], tolerate_errorv: bool) -> Verdict {
    let mut out = Verdict::default();
    let built: Vec<(Value, TypeNodeId)> = args.iter().map(|(v, t)| (build(v), build_type(t).into_id())).collect();
    let enc = match panics::catch(|| serialize_macro_args(&built)) {
        Ok(r) => r,
        Err(p) => {
            vfail(&mut out, "c20:encode-panic".into(), format!("serialize_macro_args: {}", p.describe()));
            return out;
        }
    };
    out.enc_len = enc.as_ref().ok().map(|b| b.len());
    let mut errorv_as_unit = false;
    let bad: Vec<(usize, &'static str, usize)> = infos.iter().enumerate().flat_map(|(i, inf)| inf.bad.iter().map(move |(b, d)| (i, *b, *d))).collect();
    if !bad.is_empty() {
        if enc.is_err() {
            out.refused = true;
            return out;
        }
        if let Some((i, b, d)) = bad.iter().find(|(_, b, _)| *b != "ErrorV") {
            vfail(&mut out, format!("c20:refused-value-accepted:{b}"), format!("argument #{i} contains a {b} at depth {d}, yet serialize_macro_args returns Ok"));
            return out;
        }
        let intact = enc.as_ref().ok().and_then(|bytes| panics::catch(|| deserialize_macro_args(bytes)).ok()).and_then(|r| r.ok()).map(|dec| dec.len() == args.len() && args.iter().zip(&dec).all(|((m, _), (v2, _))| cmp_value(m, v2, &mut String::new(), false).is_ok())).unwrap_or(false);
        if intact {
            out.extra.push("errorv-crossed-intact");
        } else if !tolerate_errorv {
            let (i, _, d) = bad[0];
            vfail(&mut out, "c20:refused-value-accepted:ErrorV".into(), format!("argument #{i} contains Value::ErrorV at depth {d}; serialize_macro_args returns Ok and the node does not come back as ErrorV (decodes to Value::Unit)"));
            return out;
        } else {
            out.known_errorv = true;
            errorv_as_unit = true;
        }
    }
    let bytes = match enc {
        Ok(b) => b,
        Err(e) => {
            let root = args.first().map(|(v, _)| mv_name(v)).unwrap_or("Empty");
            vfail(&mut out, format!("c20:transportable-value-refused:{root}"), format!("serialize_macro_args refused arguments made of transportable variants only: {e}"));
            return out;
        }
    };
    match panics::catch(|| deserialize_macro_args(&bytes)) {
        Err(p) => vfail(&mut out, "c20:decode-panic".into(), format!("deserialize_macro_args on a valid encoding: {}", p.describe())),
        Ok(Err(e)) => vfail(&mut out, "c20:valid-encoding-rejected:Args".into(), format!("deserialize_macro_args rejects the output of serialize_macro_args: {e}")),
        Ok(Ok(dec)) => {
            if dec.len() != args.len() {
                vfail(&mut out, "c20:args-roundtrip-mismatch:length".into(), format!("{} arguments encoded, {} decoded", args.len(), dec.len()));
                return out;
            }
            for (i, ((m, t), (v2, id))) in args.iter().zip(&dec).enumerate() {
                if let Err(mi) = cmp_value(m, v2, &mut format!("#{i}"), errorv_as_unit) {
                    let (s, msg) = mismatch_sig("value-roundtrip-mismatch", &mi);
                    vfail(&mut out, s, format!("macro argument value: {msg}"));
                }
                if let Err(mi) = cmp_type_id(t, *id, &mut format!("#{i}")) {
                    let (s, msg) = mismatch_sig("type-roundtrip-mismatch", &mi);
                    vfail(&mut out, s, format!("macro argument type: {msg}"));
                }
            }
        }
    }
    out
}

// ---- positional transcoding of serde_json output (imitates a non-self-describing format)

/// `{"0": x}` -> `x`, `{"0":a,"1":b,..}` -> `[a,b,..]`, anything else unchanged
fn unwrap_fields(j: &J) -> J {
    if let J::Object(m) = j {
        let n = m.len();
        if n > 0 && (0..n).all(|i| m.contains_key(&i.to_string())) {
            if n == 1 {
                return m["0"].clone();
            }
            return J::Array((0..n).map(|i| m[&i.to_string()].clone()).collect());
        }
    }
    j.clone()
}

fn transcode_type(j: &J, lower: bool) -> J {
    let key = |k: &str| if lower { k.to_lowercase() } else { k.to_string() };
    match j {
        J::String(s) => J::String(key(s)),
        J::Object(m) if m.len() == 1 => {
            let (k, v) = m.iter().next().unwrap();
            let mut o = Map::new();
            o.insert(key(k), unwrap_fields(v));
            J::Object(o)
        }
        _ => j.clone(),
    }
}

fn transcode_value(j: &J) -> J {
    match j {
        J::Object(m) if m.len() == 1 => {
            let (k, v) = m.iter().next().unwrap();
            let x = unwrap_fields(v);
            let inner = match (k.as_str(), &x) {
                ("Array" | "Tuple", J::Array(xs)) => J::Array(xs.iter().map(transcode_value).collect()),
                ("Record", J::Array(xs)) => J::Array(
                    xs.iter()
                        .map(|p| match p {
                            J::Array(kv) if kv.len() == 2 => J::Array(vec![kv[0].clone(), transcode_value(&kv[1])]),
                            o => o.clone(),
                        })
                        .collect(),
                ),
                ("TaggedUnion", J::Array(tv)) if tv.len() == 2 => J::Array(vec![tv[0].clone(), transcode_value(&tv[1])]),
                _ => x,
            };
            let mut o = Map::new();
            o.insert(k.clone(), inner);
            J::Object(o)
        }
        _ => j.clone(),
    }
}

/// A type: (a) its `TypeNodeId` through the real FFI encoding, (b) the hand-written `Type` serde
/// through serde_json + positional transcoding.
fn check_type(mt: &MT) -> Verdict {
    let mut out = Verdict::default();
    let name = mt_name(mt);
    let ty = build_type(mt);
    let id = ty.clone().into_id();
    // (a)
    let args = vec![(Value::Unit, id)];
    match panics::catch(|| serialize_macro_args(&args)) {
        Err(p) => vfail(&mut out, "c20:encode-panic".into(), format!("serialize_macro_args: {}", p.describe())),
        Ok(Err(e)) => vfail(&mut out, format!("c20:transportable-type-refused:{name}"), format!("serialize_macro_args refuses the type id: {e}")),
        Ok(Ok(bytes)) => {
            out.enc_len = Some(bytes.len());
            match panics::catch(|| deserialize_macro_args(&bytes)) {
                Err(p) => vfail(&mut out, "c20:decode-panic".into(), format!("deserialize_macro_args on a valid encoding: {}", p.describe())),
                Ok(Err(e)) => vfail(&mut out, format!("c20:valid-type-encoding-rejected:{name}"), format!("deserialize_macro_args rejects its own output: {e}")),
                Ok(Ok(dec)) => {
                    if dec.len() != 1 {
                        vfail(&mut out, "c20:args-roundtrip-mismatch:length".into(), format!("1 argument encoded, {} decoded", dec.len()));
                    } else if let Err(m) = cmp_type_id(mt, dec[0].1, &mut String::new()) {
                        let (s, msg) = mismatch_sig("type-roundtrip-mismatch", &m);
                        vfail(&mut out, s, format!("TypeNodeId through serialize_macro_args: {msg}"));
                    }
                }
            }
        }
    }
    if out.fail.is_some() {
        return out;
    }
    // (b)
    let refused_root = matches!(mt, MT::IVar(..) | MT::Scheme(_));
    match panics::catch(|| serde_json::to_value(&ty)) {
        Err(p) => vfail(&mut out, "c20:encode-panic".into(), format!("Type::serialize: {}", p.describe())),
        Ok(Err(e)) => {
            if refused_root {
                out.refused = true;
            } else {
                vfail(&mut out, format!("c20:transportable-type-refused:{name}"), format!("the hand-written Serialize refuses a {name}: {e}"));
            }
        }
        Ok(Ok(j)) => {
            if refused_root {
                vfail(&mut out, format!("c20:refused-type-accepted:{name}"), format!("the hand-written Serialize accepts a {name} (documented as not serialisable): {j}"));
                return out;
            }
            let mut last_err = String::new();
            let mut decoded = None;
            for lower in [true, false] {
                let j2 = transcode_type(&j, lower);
                match panics::catch(|| serde_json::from_value::<Type>(j2.clone())) {
                    Err(p) => {
                        vfail(&mut out, "c20:decode-panic".into(), format!("Type::deserialize: {}", p.describe()));
                        return out;
                    }
                    Ok(Ok(t2)) => {
                        decoded = Some(t2);
                        break;
                    }
                    Ok(Err(e)) => last_err = format!("{e} (input {j2})"),
                }
            }
            match decoded {
                None => vfail(&mut out, format!("c20:valid-type-encoding-rejected:{name}"), format!("the hand-written Deserialize rejects the (positionally transcoded) output of Serialize {j}: {last_err}")),
                Some(t2) => {
                    if let Err(m) = cmp_type(mt, &t2, &mut String::new()) {
                        let (s, msg) = mismatch_sig("type-roundtrip-mismatch", &m);
                        vfail(&mut out, s, format!("hand-written Type serde (serde_json, positional transcoding): {msg}"));
                    }
                }
            }
        }
    }
    out
}

/// variants the hand-written `Value` serde refuses
fn hand_bad(v: &MV, depth: usize, out: &mut Vec<(&'static str, usize)>) {
    match v {
        MV::Closure(..) | MV::ExtFn(_) | MV::Store(_) => out.push((mv_name(v), depth)),
        MV::Array(xs) | MV::Tuple(xs) => xs.iter().for_each(|x| hand_bad(x, depth + 1, out)),
        MV::Record(fs) => fs.iter().for_each(|(_, x)| hand_bad(x, depth + 1, out)),
        MV::Tagged(_, x) => hand_bad(x, depth + 1, out),
        _ => {}
    }
}

/// hand-written `Value` serde (interpreter/serde_impl.rs) through serde_json + positional transcoding
fn check_hand_value(mv: &MV) -> Verdict {
    let mut out = Verdict::default();
    let root = mv_name(mv);
    let v = build(mv);
    let mut bad = vec![];
    hand_bad(mv, 1, &mut bad);
    match panics::catch(|| serde_json::to_value(&v)) {
        Err(p) => vfail(&mut out, "c20:encode-panic".into(), format!("Value::serialize: {}", p.describe())),
        Ok(Err(e)) => {
            if bad.is_empty() {
                vfail(&mut out, format!("c20:transportable-value-refused:{root}"), format!("the hand-written Value serde refuses a value without Closure/ExternalFn/Store: {e}"));
            } else {
                out.refused = true;
            }
        }
        Ok(Ok(j)) => {
            if let Some((b, d)) = bad.first() {
                vfail(&mut out, format!("c20:refused-value-accepted:{b}"), format!("hand-written Value serde: the value contains a {b} at depth {d}, yet Serialize returns Ok"));
                return out;
            }
            let j2 = transcode_value(&j);
            match panics::catch(|| serde_json::from_value::<Value>(j2.clone())) {
                Err(p) => vfail(&mut out, "c20:decode-panic".into(), format!("Value::deserialize: {}", p.describe())),
                Ok(Err(e)) => vfail(&mut out, format!("c20:valid-encoding-rejected:{root}"), format!("the hand-written Value Deserialize rejects the (positionally transcoded) output of Serialize: {e} (input {j2})")),
                Ok(Ok(v2)) => {
                    if let Err(m) = cmp_value(mv, &v2, &mut String::new(), false) {
                        let (s, msg) = mismatch_sig("value-roundtrip-mismatch", &m);
                        vfail(&mut out, s, format!("hand-written Value serde (serde_json, positional transcoding): {msg}"));
                    }
                }
            }
        }
    }
    out
}

/// decoder robustness: Ok or Err, never a panic.  Decoded ids are not dereferenced.
fn check_bytes(bytes: &[u8]) -> (Option<(String, String)>, bool, bool) {
    let a = panics::catch(|| deserialize_value(bytes).map(|_| ()));
    let b = panics::catch(|| deserialize_macro_args(bytes).map(|_| ()));
    let fail = match (&a, &b) {
        (Err(p), _) => Some(("c20:decode-panic".to_string(), format!("deserialize_value: {}", p.describe()))),
        (_, Err(p)) => Some(("c20:decode-panic".to_string(), format!("deserialize_macro_args: {}", p.describe()))),
        _ => None,
    };
    (fail, matches!(a, Ok(Ok(()))), matches!(b, Ok(Ok(()))))
}

// ---------------------------------------------------------------- random generation

const MAX_LEVEL: usize = 5;
const MAX_WIDTH: usize = 6;

const SIMPLE_NUMS: [f64; 8] = [0.0, 1.0, -1.0, 0.5, 42.5, 440.0, -3.25, 48000.0];
const EDGE_BITS: [u64; 18] = [
    0x7ff8_0000_0000_0000, // canonical quiet NaN
    0x8000_0000_0000_0000, // -0.0
    0x7ff0_0000_0000_0000, // +inf
    0xfff0_0000_0000_0000, // -inf
    0x7ff8_0000_0000_0001, // quiet NaN with payload
    0x7ff0_0000_0000_0001, // signalling NaN
    0xfff8_0000_0000_0000, // negative quiet NaN
    0xffff_ffff_ffff_ffff, // all ones NaN
    0x7ff4_dead_beef_cafe, // signalling NaN with payload
    0x0000_0000_0000_0001, // smallest subnormal
    0x000f_ffff_ffff_ffff, // largest subnormal
    0x800f_ffff_ffff_ffff, // negative subnormal
    0x0010_0000_0000_0000, // MIN_POSITIVE
    0x7fef_ffff_ffff_ffff, // MAX
    0xffef_ffff_ffff_ffff, // MIN
    0x3cb0_0000_0000_0000, // EPSILON
    0x4340_0000_0000_0001, // 2^53 + 2
    0x3ff0_0000_0000_0001, // 1.0 + ulp
];

const STRINGS: [&str; 20] = ["a", "", "hello", "é", "e\u{301}", "日本語", "𝄞", "a\0b", "\0", "ﬁ", "\u{feff}", "\u{202e}abc", " \n\t", "\"\\", "ａ", "а", "a ", "A", "\u{10ffff}", "\u{7f}\u{80}"];
const KEYS: [&str; 12] = ["a", "b", "ａ", "а", "", "a ", "A", "key", "_", "0", "é", "e\u{301}"];
const CHARS: [char; 16] = ['a', 'b', 'z', '0', ' ', '_', '\0', '\n', 'é', 'ß', '日', '𝄞', '\u{301}', '"', '\\', '\u{fffd}'];

fn gen_num(g: &mut Gen) -> u64 {
    match g.weighted(&[5, 4, 2]) {
        0 => g.pick(&SIMPLE_NUMS).to_bits(),
        1 => *g.pick(&EDGE_BITS),
        _ => g.word(),
    }
}

fn gen_str(g: &mut Gen) -> String {
    match g.weighted(&[6, 3, 1]) {
        0 => g.pick(&STRINGS).to_string(),
        1 => g.vec(0, 12, |g| *g.pick(&CHARS)).into_iter().collect(),
        _ => {
            let unit = *g.pick(&["x", "é", "ab\0", "𝄞"]);
            unit.repeat(g.int(64, 400) as usize)
        }
    }
}

fn gen_key(g: &mut Gen) -> String {
    if g.bool(1, 8) { gen_str(g) } else { g.pick(&KEYS).to_string() }
}

fn gen_leaf(g: &mut Gen) -> MV {
    match g.weighted(&[2, 5, 4, 2]) {
        0 => MV::Unit,
        1 => MV::Num(gen_num(g)),
        2 => MV::Str(gen_str(g)),
        _ => MV::Code(g.usize_below(POOL_DESCR.len())),
    }
}

/// transportable value tree; `level` of the node being generated (root = 1)
fn gen_value(g: &mut Gen, level: usize, budget: &mut i64) -> MV {
    *budget -= 1;
    // the root is always an aggregate here (leaf roots are drawn in gen_root_value); level 2 rarely stops
    if level >= MAX_LEVEL || *budget <= 0 || (level > 1 && g.bool(if level == 2 { 1 } else { 2 }, 5)) {
        return gen_leaf(g);
    }
    match g.below(4) {
        0 => MV::Array(g.vec(0, MAX_WIDTH, |g| gen_value(g, level + 1, budget))),
        1 => MV::Tuple(g.vec(0, MAX_WIDTH, |g| gen_value(g, level + 1, budget))),
        2 => MV::Record(g.vec(0, MAX_WIDTH, |g| {
            let k = gen_key(g);
            (k, gen_value(g, level + 1, budget))
        })),
        _ => {
            let tag = match g.below(4) {
                0 => g.below(8),
                1 => u64::MAX,
                2 => u32::MAX as u64 + 1,
                _ => g.word(),
            };
            MV::Tagged(tag, Box::new(gen_value(g, level + 1, budget)))
        }
    }
}

fn gen_root_value(g: &mut Gen) -> MV {
    let mut budget = g.int(1, 48);
    // make most roots aggregates
    if g.bool(1, 6) {
        return gen_leaf(g);
    }
    let mut v = gen_value(g, 1, &mut budget);
    if mv_is_leaf(&v) && g.bool(3, 4) {
        v = MV::Tuple(vec![v, gen_leaf(g)]);
    }
    v
}

fn mv_is_leaf(v: &MV) -> bool {
    matches!(v, MV::Unit | MV::Num(_) | MV::Str(_) | MV::Code(_))
}

fn gen_small_value(g: &mut Gen) -> MV {
    let mut b = 4;
    gen_value(g, MAX_LEVEL - 1, &mut b)
}

/// a node that may not cross the boundary
fn gen_bad(g: &mut Gen) -> MV {
    let name = |g: &mut Gen| g.pick(&["f", "", "loop", "日本"]).to_string();
    match g.below(6) {
        0 => MV::Fixpoint(name(g), g.usize_below(POOL_DESCR.len())),
        1 => MV::ErrorV(g.usize_below(POOL_DESCR.len())),
        2 => MV::ExtFn(name(g)),
        3 => MV::Store(Box::new(gen_small_value(g))),
        4 => {
            let names = g.vec(0, 2, |g| g.pick(&KEYS).to_string());
            let env = g.vec(0, 2, |g| {
                let k = g.pick(&KEYS).to_string();
                (k, gen_small_value(g))
            });
            MV::Closure(g.usize_below(POOL_DESCR.len()), names, env)
        }
        _ => {
            let mut b = 4;
            MV::Ctor(g.below(5), name(g), gen_type(g, 4, 5, &mut b, false))
        }
    }
}

fn count_nodes(v: &MV) -> usize {
    1 + match v {
        MV::Array(xs) | MV::Tuple(xs) => xs.iter().map(count_nodes).sum(),
        MV::Record(fs) => fs.iter().map(|(_, x)| count_nodes(x)).sum(),
        MV::Tagged(_, x) => count_nodes(x),
        _ => 0,
    }
}

/// replace the k-th node (pre-order over transportable structure) by `new`
fn replace_nth(v: &mut MV, k: &mut usize, new: &mut Option<MV>) {
    if new.is_none() {
        return;
    }
    if *k == 0 {
        *v = new.take().unwrap();
        return;
    }
    *k -= 1;
    match v {
        MV::Array(xs) | MV::Tuple(xs) => xs.iter_mut().for_each(|x| replace_nth(x, k, new)),
        MV::Record(fs) => fs.iter_mut().for_each(|(_, x)| replace_nth(x, k, new)),
        MV::Tagged(_, x) => replace_nth(x, k, new),
        _ => {}
    }
}

fn plant_bad(g: &mut Gen, v: &mut MV) {
    let n = count_nodes(v);
    let mut k = g.usize_below(n);
    let mut new = Some(gen_bad(g));
    replace_nth(v, &mut k, &mut new);
}

fn gen_type(g: &mut Gen, level: usize, max_level: usize, budget: &mut i64, allow_refused: bool) -> MT {
    *budget -= 1;
    let name = |g: &mut Gen| g.pick(&["T", "Option", "", "型", "a b", "List"]).to_string();
    if level >= max_level || *budget <= 0 || g.bool(2, 5) {
        return match g.below(if allow_refused { 8 } else { 6 }) {
            0 => MT::Prim(2),
            1 => MT::Prim(g.below(4) as u8),
            2 => MT::Any,
            3 => MT::Failure,
            4 => MT::Unknown,
            5 => MT::Alias(name(g)),
            6 => MT::IVar(g.below(100), g.below(4)),
            _ => MT::Scheme(g.below(100)),
        };
    }
    let mut sub = |g: &mut Gen| Box::new(gen_type(g, level + 1, max_level, budget, allow_refused));
    match g.below(9) {
        0 => MT::Array(sub(g)),
        1 => {
            let xs = g.vec(0, MAX_WIDTH, |g| *sub(g));
            MT::Tuple(xs)
        }
        2 => {
            let fs = g.vec(0, MAX_WIDTH, |g| {
                let k = gen_key(g);
                let t = *sub(g);
                (k, t, g.coin())
            });
            MT::Record(fs)
        }
        3 => {
            let a = sub(g);
            let r = sub(g);
            MT::Func(a, r)
        }
        4 => MT::Ref(sub(g)),
        5 => MT::Code(sub(g)),
        6 => {
            let xs = g.vec(0, MAX_WIDTH, |g| *sub(g));
            MT::Union(xs)
        }
        7 => {
            let n = name(g);
            let vs = g.vec(0, MAX_WIDTH, |g| {
                let k = g.pick(&["A", "B", "None", "Some", "", "Ａ"]).to_string();
                let p = if g.coin() { Some(*sub(g)) } else { None };
                (k, p)
            });
            MT::UserSum(n, vs)
        }
        _ => MT::Boxed(sub(g)),
    }
}

fn gen_root_type(g: &mut Gen, max_level: usize, allow_refused: bool) -> MT {
    let mut budget = g.int(1, 40);
    let mut t = gen_type(g, 1, max_level, &mut budget, allow_refused);
    if !matches!(t, MT::IVar(..) | MT::Scheme(_)) && walk_depth_t(&t) < 2 && g.bool(2, 3) {
        // leaf roots are over-represented by the budget rule: wrap most of them once
        t = match g.below(3) {
            0 => MT::Tuple(vec![t, MT::Prim(2)]),
            1 => MT::Func(Box::new(t), Box::new(MT::Prim(0))),
            _ => MT::Record(vec![("a".into(), t, true)]),
        };
    }
    if allow_refused && g.bool(1, 12) {
        // make sure the refused variants also occur at the root
        return if g.coin() { MT::IVar(g.below(100), g.below(4)) } else { MT::Scheme(g.below(100)) };
    }
    t
}

fn walk_depth_t(t: &MT) -> usize {
    let mut i = Info::default();
    walk_t(t, 1, &mut i);
    i.depth
}

fn strip_code(v: &mut MV) {
    match v {
        MV::Code(_) => *v = MV::Unit,
        MV::Array(xs) | MV::Tuple(xs) => xs.iter_mut().for_each(strip_code),
        MV::Record(fs) => fs.iter_mut().for_each(|(_, x)| strip_code(x)),
        MV::Tagged(_, x) => strip_code(x),
        _ => {}
    }
}

/// JSON cannot carry NaN/inf: clear the top exponent bit of non-finite numbers
fn make_finite(v: &mut MV) {
    match v {
        MV::Num(b) => {
            if !f64::from_bits(*b).is_finite() {
                *b &= !(1u64 << 62);
            }
        }
        MV::Array(xs) | MV::Tuple(xs) => xs.iter_mut().for_each(make_finite),
        MV::Record(fs) => fs.iter_mut().for_each(|(_, x)| make_finite(x)),
        MV::Tagged(_, x) => make_finite(x),
        MV::Store(x) => make_finite(x),
        MV::Closure(_, _, env) => env.iter_mut().for_each(|(_, x)| make_finite(x)),
        _ => {}
    }
}

fn le32(x: u32) -> [u8; 4] {
    x.to_le_bytes()
}

/// byte strings for the decoder: (bytes, mode label)
fn gen_bytes(g: &mut Gen) -> (Vec<u8>, &'static str) {
    let valid = |g: &mut Gen| -> Vec<u8> {
        let mut v = gen_root_value(g);
        strip_code(&mut v);
        if g.coin() {
            serialize_value(&build(&v)).unwrap_or_default()
        } else {
            let mut b = 6;
            let t = gen_type(g, 3, 5, &mut b, false);
            // the type key is process dependent: overwrite it with drawn numbers below
            let mut bytes = serialize_macro_args(&[(build(&v), build_type(&t).into_id())]).unwrap_or_default();
            let n = bytes.len();
            if n >= 8 {
                let idx = g.below(64) as u32;
                let ver = g.below(4) as u32;
                bytes[n - 8..n - 4].copy_from_slice(&le32(idx));
                bytes[n - 4..].copy_from_slice(&le32(ver));
            }
            bytes
        }
    };
    match g.below(6) {
        0 => (g.vec(0, 48, |g| g.below(256) as u8), "random"),
        1 => {
            // plausible header: a small variant index, then random bytes biased to small numbers
            let mut b = le32(g.below(11) as u32).to_vec();
            b.extend(g.vec(0, 40, |g| if g.bool(2, 3) { g.below(4) as u8 } else { g.below(256) as u8 }));
            (b, "tagged-random")
        }
        2 => {
            let mut b = valid(g);
            let n = g.usize_below(b.len() + 1);
            b.truncate(n);
            (b, "truncated")
        }
        3 => {
            let mut b = valid(g);
            if !b.is_empty() {
                for _ in 0..g.int(1, 3) {
                    let i = g.usize_below(b.len());
                    b[i] ^= 1 << g.below(8);
                }
            }
            (b, "bit-flipped")
        }
        4 => {
            let mut b = valid(g);
            if !b.is_empty() {
                for _ in 0..g.int(1, 2) {
                    let i = g.usize_below(b.len());
                    b[i] = *g.pick(&[0xffu8, 0x7f, 0x80, 0x00, 0x09, 0x0a]);
                }
            }
            (b, "byte-set")
        }
        _ => {
            // nest: k times (TaggedUnion tag | Array of 1 | Tuple of huge length), then a valid encoding
            let k = g.int(1, 200);
            let mut b = vec![];
            for _ in 0..k {
                match g.below(3) {
                    0 => {
                        b.extend(le32(8));
                        b.extend(g.word().to_le_bytes());
                    }
                    1 => {
                        b.extend(le32(4));
                        b.extend(1u64.to_le_bytes());
                    }
                    _ => {
                        b.extend(le32(5));
                        b.extend((*g.pick(&[1u64, u64::MAX, 1 << 40])).to_le_bytes());
                    }
                }
            }
            b.extend(valid(g));
            (b, "nested")
        }
    }
}

// ---------------------------------------------------------------- exhaustive enumeration of small values

const SMALL_LEAVES: usize = 8;
const SMALL_KEYS: [&str; 2] = ["a", "а"];
const SMALL_TAGS: [u64; 2] = [0, u64::MAX];

fn small_leaf(i: u64) -> MV {
    match i {
        0 => MV::Unit,
        1 => MV::Num(0),
        2 => MV::Num(0x8000_0000_0000_0000),
        3 => MV::Num(0x7ff8_0000_0000_0001),
        4 => MV::Str(String::new()),
        5 => MV::Str("é\0".into()),
        6 => MV::Code(0),
        _ => MV::Fixpoint("f".into(), 0),
    }
}

/// number of sequences of length 0..=w over n symbols
fn seqs(n: u64, w: u32) -> u64 {
    (0..=w).map(|k| n.pow(k)).sum()
}

/// number of values of nesting depth <= widths.len() (widths[0] is the width at the root)
fn small_count(widths: &[u32]) -> u64 {
    let n0 = SMALL_LEAVES as u64;
    match widths.split_first() {
        None => n0,
        Some((w, rest)) => {
            let c = small_count(rest);
            n0 + 2 * seqs(c, *w) + seqs(2 * c, *w) + 2 * c
        }
    }
}

fn small_seq(mut idx: u64, n: u64, w: u32) -> Vec<u64> {
    for k in 0..=w {
        let block = n.pow(k);
        if idx < block {
            let mut out = vec![];
            for _ in 0..k {
                out.push(idx % n);
                idx /= n;
            }
            return out;
        }
        idx -= block;
    }
    vec![]
}

fn small_value(mut idx: u64, widths: &[u32]) -> MV {
    let n0 = SMALL_LEAVES as u64;
    let Some((w, rest)) = widths.split_first() else { return small_leaf(idx % n0) };
    if idx < n0 {
        return small_leaf(idx);
    }
    idx -= n0;
    let c = small_count(rest);
    let s = seqs(c, *w);
    if idx < s {
        return MV::Array(small_seq(idx, c, *w).into_iter().map(|i| small_value(i, rest)).collect());
    }
    idx -= s;
    if idx < s {
        return MV::Tuple(small_seq(idx, c, *w).into_iter().map(|i| small_value(i, rest)).collect());
    }
    idx -= s;
    let sr = seqs(2 * c, *w);
    if idx < sr {
        return MV::Record(small_seq(idx, 2 * c, *w).into_iter().map(|i| (SMALL_KEYS[(i % 2) as usize].to_string(), small_value(i / 2, rest))).collect());
    }
    idx -= sr;
    MV::Tagged(SMALL_TAGS[(idx % 2) as usize], Box::new(small_value((idx / 2) % c, rest)))
}

fn small_widths(tier: Tier) -> &'static [u32] {
    match tier {
        Tier::Quick => &[1, 2],
        Tier::Thorough => &[2, 2],
    }
}

// ---------------------------------------------------------------- shrinking of direct inputs

fn shrink_v(v: &MV) -> Vec<MV> {
    let mut out = vec![];
    let kids: Vec<&MV> = match v {
        MV::Array(xs) | MV::Tuple(xs) => xs.iter().collect(),
        MV::Record(fs) => fs.iter().map(|(_, x)| x).collect(),
        MV::Tagged(_, x) | MV::Store(x) => vec![x.as_ref()],
        MV::Closure(_, _, env) => env.iter().map(|(_, x)| x).collect(),
        _ => vec![],
    };
    // promote a child
    for k in &kids {
        out.push((*k).clone());
    }
    // drop an element
    match v {
        MV::Array(xs) | MV::Tuple(xs) => {
            for i in 0..xs.len() {
                let mut ys = xs.clone();
                ys.remove(i);
                out.push(if matches!(v, MV::Array(_)) { MV::Array(ys) } else { MV::Tuple(ys) });
            }
        }
        MV::Record(fs) => {
            for i in 0..fs.len() {
                let mut gs = fs.clone();
                gs.remove(i);
                out.push(MV::Record(gs));
            }
            for i in 0..fs.len() {
                if fs[i].0 != "a" {
                    let mut gs = fs.clone();
                    gs[i].0 = "a".into();
                    out.push(MV::Record(gs));
                }
            }
        }
        MV::Closure(i, names, env) => {
            if !names.is_empty() {
                out.push(MV::Closure(*i, vec![], env.clone()));
            }
            for k in 0..env.len() {
                let mut e = env.clone();
                e.remove(k);
                out.push(MV::Closure(*i, names.clone(), e));
            }
        }
        MV::Tagged(t, x) if *t != 0 => out.push(MV::Tagged(0, x.clone())),
        MV::Num(b) if *b != 0 => out.push(MV::Num(0)),
        MV::Str(s) if !s.is_empty() => {
            out.push(MV::Str(String::new()));
            out.push(MV::Str(s.chars().take(s.chars().count() / 2).collect()));
            out.push(MV::Str(s.chars().skip(1).collect()));
        }
        MV::Code(i) | MV::ErrorV(i) if *i != 0 => out.push(if matches!(v, MV::Code(_)) { MV::Code(0) } else { MV::ErrorV(0) }),
        MV::Ctor(t, n, ty) => {
            for s in shrink_t(ty) {
                out.push(MV::Ctor(*t, n.clone(), s));
            }
        }
        _ => {}
    }
    if !mv_is_leaf(v) && !mv_is_bad(v) {
        out.push(MV::Unit);
    }
    // shrink inside a child
    let with_child = |i: usize, s: MV| -> MV {
        let mut c = v.clone();
        match &mut c {
            MV::Array(xs) | MV::Tuple(xs) => xs[i] = s,
            MV::Record(fs) => fs[i].1 = s,
            MV::Tagged(_, x) | MV::Store(x) => **x = s,
            MV::Closure(_, _, env) => env[i].1 = s,
            _ => {}
        }
        c
    };
    for (i, k) in kids.iter().enumerate() {
        for s in shrink_v(k) {
            out.push(with_child(i, s));
        }
    }
    out
}

fn shrink_t(t: &MT) -> Vec<MT> {
    let mut out = vec![];
    let kids: Vec<&MT> = match t {
        MT::Array(x) | MT::Ref(x) | MT::Code(x) | MT::Boxed(x) => vec![x.as_ref()],
        MT::Tuple(xs) | MT::Union(xs) => xs.iter().collect(),
        MT::Record(fs) => fs.iter().map(|(_, x, _)| x).collect(),
        MT::Func(a, r) => vec![a.as_ref(), r.as_ref()],
        MT::UserSum(_, vs) => vs.iter().filter_map(|(_, x)| x.as_ref()).collect(),
        _ => vec![],
    };
    for k in &kids {
        out.push((*k).clone());
    }
    match t {
        MT::Tuple(xs) | MT::Union(xs) => {
            for i in 0..xs.len() {
                let mut ys = xs.clone();
                ys.remove(i);
                out.push(if matches!(t, MT::Tuple(_)) { MT::Tuple(ys) } else { MT::Union(ys) });
            }
        }
        MT::Record(fs) => {
            for i in 0..fs.len() {
                let mut gs = fs.clone();
                gs.remove(i);
                out.push(MT::Record(gs));
            }
            for i in 0..fs.len() {
                if fs[i].2 {
                    let mut gs = fs.clone();
                    gs[i].2 = false;
                    out.push(MT::Record(gs));
                }
            }
        }
        MT::UserSum(n, vs) => {
            for i in 0..vs.len() {
                let mut ws = vs.clone();
                ws.remove(i);
                out.push(MT::UserSum(n.clone(), ws));
            }
            for i in 0..vs.len() {
                if vs[i].1.is_some() {
                    let mut ws = vs.clone();
                    ws[i].1 = None;
                    out.push(MT::UserSum(n.clone(), ws));
                }
            }
        }
        _ => {}
    }
    if !kids.is_empty() {
        out.push(MT::Prim(2));
    }
    // shrink inside children (only for the single-child and list shapes)
    match t {
        MT::Array(x) | MT::Ref(x) | MT::Code(x) | MT::Boxed(x) => {
            for s in shrink_t(x) {
                out.push(match t {
                    MT::Array(_) => MT::Array(Box::new(s)),
                    MT::Ref(_) => MT::Ref(Box::new(s)),
                    MT::Code(_) => MT::Code(Box::new(s)),
                    _ => MT::Boxed(Box::new(s)),
                });
            }
        }
        MT::Tuple(xs) | MT::Union(xs) => {
            for i in 0..xs.len() {
                for s in shrink_t(&xs[i]) {
                    let mut ys = xs.clone();
                    ys[i] = s;
                    out.push(if matches!(t, MT::Tuple(_)) { MT::Tuple(ys) } else { MT::Union(ys) });
                }
            }
        }
        MT::Record(fs) => {
            for i in 0..fs.len() {
                for s in shrink_t(&fs[i].1) {
                    let mut gs = fs.clone();
                    gs[i].1 = s;
                    out.push(MT::Record(gs));
                }
            }
        }
        MT::Func(a, r) => {
            for s in shrink_t(a) {
                out.push(MT::Func(Box::new(s), r.clone()));
            }
            for s in shrink_t(r) {
                out.push(MT::Func(a.clone(), Box::new(s)));
            }
        }
        MT::UserSum(n, vs) => {
            for i in 0..vs.len() {
                if let Some(x) = &vs[i].1 {
                    for s in shrink_t(x) {
                        let mut ws = vs.clone();
                        ws[i].1 = Some(s);
                        out.push(MT::UserSum(n.clone(), ws));
                    }
                }
            }
        }
        _ => {}
    }
    out
}

// ---------------------------------------------------------------- assembling case results

fn hex(b: &[u8]) -> String {
    let mut s = String::with_capacity(b.len() * 2);
    for x in b {
        let _ = write!(s, "{x:02x}");
    }
    s
}
fn unhex(s: &str) -> Option<Vec<u8>> {
    if s.len() % 2 != 0 {
        return None;
    }
    (0..s.len() / 2).map(|i| u8::from_str_radix(s.get(2 * i..2 * i + 2)?, 16).ok()).collect()
}

fn apply(mut r: CaseResult, v: &Verdict, labels: Vec<String>, mode: &str) -> CaseResult {
    r.classes = labels;
    r.classes.push(format!("mode:{mode}"));
    if v.refused {
        r.classes.push("refused".into());
    }
    if v.known_errorv {
        r.classes.push("known:errorv".into());
        r.count(&format!("excluded_by_known_finding:{KF_ERRORV}"), 1);
    }
    for e in &v.extra {
        r.classes.push(e.to_string());
    }
    r
}

fn finish_value(mv: &MV, mode: &str, cx: &Cx) -> CaseResult {
    let direct = || json!({"kind": if mode == "handvalue" { "handvalue" } else { "value" }, "v": v_json(mv)});
    if cx.dry {
        let mut r = CaseResult::discard("dry");
        r.render = Some(direct());
        r.direct = Some(direct());
        return r;
    }
    let mut s = String::from("v|");
    show_v(mv, &mut s);
    let hash = hash64(s.as_bytes());
    let mut info = Info::default();
    walk_v(mv, 1, false, &mut info);
    let verdict = if mode == "handvalue" { check_hand_value(mv) } else { check_value(mv, &info, !cx.strict && cx.excluded(KF_ERRORV)) };
    let r = match &verdict.fail {
        Some((sig, msg)) => CaseResult::fail(hash, sig.clone(), msg.clone()),
        None => CaseResult::held(hash),
    };
    let mut labels = finish_labels(&mut info);
    if let Some((_, d)) = info.bad.first() {
        labels.push(format!("bad-node-depth:{d}"));
    }
    let mut r = apply(r, &verdict, labels, mode);
    r.nontrivial = info.depth >= 2 || info.edge;
    if cx.render || r.is_fail() {
        r.render = Some(json!({"value": v_json(mv), "depth": info.depth, "nodes": info.nodes, "encoded_bytes": verdict.enc_len, "non_transportable": info.bad.iter().map(|(b, d)| format!("{b}@{d}")).collect::<Vec<_>>()}));
        r.direct = Some(direct());
    }
    r
}

fn finish_args(args: &[(MV, MT)], cx: &Cx) -> CaseResult {
    let direct = || json!({"kind": "args", "args": args.iter().map(|(v, t)| json!([v_json(v), t_json(t)])).collect::<Vec<_>>()});
    if cx.dry {
        let mut r = CaseResult::discard("dry");
        r.render = Some(direct());
        r.direct = Some(direct());
        return r;
    }
    let mut s = format!("a{}|", args.len());
    for (v, t) in args {
        show_v(v, &mut s);
        s.push('|');
        show_t(t, &mut s);
        s.push('|');
    }
    let hash = hash64(s.as_bytes());
    let mut infos = vec![];
    let mut labels: Vec<String> = vec![];
    let (mut depth, mut edge, mut nodes) = (0, false, 0);
    for (v, t) in args {
        let mut info = Info::default();
        walk_v(v, 1, false, &mut info);
        let mut ti = Info::default();
        walk_t(t, 1, &mut ti);
        depth = depth.max(info.depth).max(ti.depth);
        edge |= info.edge || ti.edge;
        nodes += info.nodes + ti.nodes;
        labels.extend(finish_labels(&mut info));
        labels.extend(finish_labels(&mut ti));
        infos.push(info);
    }
    labels.sort();
    labels.dedup();
    labels.push(if args.is_empty() { "args:empty".into() } else if args.len() == 1 { "args:one".to_string() } else { "args:many".to_string() });
    let verdict = check_args(args, &infos, !cx.strict && cx.excluded(KF_ERRORV));
    let r = match &verdict.fail {
        Some((sig, msg)) => CaseResult::fail(hash, sig.clone(), msg.clone()),
        None => CaseResult::held(hash),
    };
    let mut r = apply(r, &verdict, labels, "args");
    r.nontrivial = !args.is_empty() && (depth >= 2 || edge || args.len() >= 2);
    if cx.render || r.is_fail() {
        r.render = Some(json!({"args": args.iter().map(|(v, t)| json!({"value": v_json(v), "type": t_json(t)})).collect::<Vec<_>>(), "nodes": nodes, "encoded_bytes": verdict.enc_len}));
        r.direct = Some(direct());
    }
    r
}

fn finish_type(mt: &MT, cx: &Cx) -> CaseResult {
    let direct = || json!({"kind": "type", "t": t_json(mt)});
    if cx.dry {
        let mut r = CaseResult::discard("dry");
        r.render = Some(direct());
        r.direct = Some(direct());
        return r;
    }
    let mut s = String::from("t|");
    show_t(mt, &mut s);
    let hash = hash64(s.as_bytes());
    let mut info = Info::default();
    walk_t(mt, 1, &mut info);
    let verdict = check_type(mt);
    let r = match &verdict.fail {
        Some((sig, msg)) => CaseResult::fail(hash, sig.clone(), msg.clone()),
        None => CaseResult::held(hash),
    };
    let labels = finish_labels(&mut info);
    let mut r = apply(r, &verdict, labels, "types");
    if verdict.refused {
        r.classes.push("refused-type".into());
    }
    r.nontrivial = info.depth >= 2 || info.edge;
    if cx.render || r.is_fail() {
        r.render = Some(json!({"type": t_json(mt), "depth": info.depth, "nodes": info.nodes}));
        r.direct = Some(direct());
    }
    r
}

fn finish_bytes(bytes: &[u8], mode: &str, cx: &Cx) -> CaseResult {
    let direct = || json!({"kind": "bytes", "hex": hex(bytes)});
    if cx.dry {
        let mut r = CaseResult::discard("dry");
        r.render = Some(direct());
        r.direct = Some(direct());
        return r;
    }
    let hash = hash64(bytes);
    let (fail, ok_value, ok_args) = check_bytes(bytes);
    let mut r = match fail {
        Some((sig, msg)) => CaseResult::fail(hash, sig, msg),
        None => CaseResult::held(hash),
    };
    r.classes.push("mode:bytes".into());
    r.classes.push(format!("bytes:{mode}"));
    r.classes.push(if ok_value { "bytes:value-decodes".into() } else { "bytes:value-rejected".to_string() });
    r.classes.push(if ok_args { "bytes:args-decode".into() } else { "bytes:args-rejected".to_string() });
    r.nontrivial = bytes.len() >= 4;
    if cx.render || r.is_fail() {
        r.render = Some(json!({"hex": hex(bytes), "len": bytes.len(), "mode": mode, "decodes_as_value": ok_value, "decodes_as_args": ok_args}));
        r.direct = Some(direct());
    }
    r
}

impl Prop for C20 {
    fn id(&self) -> &'static str {
        "C20"
    }
    fn spaces(&self, tier: Tier) -> Vec<Space> {
        let small = small_count(small_widths(tier));
        let sz = |q: u64, t: u64| if tier == Tier::Quick { q } else { t };
        let chunk = sz(10_000, 100_000);
        vec![
            Space { name: "small", size: small, exhaustive: true, chunk: sz(4096, 100_000), case_timeout_s: 5.0, what: "every value of nesting depth <= 2 over 8 leaves (Unit, 0.0, -0.0, NaN with payload, \"\", \"é\\0\", Code, Fixpoint), arrays/tuples/records (keys Latin a / Cyrillic а)/tagged unions (tags 0, u64::MAX); inner width <= 2, outer width <= 1 (quick) / 2 (thorough)" },
            Space { name: "values", size: sz(600_000, 40_000_000), exhaustive: false, chunk, case_timeout_s: 5.0, what: "random transportable value trees (depth <= 5, width <= 6) through to_ffi_value/to_value and serialize_value/deserialize_value" },
            Space { name: "types", size: sz(250_000, 10_000_000), exhaustive: false, chunk, case_timeout_s: 5.0, what: "random type trees over all 16 Type variants: TypeNodeId through serialize_macro_args (bincode) and the hand-written Type serde through serde_json with positional transcoding" },
            Space { name: "args", size: sz(250_000, 15_000_000), exhaustive: false, chunk, case_timeout_s: 5.0, what: "random macro argument lists [(value, type)] of length 0-6 through serialize_macro_args/deserialize_macro_args (1 in 10 with a non-transportable node)" },
            Space { name: "refused", size: sz(250_000, 10_000_000), exhaustive: false, chunk, case_timeout_s: 5.0, what: "random value trees with one non-transportable node (Fixpoint, ErrorV, ExternalFn, Store, Closure, ConstructorFn) planted at a uniformly chosen node" },
            Space { name: "handvalue", size: sz(100_000, 5_000_000), exhaustive: false, chunk, case_timeout_s: 5.0, what: "hand-written Value serde (interpreter/serde_impl.rs) through serde_json with positional transcoding; finite numbers only; half of the cases carry Fixpoint/ErrorV/ConstructorFn (kept) or Closure/ExternalFn/Store (refused)" },
            Space { name: "bytes", size: sz(300_000, 15_000_000), exhaustive: false, chunk, case_timeout_s: 5.0, what: "decoder robustness: random bytes, tagged random bytes, truncated / bit-flipped / byte-overwritten valid encodings, up to 200 levels of nesting headers; both decoders must return without panicking" },
        ]
    }
    fn run(&self, space: &str, index: u64, g: &mut Gen, cx: &Cx) -> CaseResult {
        match space {
            "small" => finish_value(&small_value(index, small_widths(cx.tier)), "small", cx),
            "values" => finish_value(&gen_root_value(g), "values", cx),
            "types" => finish_type(&gen_root_type(g, MAX_LEVEL, true), cx),
            "args" => {
                let bad = g.bool(1, 10);
                let mut args = g.vec(0, MAX_WIDTH, |g| {
                    let v = gen_root_value(g);
                    let t = gen_root_type(g, 3, true);
                    (v, t)
                });
                if bad && !args.is_empty() {
                    let i = g.usize_below(args.len());
                    plant_bad(g, &mut args[i].0);
                }
                finish_args(&args, cx)
            }
            "refused" => {
                let mut v = gen_root_value(g);
                plant_bad(g, &mut v);
                finish_value(&v, "refused", cx)
            }
            "handvalue" => {
                let mut v = gen_root_value(g);
                if g.coin() {
                    plant_bad(g, &mut v);
                    if g.coin() {
                        plant_bad(g, &mut v);
                    }
                }
                make_finite(&mut v);
                finish_value(&v, "handvalue", cx)
            }
            _ => {
                let (b, mode) = gen_bytes(g);
                finish_bytes(&b, mode, cx)
            }
        }
    }
    fn run_direct(&self, input: &J, cx: &Cx) -> Option<CaseResult> {
        match input.get("kind")?.as_str()? {
            "value" => Some(finish_value(&v_parse(input.get("v")?)?, "direct", cx)),
            "handvalue" => Some(finish_value(&v_parse(input.get("v")?)?, "handvalue", cx)),
            "type" => Some(finish_type(&t_parse(input.get("t")?)?, cx)),
            "args" => {
                let args: Option<Vec<(MV, MT)>> = input.get("args")?.as_array()?.iter().map(|p| Some((v_parse(p.get(0)?)?, t_parse(p.get(1)?)?))).collect();
                Some(finish_args(&args?, cx))
            }
            "bytes" => Some(finish_bytes(&unhex(input.get("hex")?.as_str()?)?, "direct", cx)),
            _ => None,
        }
    }
    fn shrink_direct(&self, input: &J) -> Vec<J> {
        let kind = input.get("kind").and_then(|k| k.as_str()).unwrap_or("");
        match kind {
            "value" | "handvalue" => input.get("v").and_then(v_parse).map(|v| shrink_v(&v).into_iter().map(|s| json!({"kind": kind, "v": v_json(&s)})).collect()).unwrap_or_default(),
            "type" => input.get("t").and_then(t_parse).map(|t| shrink_t(&t).into_iter().map(|s| json!({"kind": "type", "t": t_json(&s)})).collect()).unwrap_or_default(),
            "args" => {
                let Some(args) = input.get("args").and_then(|a| a.as_array()).and_then(|a| a.iter().map(|p| Some((v_parse(p.get(0)?)?, t_parse(p.get(1)?)?))).collect::<Option<Vec<(MV, MT)>>>()) else { return vec![] };
                let mk = |a: &[(MV, MT)]| json!({"kind": "args", "args": a.iter().map(|(v, t)| json!([v_json(v), t_json(t)])).collect::<Vec<_>>()});
                let mut out = vec![];
                for i in 0..args.len() {
                    let mut a = args.clone();
                    a.remove(i);
                    out.push(mk(&a));
                }
                for i in 0..args.len() {
                    for s in shrink_v(&args[i].0) {
                        let mut a = args.clone();
                        a[i].0 = s;
                        out.push(mk(&a));
                    }
                    for s in shrink_t(&args[i].1) {
                        let mut a = args.clone();
                        a[i].1 = s;
                        out.push(mk(&a));
                    }
                }
                out
            }
            "bytes" => {
                let Some(b) = input.get("hex").and_then(|h| h.as_str()).and_then(unhex) else { return vec![] };
                let mut out = vec![];
                let mk = |b: &[u8]| json!({"kind": "bytes", "hex": hex(b)});
                let n = b.len();
                let mut w = n / 2;
                while w >= 1 {
                    let mut i = 0;
                    while i + w <= n {
                        let mut c = b.clone();
                        c.drain(i..i + w);
                        out.push(mk(&c));
                        i += w;
                    }
                    w /= 2;
                }
                for i in 0..n {
                    if b[i] != 0 {
                        let mut c = b.clone();
                        c[i] = 0;
                        out.push(mk(&c));
                    }
                }
                out
            }
            _ => vec![],
        }
    }
    fn rule(&self) -> String {
        "Cases are harness-side models of values (Unit, Number by bit pattern incl. NaN payloads/±inf/−0/subnormals/raw 64-bit draws, String incl. empty/non-ASCII/NUL/long, Array, Tuple, Record incl. duplicate and look-alike keys, TaggedUnion incl. tags > u32::MAX, Code from a pool of 8 interned expressions; plus the non-transportable Fixpoint, ErrorV, ExternalFn, Store, Closure, ConstructorFn), of types (all 16 Type variants, records with has_default, sum types with/without payloads, Intermediate, TypeScheme) and of macro argument lists. Trees have depth <= 5 and width <= 6. Exhaustive: every value of nesting depth <= 2 over 8 leaves. The repository value/type is built from the model, encoded, decoded, and the result compared against the model (numbers by to_bits, strings/keys by content, code by interner key or structural print, types structurally through to_type(), locations ignored). Transportable values must be accepted by to_ffi_value, serialize_value, serialize_macro_args and come back equal through to_value / deserialize_value / deserialize_macro_args; a value with a non-transportable node anywhere must be refused (Err) by all encoders (ErrorV: refused or preserved); TypeNodeIds must come back structurally equal; the hand-written Type/Value serde must refuse exactly the variants it documents (Intermediate, TypeScheme / Closure, ExternalFn, Store) and round-trip all others (through serde_json with positional transcoding). Decoders must return Ok/Err without panicking on arbitrary bytes. Non-trivial = depth >= 2 or an edge scalar (NaN, inf, −0, subnormal, extreme magnitude, empty/non-ASCII/NUL/long string); argument lists also when they have >= 2 entries; byte strings when >= 4 bytes. Distinct by an injective structural rendering of the model (encoded bytes contain process-dependent interner keys).".into()
    }
    fn assumptions(&self) -> Vec<String> {
        vec![
            "host and plugin share one interner (set_external_session_globals), as the repository documents; ExprNodeId/TypeNodeId therefore cross as slotmap keys and are compared by key, falling back to a structural print / structural type comparison".into(),
            "the harness cannot link bincode or serde (no dependency, Cargo.toml frozen): the hand-written Type/Value serde impls are exercised through serde_json plus a positional transcoding ({\"0\":x} -> x, {\"0\":a,\"1\":b} -> [a,b], variant key lower-cased or as is); numeric variant indices written by Serialize are not observed on this leg".into(),
            "non-finite numbers are kept out of the serde_json leg of the hand-written Value serde (JSON cannot represent them); the bincode legs carry them".into(),
            "ErrorV is not in the property's list of transportable values: the oracle accepts either Err or an ErrorV that comes back as ErrorV with the same expression".into(),
            "ids decoded from arbitrary byte strings are never dereferenced (the repository's get_unchecked would be undefined behaviour); nesting in crafted byte strings is limited to 200 levels so that recursion depth stays far from the stack limit".into(),
        ]
    }
    fn required_classes(&self, _tier: Tier) -> Vec<&'static str> {
        vec![
            "v:Unit", "v:Number", "v:String", "v:Array", "v:Tuple", "v:Record", "v:TaggedUnion", "v:Code", "v:ErrorV", "v:Fixpoint", "v:ExternalFn", "v:Store", "v:Closure", "v:ConstructorFn",
            "t:Primitive", "t:Array", "t:Tuple", "t:Record", "t:Function", "t:Ref", "t:Code", "t:Union", "t:UserSum", "t:Boxed", "t:TypeAlias", "t:Any", "t:Failure", "t:Unknown", "t:Intermediate", "t:TypeScheme",
            "t:has-default", "t:UserSum-payload", "t:UserSum-bare", "edge:nan", "edge:neg-zero", "edge:inf", "edge:subnormal", "empty-aggregate", "empty-string", "non-ascii", "nul-in-string", "long-string", "duplicate-keys",
            "refused", "refused-type", "args:empty", "args:many", "bytes:value-decodes", "bytes:value-rejected", "bytes:args-decode", "bytes:truncated", "bytes:bit-flipped", "bytes:nested",
            "mode:small", "mode:values", "mode:types", "mode:args", "mode:refused", "mode:handvalue", "mode:bytes",
        ]
    }
}

pub fn prop() -> Option<&'static dyn Prop> {
    Some(&C20)
}
