//! C04 — front end and compile entry points are total on arbitrary text.

use crate::engine::case::*;
use crate::engine::panics;
use crate::engine::rng::hash64;
use crate::engine::shrink::text_candidates;
use crate::engine::tape::Gen;
use crate::gens::textgen as tg;
use crate::runners::front::{self, Diag};
use mimium_lang::interner::{Symbol, TypeNodeId};
use serde_json::{json, Value};
use std::sync::OnceLock;

pub struct C04;

/// stack of the thread the front end runs on (the main-thread size the CLI and the tests run with)
pub const STACK_BYTES: usize = 8 * 1024 * 1024;
/// stated nesting bound
pub const NEST_BOUND: u64 = 64;

fn builtins() -> &'static Vec<(Symbol, TypeNodeId)> {
    static B: OnceLock<Vec<(Symbol, TypeNodeId)>> = OnceLock::new();
    B.get_or_init(front::builtin_types)
}

fn compiler() -> &'static std::sync::Mutex<mimium_lang::compiler::Context> {
    static C: OnceLock<std::sync::Mutex<mimium_lang::compiler::Context>> = OnceLock::new();
    C.get_or_init(|| {
        let mut ctx = front::exec_context(true);
        ctx.prepare_compiler();
        std::sync::Mutex::new(ctx.take_compiler().unwrap())
    })
}

/// One representative lexeme per non-trivia token kind (+ line break, + an error character).
pub const TOKENS: &[&str] = &[
    "x", "dsp", "!", "float", "int", "string", "struct", "1.0", "1", "\"s\"", "+", "-", "*", "/", "==", "!=", "<", "<=", ">", ">=", "%", "^", "@", "&&", "||", "|>", "||>", "self", "now", "samplerate", ",", ".", "..", ":", "::", ";",
    "let", "letrec", "=", "(", ")", "[", "]", "{", "}", "|", "`", "$", "fn", "macro", "->", "<-", "=>", "_", "if", "else", "match", "include", "#", "stage", "main", "mod", "use", "pub", "type", "alias", "rec", "\n", "é", "f",
];

#[derive(Default)]
struct Out {
    fail: Option<(String, String)>,
    parse_errs: usize,
    type_errs: usize,
    compiled_with_errors: bool,
    diags: usize,
    placeholder_spans: u64,
}

pub const KF_PLACEHOLDER: &str = "C04-placeholder-span";

/// `tolerate_placeholder`: the known finding C04-placeholder-span (counted in `skipped`)
fn span_fail(src: &str, ds: &[Diag], who: &str, tolerate_placeholder: bool, skipped: &mut u64) -> Option<(String, String)> {
    for d in ds {
        if let Some((kind, w)) = front::bad_span(src, d) {
            if kind == "placeholder-0..1" && tolerate_placeholder {
                *skipped += 1;
                continue;
            }
            return Some((format!("c04:bad-span:{kind}:{who}"), format!("{who} diagnostic '{}': {w}", d.message)));
        }
    }
    None
}

fn check_inner(src: &str, tol: bool) -> Out {
    let mut o = Out::default();
    // 1. tokenize / preparse / parse / type check as the language server does
    let f = match panics::catch(|| front::front(src, builtins())) {
        Ok(f) => f,
        Err(p) => {
            o.fail = Some((format!("c04:front:{}", p.signature()), p.describe()));
            return o;
        }
    };
    o.parse_errs = f.parse_diags.len();
    o.type_errs = f.type_diags.len();
    o.diags = o.parse_errs + o.type_errs;
    let mut skipped = 0u64;
    if let Some(x) = span_fail(src, &f.parse_diags, "parser", tol, &mut skipped).or_else(|| span_fail(src, &f.type_diags, "typecheck", tol, &mut skipped)) {
        o.fail = Some(x);
        return o;
    }
    o.placeholder_spans = skipped;
    // 2. the language server's whole analysis
    let url = tower_lsp::lsp_types::Url::parse("file:///verif/case.mmm").unwrap();
    if let Err(p) = panics::catch(|| mimium_language_server::analysis::analyze_source(src, url, builtins())) {
        o.fail = Some((format!("c04:analyze:{}", p.signature()), p.describe()));
        return o;
    }
    // 3. the complete compile entry points answer a text with errors by diagnostics
    if o.diags > 0 {
        o.compiled_with_errors = true;
        for backend in ["bytecode", "wasm"] {
            let r = panics::catch(|| {
                // one compiler context per worker process, as the CLI keeps one per session
                let guard = compiler().lock().unwrap_or_else(|e| e.into_inner());
                let c = &*guard;
                if backend == "bytecode" { c.emit_bytecode(src).map(|_| ()).map_err(|e| front::diags_of(&e)) } else { c.emit_wasm(src).map(|_| ()).map_err(|e| front::diags_of(&e)) }
            });
            match r {
                Err(p) => {
                    o.fail = Some((format!("c04:emit-{backend}:{}", p.signature()), p.describe()));
                    return o;
                }
                Ok(Ok(())) => {
                    o.fail = Some((format!("c04:accepted-with-errors:{backend}"), format!("emit_{backend} returned Ok although the front end reported {} parse and {} type errors", o.parse_errs, o.type_errs)));
                    return o;
                }
                Ok(Err(ds)) => {
                    if ds.is_empty() {
                        o.fail = Some((format!("c04:empty-diagnostics:{backend}"), format!("emit_{backend} returned Err with no diagnostics")));
                        return o;
                    }
                    if let Some(x) = span_fail(src, &ds, &format!("emit-{backend}"), tol, &mut o.placeholder_spans) {
                        o.fail = Some(x);
                        return o;
                    }
                }
            }
        }
    }
    o
}

/// run on a fresh 8 MiB thread
fn check_text(src: &str, tol: bool) -> Out {
    let s = src.to_string();
    let h = std::thread::Builder::new().stack_size(STACK_BYTES).spawn(move || check_inner(&s, tol)).expect("spawn");
    match h.join() {
        Ok(o) => o,
        Err(_) => Out { fail: Some(("c04:harness:thread-panicked".into(), "case thread panicked outside catch".into())), ..Default::default() },
    }
}

fn finish(src: &str, mode: &str, extra: Option<String>, cx: &Cx) -> CaseResult {
    let hash = hash64(src.as_bytes());
    if cx.dry {
        let mut r = CaseResult::discard("dry");
        r.render = Some(json!({"text": src}));
        r.direct = Some(json!({"text": src}));
        return r;
    }
    let o = check_text(src, !cx.strict && cx.excluded(KF_PLACEHOLDER));
    let mut r = match &o.fail {
        Some((s, m)) => CaseResult::fail(hash, s.clone(), m.clone()),
        None => CaseResult::held(hash),
    };
    r.nontrivial = o.diags > 0 || !src.is_ascii();
    r.classes.push(format!("mode:{mode}"));
    if let Some(e) = extra {
        r.classes.push(e);
    }
    if o.parse_errs > 0 {
        r.classes.push("parse-errors".into());
    }
    if o.type_errs > 0 && o.parse_errs == 0 {
        r.classes.push("type-errors-only".into());
    }
    if o.diags == 0 {
        r.classes.push("clean".into());
    }
    if o.compiled_with_errors {
        r.classes.push("compile-entry-points-called".into());
    }
    if !src.is_ascii() {
        r.classes.push("non-ascii".into());
    }
    if o.placeholder_spans > 0 {
        r.count(&format!("excluded_by_known_finding:{KF_PLACEHOLDER}"), 1);
        r.classes.push("known:placeholder-span".into());
    }
    if cx.render || r.is_fail() {
        let shown: String = if src.len() > 600 { format!("{}…[{} bytes]", src.chars().take(300).collect::<String>(), src.len()) } else { src.to_string() };
        r.render = Some(json!({"text": shown, "bytes": src.len(), "parse_errors": o.parse_errs, "type_errors": o.type_errs}));
    }
    if r.is_fail() || mode != "tokens" {
        r.direct = Some(json!({"text": src}));
    }
    r
}

/// nesting shapes for the stated bracket-nesting bound
const NESTERS: &[(&str, &str, &str)] = &[
    ("(", "1.0", ")"),
    ("[", "1.0", "]"),
    ("{", "1.0", "}"),
    ("{ let a = ", "1.0", "\n a }"),
    ("|x| ", "x", ""),
    ("|x| { ", "x", " }"),
    ("if (1.0) { ", "1.0", " } else { 2.0 }"),
    ("if (1.0) 2.0 else ", "1.0", ""),
    ("f(", "1.0", ")"),
    ("(1.0, ", "1.0", ")"),
    ("{a = ", "1.0", "}"),
    ("`", "1.0", ""),
    ("`{ $(", "x", ") }"),
    ("-", "1.0", ""),
    ("1.0 + (", "1.0", ")"),
    ("mod m { ", "fn f(){1.0}", " }"),
    ("match 1.0 { 0 => ", "1.0", ", _ => 2.0 }"),
    ("x |> (", "f", ")"),
    ("fn g(){ ", "1.0", " }"),
    ("(", "", ""),
    ("{", "", ""),
    ("[", "", ""),
    ("|x| (", "", ""),
];

impl Prop for C04 {
    fn id(&self) -> &'static str {
        "C04"
    }
    fn spaces(&self, tier: Tier) -> Vec<Space> {
        let k = TOKENS.len() as u64;
        let nest = NESTERS.len() as u64 * NEST_BOUND * 3;
        match tier {
            Tier::Quick => vec![
                Space { name: "tokens", size: tg::count_upto(k, 3), exhaustive: true, chunk: 4000, case_timeout_s: 20.0, what: "all sequences of 1-3 tokens over one lexeme per token kind (space separated)" },
                Space { name: "tokens3", size: 60_000, exhaustive: false, chunk: 2000, case_timeout_s: 20.0, what: "uniform sample of the sequences of 4-6 tokens over the same alphabet" },
                Space { name: "nest", size: nest, exhaustive: true, chunk: 200, case_timeout_s: 20.0, what: "every nesting construct at every depth 1..64, as a global statement, inside fn dsp, and unclosed" },
                Space { name: "soup", size: 60_000, exhaustive: false, chunk: 1000, case_timeout_s: 20.0, what: "grammar-biased random token/fragment/Unicode soups" },
                Space { name: "corpus", size: 12_000, exhaustive: false, chunk: 200, case_timeout_s: 30.0, what: "shipped sources truncated, range-deleted, duplicated, with insertions and replaced characters" },
                Space { name: "holes", size: 30_000, exhaustive: false, chunk: 1000, case_timeout_s: 20.0, what: "program templates with holes (parameter defaults of functions, lambdas and macros, delay sizes, indices, schedule times, global initialisers, match scrutinees and arms, record fields, annotations) filled from a pool of special expressions (self, now, placeholders, macro calls and splices, stateful calls, lambdas, blocks, records, strings, paths)" },
                Space { name: "modsoup", size: 60_000, exhaustive: false, chunk: 1000, case_timeout_s: 20.0, what: "module-structured texts over a 4-name pool (nested mods, pub/private fns, use of paths, wildcards and lists, re-export chains and cycles)" },
            ],
            Tier::Thorough => vec![
                Space { name: "tokens", size: tg::count_upto(k, 4), exhaustive: true, chunk: 100_000, case_timeout_s: 20.0, what: "all sequences of 1-4 tokens over one lexeme per token kind (space separated)" },
                Space { name: "tokens3", size: 1_000_000, exhaustive: false, chunk: 10_000, case_timeout_s: 20.0, what: "uniform sample of the sequences of 5-8 tokens over the same alphabet" },
                Space { name: "nest", size: nest, exhaustive: true, chunk: 200, case_timeout_s: 20.0, what: "every nesting construct at every depth 1..64, as a global statement, inside fn dsp, and unclosed" },
                Space { name: "soup", size: 2_000_000, exhaustive: false, chunk: 5000, case_timeout_s: 20.0, what: "grammar-biased random token/fragment/Unicode soups" },
                Space { name: "corpus", size: 300_000, exhaustive: false, chunk: 500, case_timeout_s: 30.0, what: "shipped sources truncated, range-deleted, duplicated, with insertions and replaced characters" },
                Space { name: "holes", size: 600_000, exhaustive: false, chunk: 5000, case_timeout_s: 20.0, what: "program templates with holes filled from a pool of special expressions" },
                Space { name: "modsoup", size: 2_000_000, exhaustive: false, chunk: 5000, case_timeout_s: 20.0, what: "module-structured texts over a 4-name pool (nested mods, pub/private fns, use of paths, wildcards and lists, re-export chains and cycles)" },
            ],
        }
    }
    fn run(&self, space: &str, index: u64, g: &mut Gen, cx: &Cx) -> CaseResult {
        match space {
            "tokens" => {
                // index -> sequence, joined with spaces (fusing forms are C13's subject)
                let k = TOKENS.len() as u64;
                let mut idx = index;
                let mut len = 1u32;
                loop {
                    let n = k.pow(len);
                    if idx < n {
                        break;
                    }
                    idx -= n;
                    len += 1;
                }
                let mut parts = vec![""; len as usize];
                for i in (0..len as usize).rev() {
                    parts[i] = TOKENS[(idx % k) as usize];
                    idx /= k;
                }
                finish(&parts.join(" "), "tokens", None, cx)
            }
            "tokens3" => {
                let (lo, hi) = if cx.tier == Tier::Quick { (4, 6) } else { (5, 8) };
                let n = g.int(lo, hi);
                let parts: Vec<&str> = (0..n).map(|_| *g.pick(TOKENS)).collect();
                finish(&parts.join(" "), "tokens3", None, cx)
            }
            "nest" => {
                let per = NEST_BOUND * 3;
                let (open, mid, close) = NESTERS[(index / per) as usize];
                let rem = index % per;
                let depth = rem / 3 + 1;
                let form = rem % 3;
                let mut s = String::new();
                for _ in 0..depth {
                    s.push_str(open);
                }
                s.push_str(mid);
                if form != 2 {
                    for _ in 0..depth {
                        s.push_str(close);
                    }
                }
                let text = match form {
                    0 => format!("let v = {s}\nfn dsp(){{ 0.0 }}\n"),
                    1 => format!("fn dsp(){{ {s} }}\n"),
                    _ => format!("fn dsp(){{ {s}"),
                };
                finish(&text, "nest", Some(format!("depth:{}", if depth <= 8 { "1-8" } else if depth <= 32 { "9-32" } else { "33-64" })), cx)
            }
            "soup" => {
                let s = tg::soup(g, 40);
                finish(&s, "soup", None, cx)
            }
            "holes" => {
                let s = tg::holesoup(g);
                finish(&s, "holes", None, cx)
            }
            "modsoup" => {
                let s = tg::modsoup(g);
                finish(&s, "modsoup", None, cx)
            }
            _ => {
                let (s, m) = tg::corpus_mutant(g);
                finish(&s, "corpus", Some(format!("mut:{m}")), cx)
            }
        }
    }
    fn run_direct(&self, input: &Value, cx: &Cx) -> Option<CaseResult> {
        let t = input.get("text")?.as_str()?;
        Some(finish(t, "direct", None, cx))
    }
    fn shrink_direct(&self, input: &Value) -> Vec<Value> {
        let Some(t) = input.get("text").and_then(|v| v.as_str()) else { return vec![] };
        text_candidates(t).into_iter().map(|s| json!({"text": s})).collect()
    }
    fn rule(&self) -> String {
        format!("Cases are texts. Exhaustive: every space-separated sequence of 1-3 (quick) / 1-4 (thorough) tokens over {} lexemes (one per token kind, a line break, an error character), and every nesting construct ({} shapes) at every depth 1..{} closed at global scope, closed inside dsp, and unclosed. Random: longer token sequences, grammar-biased soups with Unicode pieces, mutated shipped sources. Each text runs on a fresh 8 MiB thread: parse_to_expr and the language server's type-check sequence and analyze_source must return; if any diagnostic exists, emit_bytecode and emit_wasm must return Err with at least one diagnostic; every label span that points into the text satisfies start<=end<=len on char boundaries. A panic is caught and reported with its site; a stack overflow or hang kills the worker and is reported from the journal. Non-trivial = the text has a diagnostic or a non-ASCII character; distinct by text.", TOKENS.len(), NESTERS.len(), NEST_BOUND)
    }
    fn assumptions(&self) -> Vec<String> {
        vec![
            "stated nesting bound: 64 levels on an 8 MiB stack; deeper nesting is not demanded".into(),
            "texts without any diagnostic are not pushed through the compile entry points here (their crashes are C03's subject)".into(),
            "termination is observed as a 20 s per-case bound (the median case takes well under a millisecond); a single expiry is inconclusive unless it reproduces twice at the doubled limit".into(),
        ]
    }
    fn hang_is_violation(&self) -> bool {
        true
    }
    fn required_classes(&self, _tier: Tier) -> Vec<&'static str> {
        vec!["parse-errors", "type-errors-only", "clean", "compile-entry-points-called", "non-ascii", "depth:33-64"]
    }
}

pub fn prop() -> Option<&'static dyn Prop> {
    Some(&C04)
}
