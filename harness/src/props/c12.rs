//! C12 — long-running programs do not accumulate closures or heap objects.

use crate::engine::case::*;
use crate::engine::panics;
use crate::engine::rng::hash64;
use crate::engine::tape::Gen;
use crate::gens::prog::{self, Layout, PG};
use crate::props::c01::{self, gen_inputs, line_candidates};
use crate::runners::exec::{self, Exec, Inputs, RunOpts};
use serde_json::{json, Value};

pub struct C12;

pub fn prop() -> Option<&'static dyn Prop> {
    Some(&C12)
}

struct Out {
    fail: Option<(String, String)>,
    discard: Option<String>,
    max_closures: usize,
}

fn check(src: &str, inputs: &Inputs, n: u64, sched: bool) -> Out {
    let mut o = Out { fail: None, discard: None, max_closures: 0 };
    let _ = panics::take_invalid_handle_warnings();
    let r = exec::run_vm(src, inputs, &RunOpts { n: 2 * n, sched, want_state: false, want_counts: true, want_trace: false });
    let warnings = panics::take_invalid_handle_warnings();
    match r {
        Exec::Rejected(_) | Exec::NoIo => o.discard = Some("not-compilable".into()),
        Exec::Error(s, e) => o.discard = Some(format!("error:{s}:{e}")),
        Exec::Panic(stage, p) => {
            if p.msg.contains("closure handle used after release") || p.msg.contains("Invalid Closure Id") || p.msg.contains("Invalid indirect callable") {
                // (the last one: the heap object behind a callable value no longer exists)
                o.fail = Some(("c12:stale-closure-handle".into(), format!("{stage}: {}", p.describe())));
            } else {
                o.discard = Some(format!("crash:{}", panics::normalise(&p.msg))); // C03's subject
            }
        }
        Exec::Ran(a) => {
            if warnings > 0 {
                o.fail = Some(("c12:invalid-heap-handle".into(), format!("{warnings} retain/release calls on an invalid heap handle")));
                return o;
            }
            let c = &a.counts;
            o.max_closures = c.iter().map(|x| x.0).max().unwrap_or(0);
            let (n1, n2) = ((n - 1) as usize, (2 * n - 1) as usize);
            if c.len() > n2 {
                if c[n1].0 != c[n2].0 {
                    let k = if c[n2].0 > c[n1].0 { "closures-grow" } else { "closures-not-steady" };
                    o.fail = Some((format!("c12:{k}"), format!("live closures after sample {}: {}, after sample {}: {} (first samples: {:?})", n1 + 1, c[n1].0, n2 + 1, c[n2].0, &c[..6.min(c.len())])));
                } else if c[n1].1 != c[n2].1 {
                    let k = if c[n2].1 > c[n1].1 { "heap-grows" } else { "heap-not-steady" };
                    o.fail = Some((format!("c12:{k}"), format!("live heap objects after sample {}: {}, after sample {}: {} (first samples: {:?})", n1 + 1, c[n1].1, n2 + 1, c[n2].1, &c[..6.min(c.len())])));
                }
            }
        }
    }
    o
}

fn finish(src: &str, inputs: &Inputs, n: u64, classes: Vec<String>, allocs: bool, cx: &Cx) -> CaseResult {
    let key = format!("{src}\u{1}{}\u{1}{n}", inputs.describe());
    let hash = hash64(key.as_bytes());
    let direct = json!({"text": src, "input_kind": inputs.kind, "input_scale": inputs.scale, "n": n});
    if cx.dry {
        let mut r = CaseResult::discard("dry");
        r.render = Some(direct.clone());
        r.direct = Some(direct);
        return r;
    }
    let sched = src.contains('@');
    let o = check(src, inputs, n, sched);
    if let Some(w) = o.discard {
        return CaseResult::discard(w);
    }
    let mut r = match &o.fail {
        Some((s, m)) => CaseResult::fail(hash, s.clone(), m.clone()),
        None => CaseResult::held(hash),
    };
    r.classes = classes;
    if allocs {
        r.classes.push("allocates-per-sample".into());
    }
    if o.max_closures > 0 {
        r.classes.push("has-live-closures".into());
    }
    r.nontrivial = allocs || r.is_fail();
    if cx.render || r.is_fail() {
        r.render = Some(direct.clone());
    }
    r.direct = Some(direct);
    r
}

/// per-sample closure instances made by a maker function leak (known finding): switch
/// boxed payloads of recursive variant values built inside dsp are never released (known finding): switch
pub const KF_BOX_LEAK: &str = "C12-boxed-variant-never-released";
pub const KF_MAKER_LEAK: &str = "C12-closure-from-maker-call-leaks";
/// a lambda passed as an argument to a function is never released (known finding): switch
pub const KF_ARG_LEAK: &str = "C12-closure-argument-leaks";
/// the closure that wraps a NAMED function at `f@t` is never released after the task has run: switch
pub const KF_TASK_LEAK: &str = "C12-scheduled-function-closure-never-released";

impl Prop for C12 {
    fn id(&self) -> &'static str {
        "C12"
    }
    fn spaces(&self, tier: Tier) -> Vec<Space> {
        match tier {
            Tier::Quick => vec![Space { name: "unit", size: 3000, exhaustive: false, chunk: 200, case_timeout_s: 60.0, what: "closures created inside unit-returning frames: helper functions called from dsp as statements and self-re-arming scheduled tasks x run length 2N" }, Space { name: "sum", size: 4000, exhaustive: false, chunk: 200, case_timeout_s: 60.0, what: "generated programs that build values of (recursive, boxed) user sum types per sample and match on them x run length 2N" }, Space { name: "gen", size: 30000, exhaustive: false, chunk: 200, case_timeout_s: 60.0, what: "generated programs that create closures per sample (lambdas, local closures, lambdas passed to higher-order functions, maker calls) x run length 2N" }],
            Tier::Thorough => vec![Space { name: "unit", size: 100_000, exhaustive: false, chunk: 500, case_timeout_s: 60.0, what: "closures created inside unit-returning frames (helpers called as statements, scheduled tasks) x run length 2N" }, Space { name: "sum", size: 400_000, exhaustive: false, chunk: 500, case_timeout_s: 60.0, what: "generated programs that build values of (recursive, boxed) user sum types per sample x run length 2N" }, Space { name: "gen", size: 1_200_000, exhaustive: false, chunk: 1000, case_timeout_s: 60.0, what: "generated programs that create closures per sample x run length 2N" }],
        }
    }
    fn run(&self, space: &str, _index: u64, g: &mut Gen, cx: &Cx) -> CaseResult {
        if space == "unit" {
            let ((src, sched), named) = crate::gens::textgen::unit_closures_with(g, !cx.excluded(KF_TASK_LEAK));
            let inputs = gen_inputs(g);
            let n = *g.pick(&[32u64, 16, 64]);
            let mut classes = vec!["mode:unit-frames".to_string()];
            if sched {
                classes.push("unit:scheduled-task".into());
            }
            if named {
                classes.push("unit:scheduled-named-function".into());
            }
            let mut r = finish(&src, &inputs, n, classes, true, cx);
            if cx.excluded(KF_TASK_LEAK) {
                r.count(&format!("generator_switch_off:{KF_TASK_LEAK}"), 1);
            }
            return r;
        }
        if space == "sum" {
            let mut scfg = crate::gens::sumgen::SumCfg::default();
            if cx.excluded(crate::props::c03::KF_SUM_LONE_REC) {
                scfg.lone_recursive_payload = false;
            }
            if cx.excluded(KF_BOX_LEAK) {
                scfg.boxed_per_sample = false;
            }
            let p = crate::gens::sumgen::generate(g, &scfg);
            let src = crate::gens::sumgen::render(&p);
            let inputs = gen_inputs(g);
            let n = *g.pick(&[32u64, 16, 64]);
            let rec = p.types.iter().any(|t| t.rec);
            let mut classes = vec!["mode:sum".to_string()];
            if rec {
                classes.push("sum:recursive".into());
            }
            if !p.global_values {
                classes.push("sum:values-per-sample".into());
            }
            let mut r = finish(&src, &inputs, n, classes, !p.global_values, cx);
            if cx.excluded(KF_BOX_LEAK) {
                r.count(&format!("generator_switch_off:{KF_BOX_LEAK}"), 1);
            }
            return r;
        }
        let (mut cfg, off) = c01::pcfg(cx);
        // WASM-only switches are irrelevant here
        cfg.modulo = true;
        cfg.multi_maker_instances = true;
        cfg.capture_destructured = true;
        cfg.makers_in_dsp = !cx.excluded(KF_MAKER_LEAK);
        cfg.factories = !cx.excluded(KF_MAKER_LEAK);
        if cx.excluded(KF_ARG_LEAK) {
            cfg.hof = false;
        }
        let mut pg = PG::new(g, cfg);
        let p = pg.program();
        let feat = pg.feat.clone();
        let src = prog::render(&p, &Layout::default());
        let inputs = gen_inputs(g);
        let n = *g.pick(&[32u64, 16, 64]);
        let allocs = feat.closures_local > 0 || feat.hof_calls > 0 || feat.pipes > 0;
        let mut r = finish(&src, &inputs, n, feat.classes(), allocs, cx);
        for id in off {
            r.count(&format!("generator_switch_off:{id}"), 1);
        }
        if cx.excluded(KF_MAKER_LEAK) {
            r.count(&format!("generator_switch_off:{KF_MAKER_LEAK}"), 1);
        }
        if cx.excluded(KF_ARG_LEAK) {
            r.count(&format!("generator_switch_off:{KF_ARG_LEAK}"), 1);
        }
        r
    }
    fn run_direct(&self, input: &Value, cx: &Cx) -> Option<CaseResult> {
        let t = input.get("text")?.as_str()?;
        let inputs = Inputs { kind: input.get("input_kind").and_then(|v| v.as_u64()).unwrap_or(1) as u8, scale: input.get("input_scale").and_then(|v| v.as_f64()).unwrap_or(1.0) };
        let n = input.get("n").and_then(|v| v.as_u64()).unwrap_or(16);
        Some(finish(t, &inputs, n, vec![], true, cx))
    }
    fn shrink_direct(&self, input: &Value) -> Vec<Value> {
        let Some(t) = input.get("text").and_then(|v| v.as_str()) else { return vec![] };
        let mut out = vec![];
        for s in line_candidates(t).into_iter().chain(crate::engine::shrink::text_candidates(t)) {
            let mut v = input.clone();
            v["text"] = json!(s);
            out.push(v);
        }
        out
    }
    fn rule(&self) -> String {
        "Cases are (program, input stream, N in {16,32,64}). Programs from the core-language generator with per-sample allocation: lambdas applied in place, local closures, lambdas passed to higher-order functions, closures created at global scope by maker functions. Oracle (VM): run 2N samples; Machine.closures.len() and Machine.heap.len() after sample N must equal those after sample 2N; no `closure handle used after release` assertion (hook) and no `invalid HeapIdx` retain/release warning. Non-trivial = the program creates at least one closure per sample (by construction); distinct by source+inputs+N.".into()
    }
    fn assumptions(&self) -> Vec<String> {
        vec!["only the VM is observed (the WASM runtime has no comparable counters)".into(), "scheduled tasks appear only in the `unit` space (self-re-arming chains that create closures)".into()]
    }
    fn required_classes(&self, _tier: Tier) -> Vec<&'static str> {
        vec!["allocates-per-sample", "has-live-closures", "f:local-closure", "f:maker-closure", "mode:unit-frames", "unit:scheduled-task"]
    }
}
