//! C07 — hot-swap after an edit preserves the state of untouched signal paths.
//!
//! Voice-bank programs: dsp returns a tuple of channels, channel i is one *voice* (a stateful
//! function from a small library whose state shapes share no cell shape, so state matching is
//! never ambiguous).  Histories of run/edit steps; a per-voice model in the harness (the voices'
//! semantics are fixed by the C02 statement: self / mem / delay) predicts every channel.

use crate::engine::case::*;
use crate::engine::rng::hash64;
use crate::engine::tape::Gen;
use crate::runners::exec::{canon, Inputs};
use crate::runners::swap::{run_vm_history, run_wasm_history, SwapOut};
use serde_json::{json, Value};

pub struct C07;

/// WasmDspRuntime::try_hot_swap keeps the old program's channel count (the payload carries no I/O
/// information), so after an edit that adds or removes a channel get_output returns the old number
/// of words.  Known finding: with the tolerance on, the common prefix of channels is compared.
pub const KF_WASM_CHANNELS: &str = "C07-wasm-channel-count-stale";

pub fn prop() -> Option<&'static dyn Prop> {
    Some(&C07)
}

const LIB: &str = "fn v_cnt(a) -> float {\n  self + a\n}\nfn t2(a) -> (float,float) {\n  let (p, q) = self\n  (p + a, q + 1.0)\n}\nfn v_t2(a) {\n  let (p, q) = t2(a)\n  p + q\n}\nfn v_mem(a) {\n  mem(mem(a))\n}\nfn v_d5(a) {\n  delay(5.0, a, 3.0)\n}\nfn v_d9(a) {\n  delay(9.0, a, 6.0)\n}\nfn t3(a) -> (float,float,float) {\n  let (p, q, r) = self\n  (q, r, p + a)\n}\nfn v_n3(a) {\n  let (p, q, r) = t3(a)\n  delay(2.0, p + r, 1.0)\n}\nfn w_cnt(a) {\n  v_cnt(a)\n}\nfn w_t2(a) {\n  v_t2(a)\n}\nfn w_mem(a) {\n  v_mem(a)\n}\nfn w_d5(a) {\n  v_d5(a)\n}\nfn w_d9(a) {\n  v_d9(a)\n}\nfn w_n3(a) {\n  v_n3(a)\n}\nfn v_c3(a) {\n  v_cnt(a) + v_cnt(a * 2.0) + v_cnt(a * 3.0)\n}\nfn v_cm(a) {\n  v_cnt(a) + mem(a)\n}\nfn w_c3(a) {\n  v_c3(a)\n}\nfn w_cm(a) {\n  v_cm(a)\n}\n";

/// kinds 6-8 are look-alikes: their state trees share a sub-shape (a nested `v_cnt` call) with each
/// other and with nothing else, so a diff that prefers a partial match over a crossing full match
/// moves state between them; a full match always carries strictly more cells than any partial one
/// (c3: 3 cells, cm: 2 cells, overlap 1 cell), so "untouched" stays unambiguous
const KINDS: [&str; 8] = ["cnt", "t2", "mem", "d5", "d9", "n3", "c3", "cm"];

/// model of one voice instance
#[derive(Clone, Debug)]
struct Voice {
    kind: usize,
    c: f64,
    c_text: String,
    wrapped: bool,
    /// channel is no longer predicted (after a wrap edit: the statement does not say whether a
    /// re-nested site counts as untouched)
    unchecked: bool,
    // state
    s_cnt: f64,
    s_t2: (f64, f64),
    s_mem: (f64, f64),
    hist: Vec<f64>,
    s_t3: (f64, f64, f64),
    hist2: Vec<f64>,
}

impl Voice {
    fn new(kind: usize, c_text: &str) -> Voice {
        Voice { kind, c: c_text.parse().unwrap(), c_text: c_text.to_string(), wrapped: false, unchecked: false, s_cnt: 0.0, s_t2: (0.0, 0.0), s_mem: (0.0, 0.0), hist: vec![], s_t3: (0.0, 0.0, 0.0), hist2: vec![] }
    }
    fn reset(&mut self) {
        let n = Voice::new(self.kind, &self.c_text);
        let (w, u) = (self.wrapped, self.unchecked);
        *self = n;
        self.wrapped = w;
        self.unchecked = u;
    }
    fn delay(h: &mut Vec<f64>, x: f64, d: usize) -> f64 {
        let k = h.len();
        let y = if k >= d { h[k - d] } else { 0.0 };
        h.push(x);
        y
    }
    /// one sample; `t` is the sample index (now)
    fn step(&mut self, t: u64) -> f64 {
        let a = (t as f64) * 0.1 + self.c;
        match self.kind {
            0 => {
                self.s_cnt += a;
                self.s_cnt
            }
            1 => {
                let (p, q) = self.s_t2;
                self.s_t2 = (p + a, q + 1.0);
                self.s_t2.0 + self.s_t2.1
            }
            2 => {
                // mem(mem(a)): inner mem returns its previous input, outer likewise
                let inner_prev = self.s_mem.0;
                self.s_mem.0 = a;
                let outer_prev = self.s_mem.1;
                self.s_mem.1 = inner_prev;
                outer_prev
            }
            3 => Voice::delay(&mut self.hist, a, 3),
            4 => Voice::delay(&mut self.hist, a, 6),
            6 => {
                let (p, q, r) = self.s_t3;
                self.s_t3 = (p + a, q + a * 2.0, r + a * 3.0);
                (self.s_t3.0 + self.s_t3.1) + self.s_t3.2
            }
            7 => {
                self.s_cnt += a;
                let prev = self.s_mem.0;
                self.s_mem.0 = a;
                self.s_cnt + prev
            }
            _ => {
                let (p, q, r) = self.s_t3;
                self.s_t3 = (q, r, p + a);
                let (p2, _q2, r2) = self.s_t3;
                Voice::delay(&mut self.hist2, p2 + r2, 1)
            }
        }
    }
    fn expr(&self) -> String {
        let f = if self.wrapped { format!("w_{}", KINDS[self.kind]) } else { format!("v_{}", KINDS[self.kind]) };
        format!("{f}(now * 0.1 + {})", self.c_text)
    }
}

/// look-alike families: bit 0 = contains a nested `v_cnt` call, bit 1 = contains a `mem` cell
fn fam(v: &Voice) -> u8 {
    match v.kind {
        0 if v.wrapped => 1,
        2 => 2,
        6 => 1,
        7 => 3,
        _ => 0,
    }
}
/// A new voice that partially resembles a voice of the bank it is edited into may be given the
/// resembling cells of that voice by the state-tree diff (which carries every matching cell it can
/// when a call site's shape changes); its channel is not predicted.  Untouched voices still are.
fn new_voice(kind: usize, c: &str, old: &[Voice]) -> Voice {
    let mut v = Voice::new(kind, c);
    if old.iter().any(|o| fam(o) & fam(&v) != 0) {
        v.unchecked = true;
    }
    v
}

fn program(vs: &[Voice], broken: Option<&str>) -> String {
    let body = vs.iter().map(|v| v.expr()).collect::<Vec<_>>().join(", ");
    let ret = format!("({})", vec!["float"; vs.len()].join(","));
    match broken {
        None if vs.len() == 1 => format!("{LIB}fn dsp() -> float {{\n  {body}\n}}\n"),
        None => format!("{LIB}fn dsp() -> {ret} {{\n  ({body})\n}}\n"),
        Some("syntax") => format!("{LIB}fn dsp() -> {ret} {{\n  ({body}\n}}\n"),
        Some(_) => format!("{LIB}fn dsp() -> {ret} {{\n  ({body}, v_cnt((1.0, 2.0)) + \"s\")\n}}\n"),
    }
}

#[derive(Clone, Debug)]
struct Step {
    src: String,
    run: u64,
    /// expected channels per sample (None = not predicted)
    expect: Vec<Vec<Option<f64>>>,
    edit: String,
    fault: bool,
}

const CONSTS: [&str; 5] = ["0.5", "1.0", "0.25", "2.0", "0.125"];

fn history(g: &mut Gen) -> (Vec<Step>, Vec<String>) {
    let mut labels = vec![];
    // 1 voice as well: an edit may then leave no surviving call site at all
    let k = g.int(1, 4) as usize;
    let perm = g.perm(KINDS.len());
    let mut vs: Vec<Voice> = perm.iter().take(k).map(|kind| Voice::new(*kind, *g.pick(&CONSTS[..]))).collect();
    let mut steps = vec![];
    let mut t = 0u64;
    let nsteps = g.int(2, 5) as usize;
    let mut src = program(&vs, None);
    let mut edit = "start".to_string();
    let mut fault = false;
    for si in 0..nsteps {
        let run = g.int(1, 8) as u64;
        let mut expect = vec![];
        for _ in 0..run {
            expect.push(vs.iter_mut().map(|v| { let y = v.step(t); if v.unchecked { None } else { Some(y) } }).collect());
            t += 1;
        }
        steps.push(Step { src: src.clone(), run, expect, edit: edit.clone(), fault });
        if si + 1 == nsteps {
            break;
        }
        // choose the next edit
        let present: Vec<usize> = vs.iter().map(|v| v.kind).collect();
        let absent: Vec<usize> = (0..KINDS.len()).filter(|k| !present.contains(k)).collect();
        let choice = g.weighted(&[if vs.len() < 4 && !absent.is_empty() { 3 } else { 0 }, if vs.len() > 1 { 3 } else { 0 }, if absent.is_empty() { 0 } else { 3 }, 2, 2, 2, if absent.len() >= vs.len() { 2 } else { 0 }]);
        fault = false;
        match choice {
            0 => {
                let pos = g.usize_below(vs.len() + 1);
                let kind = *g.pick(&absent);
                let nv = new_voice(kind, *g.pick(&CONSTS[..]), &vs);
                vs.insert(pos, nv);
                edit = format!("insert:{}", where_(pos, vs.len()));
                labels.push("edit:insert".to_string());
            }
            1 => {
                let pos = g.usize_below(vs.len());
                vs.remove(pos);
                edit = format!("delete:{}", where_(pos, vs.len() + 1));
                labels.push("edit:delete".to_string());
            }
            2 => {
                let pos = g.usize_below(vs.len());
                let kind = *g.pick(&absent);
                vs[pos] = new_voice(kind, *g.pick(&CONSTS[..]), &vs);
                edit = format!("replace:{}", where_(pos, vs.len()));
                labels.push("edit:replace".to_string());
            }
            3 => {
                let pos = g.usize_below(vs.len());
                let c = *g.pick(&CONSTS[..]);
                vs[pos].c_text = c.to_string();
                vs[pos].c = c.parse().unwrap();
                edit = "constant".into();
                labels.push("edit:constant".to_string());
            }
            6 => {
                // every voice replaced at once: no stateful call site survives the edit
                let pick = g.perm(absent.len());
                let old = vs.clone();
                for (i, v) in vs.iter_mut().enumerate() {
                    *v = new_voice(absent[pick[i]], *g.pick(&CONSTS[..]), &old);
                }
                edit = "replace-all".into();
                labels.push("edit:replace-all".to_string());
            }
            4 => {
                let pos = g.usize_below(vs.len());
                vs[pos].wrapped = !vs[pos].wrapped;
                vs[pos].unchecked = true;
                vs[pos].reset();
                edit = "nest".into();
                labels.push("edit:nest".to_string());
            }
            _ => {
                fault = true;
                edit = if g.coin() { "fault:syntax".into() } else { "fault:type".into() };
                labels.push("edit:fault".to_string());
            }
        }
        src = if fault { program(&vs_for_fault(&vs), Some(if edit.ends_with("syntax") { "syntax" } else { "type" })) } else { program(&vs, None) };
    }
    (steps, labels)
}

fn vs_for_fault(vs: &[Voice]) -> Vec<Voice> {
    vs.to_vec()
}

fn where_(pos: usize, len: usize) -> &'static str {
    if pos == 0 { "first" } else if pos + 1 >= len { "last" } else { "middle" }
}

struct Out {
    fail: Option<(String, String)>,
    nontrivial: bool,
}

fn check(steps: &[Step], backend: &str, tolerate_channels: bool, tolerated: &mut u64) -> Out {
    let mut o = Out { fail: None, nontrivial: false };
    let hist: Vec<(String, u64)> = steps.iter().map(|s| (s.src.clone(), s.run)).collect();
    let inputs = Inputs { kind: 0, scale: 1.0 };
    let res = if backend == "vm" { run_vm_history(&hist, &inputs, 0) } else { run_wasm_history(&hist, &inputs, 0) };
    match res {
        SwapOut::Ran { steps: got, swapped } => {
            let mut t = 0u64;
            for (k, (st, g)) in steps.iter().zip(got.iter()).enumerate() {
                if st.fault && swapped.get(k).copied().unwrap_or(false) {
                    o.fail = Some((format!("c07:{backend}:broken-edit-swapped-in"), format!("step {k}: an edit that must not compile ({}) was swapped in", st.edit)));
                    return o;
                }
                if !st.fault && !swapped.get(k).copied().unwrap_or(true) {
                    o.fail = Some((format!("c07:{backend}:valid-edit-rejected"), format!("step {k}: the edited program ({}) did not compile", st.edit)));
                    return o;
                }
                // known finding (stale I/O information on WASM): the host keeps reading dsp's result the
                // way the first program returned it; a step whose program returns a scalar where the
                // first returned a tuple (or the reverse) cannot be read at all
                let first_scalar = steps[0].expect.first().map(|w| w.len() == 1).unwrap_or(false);
                let this_scalar = st.expect.first().map(|w| w.len() == 1).unwrap_or(false);
                if backend == "wasm" && tolerate_channels && first_scalar != this_scalar {
                    *tolerated += st.expect.len() as u64;
                    t += st.expect.len() as u64;
                    continue;
                }
                for (i, (want, have)) in st.expect.iter().zip(g.iter()).enumerate() {
                    if want.len() != have.len() && backend == "wasm" && tolerate_channels {
                        *tolerated += 1;
                    } else if want.len() != have.len() {
                        o.fail = Some((format!("c07:{backend}:channel-count"), format!("step {k} ({}) sample {t}: {} channels, expected {}", st.edit, have.len(), want.len())));
                        return o;
                    }
                    for ch in 0..want.len().min(have.len()) {
                        if let Some(w) = want[ch] {
                            if canon(w.to_bits()) != canon(have[ch]) {
                                let kind = if st.fault { "state-changed-by-failed-edit" } else if k == 0 { "model-mismatch-before-any-edit" } else { "voice-discontinuity" };
                                o.fail = Some((format!("c07:{backend}:{kind}:{}", st.edit.split(':').next().unwrap_or("")), format!("step {k} (after edit `{}`) sample {t} (offset {i}) channel {ch}: expected {w:?}, got {:?}", st.edit, f64::from_bits(have[ch]))));
                                return o;
                            }
                        }
                    }
                    t += 1;
                }
            }
            o.nontrivial = steps.len() >= 2;
        }
        SwapOut::Panic(stage, p) => {
            o.fail = Some((format!("c07:{backend}:panic:{}:{}", stage.split('#').next().unwrap_or(""), p.signature()), format!("{stage}: {}", p.describe())));
        }
        SwapOut::SwapRefused(k, why) => o.fail = Some((format!("c07:{backend}:swap-refused"), format!("swap {k}: {why}"))),
        SwapOut::Error(e) => o.fail = Some((format!("c07:{backend}:error"), e)),
        SwapOut::FirstRejected => o.fail = Some((format!("c07:{backend}:voice-bank-rejected"), "the initial voice-bank program does not compile".into())),
        SwapOut::NoIo => o.fail = Some((format!("c07:{backend}:no-io"), "no dsp I/O information".into())),
    }
    o
}

impl Prop for C07 {
    fn id(&self) -> &'static str {
        "C07"
    }
    fn spaces(&self, tier: Tier) -> Vec<Space> {
        match tier {
            Tier::Quick => vec![
                Space { name: "vm", size: 8000, exhaustive: false, chunk: 100, case_timeout_s: 60.0, what: "voice-bank programs x histories of 2-5 run/edit steps on the VM" },
                Space { name: "wasm", size: 1200, exhaustive: false, chunk: 20, case_timeout_s: 120.0, what: "the same on the WASM runtime" },
            ],
            Tier::Thorough => vec![
                Space { name: "vm", size: 160_000, exhaustive: false, chunk: 200, case_timeout_s: 60.0, what: "voice-bank programs x histories of 2-5 run/edit steps on the VM" },
                Space { name: "wasm", size: 32_000, exhaustive: false, chunk: 40, case_timeout_s: 120.0, what: "the same on the WASM runtime" },
            ],
        }
    }
    fn run(&self, space: &str, _index: u64, g: &mut Gen, cx: &Cx) -> CaseResult {
        let (steps, labels) = history(g);
        let render = json!({"backend": space, "steps": steps.iter().map(|s| json!({"edit": s.edit, "run": s.run, "dsp": s.src.rsplit("fn dsp()").next().unwrap_or("")})).collect::<Vec<_>>()});
        let hash = hash64(render.to_string().as_bytes());
        if cx.dry {
            let mut r = CaseResult::discard("dry");
            r.render = Some(render);
            return r;
        }
        let mut tolerated = 0u64;
        let direct = json!({"backend": space, "steps": steps.iter().map(|s| json!({"src": s.src, "run": s.run, "edit": s.edit, "fault": s.fault, "expect": s.expect})).collect::<Vec<_>>()});
        let o = check(&steps, space, !cx.strict && cx.excluded(KF_WASM_CHANNELS), &mut tolerated);
        let mut r = match &o.fail {
            Some((s, m)) => CaseResult::fail(hash, s.clone(), m.clone()),
            None => CaseResult::held(hash),
        };
        r.classes = labels;
        r.classes.push(format!("backend:{space}"));
        if tolerated > 0 {
            r.count(&format!("excluded_by_known_finding:{KF_WASM_CHANNELS}"), 1);
            r.classes.push("known:wasm-channel-count".into());
        }
        r.nontrivial = o.nontrivial || r.is_fail();
        if cx.render || r.is_fail() {
            r.render = Some(render);
        }
        if r.is_fail() {
            r.direct = Some(direct);
        }
        r
    }
    fn run_direct(&self, input: &Value, cx: &Cx) -> Option<CaseResult> {
        let backend = input.get("backend")?.as_str()?.to_string();
        let mut steps = vec![];
        for s in input.get("steps")?.as_array()? {
            let expect: Vec<Vec<Option<f64>>> = s.get("expect")?.as_array()?.iter().map(|row| row.as_array().map(|r| r.iter().map(|v| v.as_f64()).collect()).unwrap_or_default()).collect();
            steps.push(Step { src: s.get("src")?.as_str()?.to_string(), run: s.get("run")?.as_u64()?, expect, edit: s.get("edit").and_then(|v| v.as_str()).unwrap_or("").to_string(), fault: s.get("fault").and_then(|v| v.as_bool()).unwrap_or(false) });
        }
        let hash = hash64(input.to_string().as_bytes());
        let mut tolerated = 0u64;
        let o = check(&steps, &backend, !cx.strict && cx.excluded(KF_WASM_CHANNELS), &mut tolerated);
        let mut r = match &o.fail {
            Some((s, m)) => CaseResult::fail(hash, s.clone(), m.clone()),
            None => CaseResult::held(hash),
        };
        r.nontrivial = true;
        r.render = Some(json!({"backend": backend, "steps": steps.iter().map(|s| json!({"edit": s.edit, "run": s.run, "dsp": s.src.rsplit("fn dsp()").next().unwrap_or("")})).collect::<Vec<_>>()}));
        Some(r)
    }
    fn shrink_direct(&self, input: &Value) -> Vec<Value> {
        // drop trailing steps
        let mut out = vec![];
        if let Some(st) = input.get("steps").and_then(|v| v.as_array()) {
            if st.len() > 2 {
                let mut v = input.clone();
                v["steps"] = json!(st[..st.len() - 1].to_vec());
                out.push(v);
            }
        }
        out
    }
    fn rule(&self) -> String {
        "Cases are histories over voice-bank programs: dsp returns 2-4 channels, each an independent stateful voice from a library of eight: six whose state layouts share no cell shape (counter, tuple-valued self, two chained mems, delays of 5 and 9, a 3-tuple self feeding a delay) and two look-alikes (three nested counters; a nested counter plus a mem) that partially resemble each other and the mem voice, always by fewer cells than either carries itself. A history is 2-5 steps `run r samples; edit; hot-swap`: insert / delete / replace a voice at any position, change a voice's constant, nest a voice one call deeper, or an edit that does not compile (syntax or type error). Oracle: a per-voice model in the harness predicts every channel of every sample — an untouched voice continues from its state, a new voice starts from zero (with `now` continuing), a failed compile changes nothing and is never swapped in; a re-nested voice is not predicted. Both runtimes. Non-trivial = at least one edit step was executed.".into()
    }
    fn assumptions(&self) -> Vec<String> {
        vec!["voices with pairwise distinct cell shapes make 'untouched' unambiguous (C08 allows exchange among identical shapes)".into(), "the per-voice model is trusted: it is checked against the running program before any edit (signature model-mismatch-before-any-edit)".into()]
    }
    fn level(&self) -> &'static str {
        "fault_enumeration"
    }
    fn required_classes(&self, _tier: Tier) -> Vec<&'static str> {
        vec!["edit:insert", "edit:delete", "edit:replace", "edit:replace-all", "edit:constant", "edit:nest", "edit:fault", "backend:vm", "backend:wasm"]
    }
}
