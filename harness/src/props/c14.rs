//! C14 — the formatter never changes a program, loses no comment, and is idempotent.

#[path = "c14_fp.rs"]
mod fp;
#[path = "c14_gen.rs"]
mod gen_;

use crate::engine::case::*;
use crate::engine::panics;
use crate::engine::rng::hash64;
use crate::engine::shrink::text_candidates;
use crate::engine::tape::Gen;
use crate::gens::textgen as tg;
use fp::Features;
use mimium_fmt::{pretty_print_cst, GLOBAL_DATA};
use mimium_lang::compiler::parser::{self, SyntaxKind, TokenKind};
use serde_json::{json, Value};
use std::sync::OnceLock;

pub struct C14;

pub const WIDTHS: [usize; 8] = [1, 8, 20, 40, 50, 80, 120, 1000];
pub const INDENTS: [usize; 4] = [0, 2, 4, 8];
/// the same values, simplest first (choice 0 of a random draw is the minimal one)
const WIDTHS_SIMPLE_FIRST: [usize; 8] = [80, 1000, 120, 50, 40, 20, 8, 1];
const INDENTS_SIMPLE_FIRST: [usize; 4] = [4, 2, 8, 0];
const DEFAULT_INDENT: usize = 4;

// ---------------------------------------------------------------------------------------------
// the code under test
// ---------------------------------------------------------------------------------------------

fn set_indent(n: usize) {
    // the formatter reads the indent through try_lock (falling back to 4), so the guard must be
    // released before the formatter runs
    let mut g = GLOBAL_DATA.lock().unwrap_or_else(|e| e.into_inner());
    g.indent_size = n;
}

/// `Ok(Ok(text))`, `Ok(Err(n diagnostics))`, `Err(panic)`
fn format(src: &str, width: usize) -> Result<Result<String, usize>, panics::PanicInfo> {
    panics::catch(|| pretty_print_cst(src, &None, width).map_err(|e| e.len()))
}

// ---------------------------------------------------------------------------------------------
// oracle
// ---------------------------------------------------------------------------------------------

/// one oracle violation: (kind, message); kinds are the unqualified signature stems
struct Violation {
    kind: &'static str,
    panic_sig: Option<String>,
    msg: String,
}

struct Observed {
    violations: Vec<Violation>,
    out: Option<String>,
    /// the second pass, when it differs from the first
    again: Option<String>,
}

fn first_line_diff(a: &str, b: &str) -> String {
    let mut la = a.split('\n');
    let mut lb = b.split('\n');
    let mut n = 1;
    loop {
        match (la.next(), lb.next()) {
            (Some(x), Some(y)) if x == y => n += 1,
            (x, y) => return format!("line {n}: first pass {:?} / second pass {:?}", x.map(|s| s.chars().take(100).collect::<String>()), y.map(|s| s.chars().take(100).collect::<String>())),
        }
    }
}

fn is_subsequence(a: &[String], b: &[String]) -> bool {
    let mut it = b.iter();
    a.iter().all(|x| it.any(|y| y == x))
}

/// Run the formatter on a valid text and collect every oracle violation, in the fixed order
/// format / parse / tree / comments / idempotence.  `src_fp` is the fingerprint of `src`.
fn observe(src: &str, src_fp: &str, width: usize, indent: usize) -> Observed {
    set_indent(indent);
    let o = observe_inner(src, src_fp, width);
    set_indent(DEFAULT_INDENT);
    o
}

fn observe_inner(src: &str, src_fp: &str, width: usize) -> Observed {
    let mut v = vec![];
    let out = match format(src, width) {
        Err(p) => {
            v.push(Violation { kind: "panic", panic_sig: Some(p.signature()), msg: format!("the formatter panicked: {}", p.describe()) });
            return Observed { violations: v, out: None, again: None };
        }
        Ok(Err(n)) => {
            v.push(Violation { kind: "format-error", panic_sig: None, msg: format!("pretty_print_cst returned Err ({n} diagnostics) on a text that parses without errors") });
            return Observed { violations: v, out: None, again: None };
        }
        Ok(Ok(s)) => s,
    };
    // the output parses, to the same tree
    let out_parses = match panics::catch(|| fp::parse_fp(&out)) {
        Err(p) => {
            v.push(Violation { kind: "output-does-not-parse", panic_sig: None, msg: format!("the parser panicked on the formatter's output: {}", p.describe()) });
            false
        }
        Ok(Err(e)) => {
            v.push(Violation { kind: "output-does-not-parse", panic_sig: None, msg: format!("the output has {e}") });
            false
        }
        Ok(Ok(out_fp)) => {
            if out_fp != src_fp {
                v.push(Violation { kind: "ast-changed", panic_sig: None, msg: fp::fp_diff(src_fp, &out_fp) });
            }
            true
        }
    };
    // comments
    let cs = fp::comments(src);
    let co = fp::comments(&out);
    if cs != co {
        let mut a = cs.clone();
        let mut b = co.clone();
        a.sort();
        b.sort();
        let first = cs.iter().zip(co.iter()).position(|(x, y)| x != y).unwrap_or(cs.len().min(co.len()));
        let show = |v: &Vec<String>| v.get(first).map(|s| s.chars().take(60).collect::<String>());
        let (kind, what) = if a == b {
            ("comment-reordered", "the same comments appear in a different order")
        } else if is_subsequence(&cs, &co) {
            ("comment-added", "the output has comments the input does not have")
        } else {
            ("comment-lost", "a comment of the input is missing from the output")
        };
        v.push(Violation { kind, panic_sig: None, msg: format!("{what}: input has {} comments, output {}; first difference at comment #{first}: input {:?} / output {:?}", cs.len(), co.len(), show(&cs), show(&co)) });
    }
    // fixed point
    let mut second = None;
    if out_parses {
        match format(&out, width) {
            Err(p) => v.push(Violation { kind: "panic", panic_sig: Some(p.signature()), msg: format!("the formatter panicked on its own output: {}", p.describe()) }),
            Ok(Err(_)) => v.push(Violation { kind: "not-idempotent", panic_sig: None, msg: "formatting the output again returns Err".into() }),
            Ok(Ok(again)) => {
                if again != out {
                    v.push(Violation { kind: "not-idempotent", panic_sig: None, msg: format!("formatting the output again changes it; {}", first_line_diff(&out, &again)) });
                    second = Some(again);
                }
            }
        }
    }
    Observed { violations: v, out: Some(out), again: second }
}

// ---------------------------------------------------------------------------------------------
// triaged root causes (known findings)
//
// Structural defects (the output does not parse / parses to another tree) are attributed by a
// token-level REPAIR: the non-trivia tokens of the output are aligned with those of the input;
// exactly the differences the triaged defects produce are undone (a comma inserted in front of
// `:` / `=` inside a list item, `| |` fused to `||`, tokens glued together without a space after
// `if` / `macro`, in type declarations, match expressions, module bodies and behind a lambda's
// union return type, missing separators between match arms / module statements, `- -x` fused,
// the dropped comma of `(x,)`, `{` printed as `(`).  Only if the repaired output then parses to
// the input's tree is the violation attributed to those findings, so any further defect in the
// same text is still reported.
// Comment defects are attributed by predicting the output's comment sequence from the input.
// ---------------------------------------------------------------------------------------------

struct CaseView<'a> {
    src: &'a str,
    src_fp: &'a str,
    out: Option<&'a str>,
    /// second pass, when it differs from the first
    again: Option<&'a str>,
    feats: &'a Features,
}

/// ids of the known findings (switches for `--no-exclude`) and their signature qualifiers
pub const KF_LIST_SPLIT: (&str, &str) = ("C14-list-item-split", "list-item-split");
pub const KF_EMPTY_LAMBDA: (&str, &str) = ("C14-empty-lambda-bars-fused", "empty-lambda-bars-fused");
pub const KF_IF_BARE: (&str, &str) = ("C14-if-condition-glued", "if-condition-glued");
pub const KF_TYPE_DECL: (&str, &str) = ("C14-type-decl-unspaced", "type-decl-unspaced");
pub const KF_MATCH: (&str, &str) = ("C14-match-unspaced", "match-unspaced");
pub const KF_BLOCK_END_COMMENT: (&str, &str) = ("C14-comment-after-block-end-lost", "after-block-end");
pub const KF_COMMA_COMMENT: (&str, &str) = ("C14-comment-after-comma-lost", "after-comma");
pub const KF_USE_BRACES_COMMENT: (&str, &str) = ("C14-comment-in-use-braces-lost", "in-use-braces");
pub const KF_SINGLE_TUPLE: (&str, &str) = ("C14-single-element-tuple-comma-dropped", "single-element-tuple-comma-dropped");
pub const KF_MACRO_DECL: (&str, &str) = ("C14-macro-keyword-glued", "macro-keyword-glued");
pub const KF_NESTED_UNARY: (&str, &str) = ("C14-nested-unary-operators-fused", "nested-unary-operators-fused");
pub const KF_LAMBDA_UNION: (&str, &str) = ("C14-lambda-union-return-type-glued", "lambda-union-return-type-glued");
pub const KF_TYPE_PAREN_COMMENT: (&str, &str) = ("C14-comment-at-unprinted-type-paren-lost", "at-unprinted-type-paren");
pub const KF_RECORD_TYPE_DELIM: (&str, &str) = ("C14-record-type-paren-element-wrong-delimiter", "record-type-paren-element-wrong-delimiter");
pub const KF_MODULE_BODY: (&str, &str) = ("C14-module-body-statements-unseparated", "module-body-statements-unseparated");
pub const KF_PAREN_RECORD_LOOKAHEAD: (&str, &str) = ("C14-paren-expr-reads-as-tuple-within-lookahead", "paren-expr-reads-as-tuple-within-lookahead");
pub const KF_HEADER_DUP: (&str, &str) = ("C14-first-token-leading-comment-duplicated", "first-token-leading-duplicated");

type Finding = (&'static str, &'static str);

/// the qualifier of a signature is the first finding in this order (most specific first)
const STRUCTURAL_ORDER: &[Finding] = &[
    KF_RECORD_TYPE_DELIM,
    KF_LAMBDA_UNION,
    KF_NESTED_UNARY,
    KF_SINGLE_TUPLE,
    KF_MACRO_DECL,
    KF_MODULE_BODY,
    KF_IF_BARE,
    KF_EMPTY_LAMBDA,
    KF_MATCH,
    KF_TYPE_DECL,
    KF_LIST_SPLIT,
    KF_PAREN_RECORD_LOOKAHEAD,
];

fn by_specificity(mut v: Vec<Finding>) -> Vec<Finding> {
    v.sort_by_key(|f| STRUCTURAL_ORDER.iter().position(|x| x == f).unwrap_or(usize::MAX));
    v
}

fn push_unique(v: &mut Vec<Finding>, f: Finding) {
    if !v.contains(&f) {
        v.push(f);
    }
}

/// Undo the triaged token-level defects in `out`.  Returns the repaired text and the findings
/// whose trace was undone; None when the token streams differ in any other way.
fn repair(c: &CaseView) -> Result<(String, Vec<Finding>), String> {
    let Some(out) = c.out else { return Err(String::new()) };
    let st_all = parser::tokenize(c.src);
    let ot_all = parser::tokenize(out);
    let st: Vec<usize> = (0..st_all.len()).filter(|i| !st_all[*i].is_trivia() && st_all[*i].kind != TokenKind::Eof).collect();
    let ot: Vec<usize> = (0..ot_all.len()).filter(|i| !ot_all[*i].is_trivia() && ot_all[*i].kind != TokenKind::Eof).collect();
    let stext = |i: usize| st_all[st[i]].text(c.src);
    let otext = |j: usize| ot_all[ot[j]].text(out);
    let mut found: Vec<Finding> = vec![];
    // (byte range in out, replacement)
    let mut edits: Vec<(usize, usize, String)> = vec![];
    // line breaks put between module-body statements: they alone are not evidence of a defect
    // (`}pub fn` parses), they only matter when the repaired text is what makes the tree equal
    let mut module_seps = 0usize;
    let (mut i, mut j) = (0usize, 0usize);
    while i < st.len() && j < ot.len() {
        let (s, o) = (stext(i), otext(j));
        // parentheses around an element type of a tuple type are never printed (the parser keeps
        // no node for them: the tree is the same)
        if c.feats.align_skip.contains(&st[i]) {
            i += 1;
            continue;
        }
        // `{a: (T)}`: the record type's `{` is printed as the element's `(`
        if let Some((_, want)) = c.feats.align_replace.iter().find(|(t, _)| *t == st[i]) {
            if o == *want && s != o {
                let t = &ot_all[ot[j]];
                edits.push((t.start, t.end(), s.to_string()));
                push_unique(&mut found, KF_RECORD_TYPE_DELIM);
                i += 1;
                j += 1;
                continue;
            }
        }
        if s == o {
            // a unary operator printed directly behind another one (`- -x` -> `--x`): the parser
            // refuses consecutive operators without whitespace
            if matches!(s, "-" | "+") && i > 0 && j > 0 && matches!(stext(i - 1), "-" | "+") && c.feats.lca_after.get(st[i - 1]).copied().flatten() == Some(SyntaxKind::UnaryExpr) {
                let (po, to) = (&ot_all[ot[j - 1]], &ot_all[ot[j]]);
                let (ps, ts) = (&st_all[st[i - 1]], &st_all[st[i]]);
                if po.end() == to.start && ps.end() != ts.start {
                    edits.push((to.start, to.start, " ".into()));
                    push_unique(&mut found, KF_NESTED_UNARY);
                }
            }
            // two match arms printed on one line without a separator
            if c.feats.lca_after.get(st[i]).copied().flatten() == Some(SyntaxKind::MatchArmList) && j + 1 < ot.len() && i + 1 < st.len() && stext(i + 1) != "," {
                let (a, b) = (ot_all[ot[j]].end(), ot_all[ot[j + 1]].start);
                if !out[a..b].contains('\n') {
                    edits.push((a, a, "\n".into()));
                    push_unique(&mut found, KF_MATCH);
                }
            }
            // two statements of a module body printed on one line without a separator
            if c.feats.lca_after.get(st[i]).copied().flatten() == Some(SyntaxKind::ModuleDecl) && j + 1 < ot.len() && i + 1 < st.len() && !matches!(s, "mod" | "{") && stext(i + 1) != "}" && stext(i + 1) != "{" {
                let (a, b) = (ot_all[ot[j]].end(), ot_all[ot[j + 1]].start);
                if !out[a..b].contains('\n') {
                    edits.push((a, a, "\n".into()));
                    module_seps += 1;
                }
            }
            i += 1;
            j += 1;
            continue;
        }
        // `| |` printed as `||`
        if s == "|" && i + 1 < st.len() && stext(i + 1) == "|" && o == "||" {
            let t = &ot_all[ot[j]];
            edits.push((t.start, t.end(), "| |".into()));
            push_unique(&mut found, KF_EMPTY_LAMBDA);
            i += 2;
            j += 1;
            continue;
        }
        // a comma the printer put between the parts of one list item: `x, :T`, `x, =1`, `a, :, T`, `a, =, p`
        if o == "," && s != "," {
            let next = if j + 1 < ot.len() { otext(j + 1) } else { "" };
            let prev = if j > 0 { otext(j - 1) } else { "" };
            if matches!(next, ":" | "=") || matches!(prev, ":" | "=") {
                let t = &ot_all[ot[j]];
                edits.push((t.start, t.end(), String::new()));
                push_unique(&mut found, KF_LIST_SPLIT);
                j += 1;
                continue;
            }
            return Err(format!(" [the output has a comma the input does not have, before {next:?}]"));
        }
        // the trailing comma of a one-element tuple `(x,)` left out: `(x)` is another tree
        if s == "," && o != "," && c.feats.single_tuple_commas.contains(&st[i]) {
            let t = &ot_all[ot[j]];
            edits.push((t.start, t.start, ",".into()));
            push_unique(&mut found, KF_SINGLE_TUPLE);
            i += 1;
            continue;
        }
        // a (trailing) comma the printer left out: ordinary formatting
        if s == "," && o != "," {
            i += 1;
            continue;
        }
        // several input tokens printed without anything between them (the glued text may
        // tokenise differently: `a` `0.0` -> `a0` `.0`)
        {
            let (mut k, mut l) = (i, j);
            let (mut acc_s, mut acc_o) = (String::new(), String::new());
            let mut ok = true;
            loop {
                if acc_s.len() <= acc_o.len() {
                    if k >= st.len() || k - i > 64 {
                        ok = false;
                        break;
                    }
                    acc_s.push_str(stext(k));
                    k += 1;
                } else {
                    if l >= ot.len() || (l > j && ot_all[ot[l]].start != ot_all[ot[l - 1]].end()) {
                        ok = false;
                        break;
                    }
                    acc_o.push_str(otext(l));
                    l += 1;
                }
                let n = acc_s.len().min(acc_o.len());
                if acc_s.as_bytes()[..n] != acc_o.as_bytes()[..n] {
                    ok = false;
                    break;
                }
                if acc_s.len() == acc_o.len() && l > j {
                    // one input token that the output splits (`0.0` -> `0` `.` `0` in front of a
                    // glued `0.0`): the glued run goes on
                    let run_goes_on = l < ot.len() && ot_all[ot[l]].start == ot_all[ot[l - 1]].end();
                    if k - i >= 2 || !run_goes_on {
                        break;
                    }
                }
            }
            if ok && k - i >= 2 {
                // the node that joins each pair of glued tokens tells which printer rule is missing
                for x in i..k - 1 {
                    let f = match c.feats.lca_after.get(st[x]).copied().flatten() {
                        Some(SyntaxKind::TypeDecl | SyntaxKind::VariantDef) => KF_TYPE_DECL,
                        Some(SyntaxKind::MatchExpr | SyntaxKind::MatchArm | SyntaxKind::MatchArmList | SyntaxKind::MatchPattern | SyntaxKind::ConstructorPattern) => KF_MATCH,
                        Some(SyntaxKind::IfExpr) if stext(x) == "if" => KF_IF_BARE,
                        Some(SyntaxKind::FunctionDecl) if stext(x) == "macro" => KF_MACRO_DECL,
                        Some(SyntaxKind::ModuleDecl) if !matches!(stext(x), "mod" | "{") && stext(x + 1) != "}" => KF_MODULE_BODY,
                        Some(SyntaxKind::LambdaExpr) if c.feats.lambda_union_ret_last.contains(&st[x]) => KF_LAMBDA_UNION,
                        // tokens glued in a construct that has not been triaged: not a known finding
                        k => return Err(format!(" [the output glues the input tokens {:?} and {:?} (joined by a {k:?} node), which no triaged defect explains]", stext(x), stext(x + 1))),
                    };
                    push_unique(&mut found, f);
                }
                // match arms need a separator of their own (`0 => (a)` `() => 1` would read `(a)()`)
                let mut joined = String::new();
                for x in i..k {
                    joined.push_str(stext(x));
                    if x + 1 < k {
                        joined.push(if matches!(c.feats.lca_after.get(st[x]).copied().flatten(), Some(SyntaxKind::MatchArmList | SyntaxKind::ModuleDecl)) { '\n' } else { ' ' });
                    }
                }
                edits.push((ot_all[ot[j]].start, ot_all[ot[l - 1]].end(), joined));
                i = k;
                j = l;
                continue;
            }
        }
        return Err(format!(" [token streams diverge: input {s:?} / output {o:?}]"));
    }
    while i < st.len() && (stext(i) == "," || c.feats.align_skip.contains(&st[i])) {
        i += 1;
    }
    if i != st.len() || j != ot.len() {
        return Err(" [the output has fewer or more tokens than the input]".into());
    }
    if found.is_empty() && module_seps > 0 {
        found.push(KF_MODULE_BODY);
    }
    if found.is_empty() {
        return Err(" [the output has the input's tokens in order, up to list commas: the defect is in the placement of line breaks, commas or comments]".into());
    }
    let mut fixed = String::with_capacity(out.len() + 16);
    let mut pos = 0;
    for (a, b, r) in edits {
        fixed.push_str(&out[pos..a]);
        fixed.push_str(&r);
        pos = b;
    }
    fixed.push_str(&out[pos..]);
    Ok((fixed, found))
}

/// The findings that fully explain a structural violation (the repaired output parses to the
/// input's tree); otherwise a note for the failure message.
fn explain_structure(c: &CaseView) -> Result<Vec<Finding>, String> {
    let (fixed, found) = repair(c)?;
    let names: Vec<&str> = found.iter().map(|f| f.0).collect();
    match panics::catch(|| fp::parse_fp(&fixed)) {
        Ok(Ok(f)) if f == c.src_fp => Ok(by_specificity(found)),
        Ok(Ok(f)) if paren_lookahead(c, &f) => {
            let mut found = found;
            found.push(KF_PAREN_RECORD_LOOKAHEAD);
            Ok(by_specificity(found))
        }
        Ok(Ok(f)) => Err(format!(" [with the traces of {names:?} undone the output parses, but to another tree: {}]", fp::fp_diff(c.src_fp, &f))),
        Ok(Err(e)) => Err(format!(" [with the traces of {names:?} undone the output still has {e}]")),
        Err(p) => Err(format!(" [with the traces of {names:?} undone the parser panics: {}]", p.describe())),
    }
}

/// The parser decides "tuple or parenthesised expression" by looking for a comma within the next
/// 20 tokens, counting parentheses but not braces: `({a = 1, ..})` or `(match x {0 => 1, _ => 2})`
/// reads as a one-element tuple when such a comma is within reach and as a parenthesised
/// expression when it is not.  The printer drops trailing commas of lists, which can move the
/// comma into reach.  Predicate: the input has a parenthesised expression that holds a brace,
/// and the two trees are equal once one-element tuples and parentheses are both read as their
/// content.
fn paren_lookahead(c: &CaseView, out_fp: &str) -> bool {
    let toks = parser::tokenize(c.src);
    let mut depth = 0usize;
    let mut brace_in_paren = false;
    for t in toks.iter().filter(|t| !t.is_trivia()) {
        match t.kind {
            TokenKind::ParenBegin => depth += 1,
            TokenKind::ParenEnd => depth = depth.saturating_sub(1),
            TokenKind::BlockBegin if depth > 0 => brace_in_paren = true,
            _ => {}
        }
    }
    brace_in_paren && (c.feats.has(SyntaxKind::ParenExpr) || c.feats.has(SyntaxKind::TupleExpr)) && fp::without_single_tuples(out_fp) == fp::without_single_tuples(c.src_fp)
}

/// Which known finding drops the comment at this site?
fn comment_drop_site(s: &fp::CommentSite, feats: &Features) -> Option<Finding> {
    if feats.unprinted_type_parens.contains(&s.owner_token) {
        return Some(KF_TYPE_PAREN_COMMENT);
    }
    if !s.leading && s.owner == TokenKind::BlockEnd && s.parent == Some(SyntaxKind::BlockExpr) {
        return Some(KF_BLOCK_END_COMMENT);
    }
    if matches!(s.owner, TokenKind::Comma | TokenKind::BlockBegin | TokenKind::BlockEnd) && s.parent == Some(SyntaxKind::UseTargetMultiple) {
        return Some(KF_USE_BRACES_COMMENT);
    }
    // the list printers skip the comma tokens together with the trivia attached to them
    if s.owner == TokenKind::Comma
        && matches!(
            s.parent,
            Some(
                SyntaxKind::ParamList
                    | SyntaxKind::ArgList
                    | SyntaxKind::TupleExpr
                    | SyntaxKind::ArrayExpr
                    | SyntaxKind::RecordExpr
                    | SyntaxKind::TupleType
                    | SyntaxKind::RecordType
                    | SyntaxKind::TuplePattern
                    | SyntaxKind::RecordPattern
                    | SyntaxKind::LambdaExpr
                    | SyntaxKind::MacroExpansion
            )
        )
    {
        return Some(KF_COMMA_COMMENT);
    }
    None
}

/// Predict the output's comment sequence from the input under the triaged comment defects
/// (comments at a drop site vanish; comments in front of the file's first token on its own
/// line are printed twice).  If the prediction equals the output, return the findings involved.
fn explain_comment_changes(c: &CaseView) -> Option<Vec<Finding>> {
    let out = c.out?;
    let co = fp::comments(out);
    let toks = parser::tokenize(c.src);
    let first_nt = toks.iter().position(|t| !t.is_trivia()).unwrap_or(toks.len());
    let mut header = vec![]; // comments before the first token
    let mut dup = vec![]; // those printed a second time
    let mut rest = vec![];
    let mut ids: Vec<Finding> = vec![];
    for (ti, t) in toks.iter().enumerate() {
        if !matches!(t.kind, TokenKind::SingleLineComment | TokenKind::MultiLineComment) {
            continue;
        }
        let text = t.text(c.src).trim_end().to_string();
        let site = c.feats.comment_sites.iter().find(|s| s.token == ti);
        if ti < first_nt {
            header.push(text.clone());
            if site.map(|s| s.leading).unwrap_or(false) {
                dup.push(text);
                push_unique(&mut ids, KF_HEADER_DUP);
            }
            continue;
        }
        match site.and_then(|s| comment_drop_site(s, c.feats)) {
            Some(k) => push_unique(&mut ids, k),
            None => rest.push(text),
        }
    }
    let mut expected = header;
    expected.extend(dup);
    expected.extend(rest);
    if !ids.is_empty() && expected == co { Some(ids) } else { None }
}

/// Is the difference between the first and the second pass the duplicated-header-comment defect
/// (and nothing else)?  The first pass is taken as the input of the second.
fn header_dup_again(c: &CaseView) -> Option<Vec<Finding>> {
    let (out, again) = (c.out?, c.again?);
    let feats = fp::features(out)?;
    let out_fp = fp::parse_fp(out).ok()?;
    if fp::parse_fp(again).ok()? != out_fp {
        return None;
    }
    let v2 = CaseView { src: out, src_fp: &out_fp, out: Some(again), again: None, feats: &feats };
    match explain_comment_changes(&v2) {
        Some(ids) if ids == vec![KF_HEADER_DUP] => Some(ids),
        _ => None,
    }
}

/// (signature, known findings that fully explain this violation — empty if it is not explained,
/// note for the message).
/// `structural`: findings that explained an earlier structural violation of the same case.
fn classify(c: &CaseView, v: &Violation, structural: &[Finding]) -> (String, Vec<Finding>, String) {
    let mut note = String::new();
    let found: Option<Vec<Finding>> = match v.kind {
        "panic" => return (format!("c14:{}", v.panic_sig.clone().unwrap_or_else(|| "panic".into())), vec![], note),
        "output-does-not-parse" | "ast-changed" => match explain_structure(c) {
            Ok(f) => Some(f),
            Err(n) => {
                if v.kind == "ast-changed" && n.contains("tokens in order") && c.out.and_then(|o| fp::parse_fp(o).ok()).map(|f| paren_lookahead(c, &f)).unwrap_or(false) {
                    Some(vec![KF_PAREN_RECORD_LOOKAHEAD])
                } else {
                    note = n;
                    None
                }
            }
        },
        "comment-lost" | "comment-added" | "comment-reordered" => explain_comment_changes(c).map(|mut ids| {
            // qualifier: a drop site for a loss, the duplication for an addition
            let dup_first = v.kind == "comment-added";
            ids.sort_by_key(|f| (*f == KF_HEADER_DUP) != dup_first);
            ids
        }),
        // the output is (by an explained defect) another program than the input: its second
        // formatting is not the subject any more
        "not-idempotent" if !structural.is_empty() => Some(structural.to_vec()),
        // every pass prints the comments in front of the first token once more: the second pass
        // differs from the first exactly as that defect predicts
        "not-idempotent" => header_dup_again(c),
        _ => None,
    };
    match found {
        Some(f) if !f.is_empty() => (format!("c14:{}:{}", v.kind, f[0].1), f, note),
        _ => (format!("c14:{}", v.kind), vec![], note),
    }
}

// ---------------------------------------------------------------------------------------------
// case assembly
// ---------------------------------------------------------------------------------------------

fn clip(s: &str, n: usize) -> String {
    if s.len() <= n {
        return s.to_string();
    }
    let mut e = n;
    while !s.is_char_boundary(e) {
        e -= 1;
    }
    format!("{}…[{} bytes]", &s[..e], s.len())
}

/// fingerprints of the shipped sources (None: the parser reports an error)
fn corpus_fps() -> &'static Vec<Option<String>> {
    static C: OnceLock<Vec<Option<String>>> = OnceLock::new();
    C.get_or_init(|| tg::corpus().iter().map(|(_, s)| fp::parse_fp(s).ok()).collect())
}

/// indices of the valid shipped sources
fn valid_corpus() -> &'static Vec<usize> {
    static C: OnceLock<Vec<usize>> = OnceLock::new();
    C.get_or_init(|| corpus_fps().iter().enumerate().filter(|(_, f)| f.is_some()).map(|(i, _)| i).collect())
}

struct Input<'a> {
    src: &'a str,
    width: usize,
    indent: usize,
    source: &'static str,
    /// fingerprint `src` must have (mutants: the unmutated text's), if known
    expect_fp: Option<&'a str>,
    /// fingerprint of `src` when already computed
    known_fp: Option<&'a str>,
    labels: Vec<String>,
}

fn finish(i: Input, cx: &Cx) -> CaseResult {
    let direct = json!({"text": i.src, "width": i.width, "indent": i.indent});
    if cx.dry {
        let mut r = CaseResult::discard("dry");
        r.render = Some(json!({"text": clip(i.src, 600), "width": i.width, "indent": i.indent}));
        r.direct = Some(direct);
        return r;
    }
    // domain: the parser reports no error (and, for a mutant, the tree is the unmutated one)
    let owned;
    let src_fp: &str = match i.known_fp {
        Some(f) => f,
        None => match panics::catch(|| fp::parse_fp(i.src)) {
            Ok(Ok(f)) => {
                owned = f;
                &owned
            }
            _ => {
                let mut r = CaseResult::discard(format!("not-valid:{}", i.source));
                r.classes.push(format!("src:{}", i.source));
                return r;
            }
        },
    };
    if let Some(e) = i.expect_fp {
        if e != src_fp {
            let mut r = CaseResult::discard(format!("mutation-changed-tree:{}", i.source));
            r.classes.push(format!("src:{}", i.source));
            return r;
        }
    }
    let feats = fp::features(i.src).unwrap_or_default();
    let has_comment = feats.n_comments > 0;
    let needs_break = i.src.lines().any(|l| l.chars().count() > i.width);
    let mut hb = Vec::with_capacity(i.src.len() + 16);
    hb.extend_from_slice(i.src.as_bytes());
    hb.extend_from_slice(&(i.width as u64).to_le_bytes());
    hb.extend_from_slice(&(i.indent as u64).to_le_bytes());
    let hash = hash64(&hb);

    let ob = observe(i.src, src_fp, i.width, i.indent);
    let view = CaseView { src: i.src, src_fp, out: ob.out.as_deref(), again: ob.again.as_deref(), feats: &feats };
    let mut excluded: Vec<&'static str> = vec![];
    let mut structural: Vec<Finding> = vec![];
    let mut failure: Option<(String, String)> = None;
    for v in &ob.violations {
        let (sig, known, note) = classify(&view, v, &structural);
        if matches!(v.kind, "output-does-not-parse" | "ast-changed") {
            structural = known.clone();
        }
        if !known.is_empty() && !cx.strict && known.iter().all(|k| cx.excluded(k.0)) {
            for k in known {
                if !excluded.contains(&k.0) {
                    excluded.push(k.0);
                }
            }
        } else {
            failure = Some((sig, format!("{}{note}", v.msg)));
            break;
        }
    }
    let mut r = match (&failure, excluded.is_empty()) {
        (Some((s, m)), _) => CaseResult::fail(hash, s.clone(), m.clone()),
        (None, true) => CaseResult::held(hash),
        (None, false) => CaseResult::discard(format!("known-finding:{}", excluded[0])),
    };
    for id in &excluded {
        r.count(&format!("excluded_by_known_finding:{id}"), 1);
        r.classes.push(format!("known:{id}"));
    }
    r.nontrivial = has_comment || needs_break;
    r.classes.push(format!("src:{}", i.source));
    r.classes.push(format!("width:{}", i.width));
    r.classes.push(format!("indent:{}", i.indent));
    if has_comment {
        r.classes.push("has-comment".into());
    }
    if needs_break {
        r.classes.push("needs-break".into());
    }
    if !r.nontrivial {
        r.classes.push("trivial".into());
    }
    for (on, label) in [
        (feats.typed_param || feats.param_default, "has:typed-or-default-param"),
        (feats.record_type_fields || feats.record_pattern_fields, "has:record-type-or-pattern"),
        (feats.has(SyntaxKind::MatchExpr), "has:match"),
        (feats.has(SyntaxKind::TypeDecl), "has:type-decl"),
        (feats.has(SyntaxKind::ModuleDecl), "has:module"),
        (feats.empty_lambda, "has:empty-lambda"),
        (feats.if_cond_bare, "has:if-without-paren"),
    ] {
        if on {
            r.classes.push(label.into());
        }
    }
    r.classes.extend(i.labels);
    if cx.render || r.is_fail() {
        r.render = Some(json!({"text": clip(i.src, 600), "width": i.width, "indent": i.indent, "out": ob.out.as_deref().map(|o| clip(o, 600))}));
        r.direct = Some(direct);
    }
    r
}

fn pick_params(g: &mut Gen) -> (usize, usize) {
    let w = *g.pick(&WIDTHS_SIMPLE_FIRST);
    let n = *g.pick(&INDENTS_SIMPLE_FIRST);
    (w, n)
}

impl Prop for C14 {
    fn id(&self) -> &'static str {
        "C14"
    }
    fn spaces(&self, tier: Tier) -> Vec<Space> {
        let files = tg::corpus().len() as u64;
        let grid = (WIDTHS.len() * INDENTS.len()) as u64;
        let (m, s) = match tier {
            Tier::Quick => (40_000, 40_000),
            Tier::Thorough => (1_500_000, 1_500_000),
        };
        vec![
            Space { name: "corpus", size: files * grid, exhaustive: true, chunk: 800, case_timeout_s: 20.0, what: "every shipped .mmm source that parses without errors x 8 line widths x 4 indent sizes" },
            Space { name: "mutants", size: m, exhaustive: false, chunk: 1000, case_timeout_s: 20.0, what: "valid shipped sources with 1-5 layout/comment mutations (kept only if still error-free with an unchanged tree) x random width x indent" },
            Space { name: "synthetic", size: s, exhaustive: false, chunk: 2000, case_timeout_s: 20.0, what: "programs assembled from a grammar of statement/expression templates, optionally layout-mutated (kept only if error-free) x random width x indent" },
        ]
    }
    fn run(&self, space: &str, index: u64, g: &mut Gen, cx: &Cx) -> CaseResult {
        match space {
            "corpus" => {
                let grid = (WIDTHS.len() * INDENTS.len()) as u64;
                let c = tg::corpus();
                let fi = (index / grid) as usize;
                let rem = (index % grid) as usize;
                let width = WIDTHS[rem / INDENTS.len()];
                let indent = INDENTS[rem % INDENTS.len()];
                let Some((_, src)) = c.get(fi) else { return CaseResult::discard("no-such-file") };
                if cx.dry {
                    return finish(Input { src, width, indent, source: "corpus", expect_fp: None, known_fp: None, labels: vec![] }, cx);
                }
                match &corpus_fps()[fi] {
                    None => {
                        let mut r = CaseResult::discard("not-valid:corpus");
                        r.classes.push("src:corpus-invalid".into());
                        r
                    }
                    Some(f) => finish(Input { src, width, indent, source: "corpus", expect_fp: None, known_fp: Some(f), labels: vec![] }, cx),
                }
            }
            "mutants" => {
                let vc = valid_corpus();
                if vc.is_empty() {
                    return CaseResult::discard("no-valid-corpus-file");
                }
                let fi = vc[g.usize_below(vc.len())];
                let (_, base) = &tg::corpus()[fi];
                let n = 1 + g.usize_below(5);
                let (text, kinds) = gen_::mutate(base, g, n);
                let (width, indent) = pick_params(g);
                let labels = kinds.iter().map(|k| format!("mut:{k}")).collect();
                let base_fp = corpus_fps()[fi].as_deref();
                finish(Input { src: &text, width, indent, source: "mutant", expect_fp: base_fp, known_fp: None, labels }, cx)
            }
            _ => {
                let (base, used) = gen_::synthetic(g);
                let nm = g.weighted(&[3, 2, 2, 1]);
                let (width, indent) = pick_params(g);
                let mut labels: Vec<String> = used.iter().map(|k| format!("syn:{k}")).collect();
                if nm == 0 || cx.dry {
                    return finish(Input { src: &base, width, indent, source: "synthetic", expect_fp: None, known_fp: None, labels }, cx);
                }
                // layout mutations of the synthetic program: the tree must stay the unmutated one
                let base_fp = match panics::catch(|| fp::parse_fp(&base)) {
                    Ok(Ok(f)) => f,
                    _ => {
                        let mut r = CaseResult::discard("not-valid:synthetic");
                        r.classes.push("src:synthetic".into());
                        return r;
                    }
                };
                let (text, kinds) = gen_::mutate(&base, g, nm);
                labels.extend(kinds.iter().map(|k| format!("mut:{k}")));
                finish(Input { src: &text, width, indent, source: "synthetic", expect_fp: Some(&base_fp), known_fp: None, labels }, cx)
            }
        }
    }
    fn run_direct(&self, input: &Value, cx: &Cx) -> Option<CaseResult> {
        let t = input.get("text")?.as_str()?;
        let width = input.get("width").and_then(|v| v.as_u64()).unwrap_or(80) as usize;
        let indent = input.get("indent").and_then(|v| v.as_u64()).unwrap_or(DEFAULT_INDENT as u64) as usize;
        Some(finish(Input { src: t, width, indent, source: "direct", expect_fp: None, known_fp: None, labels: vec![] }, cx))
    }
    fn shrink_direct(&self, input: &Value) -> Vec<Value> {
        let Some(t) = input.get("text").and_then(|v| v.as_str()) else { return vec![] };
        let width = input.get("width").and_then(|v| v.as_u64()).unwrap_or(80);
        let indent = input.get("indent").and_then(|v| v.as_u64()).unwrap_or(DEFAULT_INDENT as u64);
        // a candidate that no longer parses without errors is answered with Discard by
        // `run_direct`, so the shrinker rejects it
        let mut out: Vec<Value> = text_candidates(t).into_iter().map(|s| json!({"text": s, "width": width, "indent": indent})).collect();
        if indent != DEFAULT_INDENT as u64 {
            out.push(json!({"text": t, "width": width, "indent": DEFAULT_INDENT}));
        }
        out
    }
    fn rule(&self) -> String {
        format!(
            "Cases are (text, line width, indent size) with width in {WIDTHS:?} and indent in {INDENTS:?} (set through the public mimium_fmt::GLOBAL_DATA, as the CLI does, and restored to 4 after each case). \
             Texts: (corpus, exhaustive) every shipped .mmm source for which parse_program reports no error; (mutants) such a source with 1-5 edits chosen on its token stream — ' // cN' before a line break, an own-line '// cN' or '/* cN */', \
             ' /* cN */ ' in place of inner whitespace, blank lines added/removed, re-indentation, trailing whitespace, a line break replaced by ';' (the tokenizer reads ';' as a line break), runs of spaces/tabs, CRLF line ends, a line split at inner whitespace with or without a '// cN', '/* cN */' squeezed between two adjacent tokens, a comment in front of the file's first token (own line or same line) — kept only if the \
             parser still reports no error and the tree fingerprint equals the unmutated one; (synthetic) 1-5 top-level statements from a grammar of templates (fn and macro definitions with 0-3 plain/typed/defaulted parameters, trailing commas and return types, let with tuple/record patterns and type annotations, \
             letrec, assignments to names/fields/elements, if/else expression and statement forms with and without parentheses, lambdas (typed, with return types, without parameters), |> and ||> pipes, operator chains of 2-7 operands over all 16 infix operators, unary -/+ (nested too), \
             nested and chained calls, tuples (one-element too), arrays, records/incomplete records/record updates, field/projection/index chains, macro!() and qualified m::f!(), quote/splice, match with literal/constructor/tuple patterns, \
             type/type rec/type alias, types (primitive, tuple, record, array, function, code, union, unit, parenthesised, qualified), inline and external mod, pub, use (single/multiple/wildcard), include, #stage), optionally layout-mutated, kept only if error-free; \
             half of the programs avoid every construct that hits an already triaged defect. \
             Oracle: pretty_print_cst(text, &None, width) is Ok(out) and does not panic; parse_program(out) reports no error; the structural fingerprint of the lowered Program (every statement/expression/pattern/type/literal/operator/visibility, \
             spans ignored) is the same for text and out; the sequence of comment token texts (trailing whitespace trimmed) is the same; pretty_print_cst(out, &None, width) == Ok(out). \
             Known findings: a structural violation is attributed to triaged defects only if undoing exactly their token-level traces in the output makes it parse to the input's tree; a comment violation only if the output's comment sequence is the one \
             those defects predict; such cases are discarded and counted, every other stage of the same case is still judged. \
             Non-trivial = the text has a comment or a line longer than the width; distinct by hash of (text, width, indent)."
        )
    }
    fn assumptions(&self) -> Vec<String> {
        vec![
            "'syntactically valid' = mimium_lang::compiler::parser::parse_program reports no error (the same parser the formatter uses to refuse a text); include/use targets are not resolved, so sources that include other files are in the domain".into(),
            "tree equality is decided on the lowered Program (the input of expr_from_program), which determines the ExprNodeId returned by parse_to_expr and additionally covers type declarations, aliases, use statements and visibility".into(),
            "the parser and tokenizer are trusted as the reference reading of both texts".into(),
            "the formatter's indent size is process-global state; the worker runs cases sequentially".into(),
        ]
    }
    fn required_classes(&self, _tier: Tier) -> Vec<&'static str> {
        let mut v = vec!["has-comment", "needs-break", "src:corpus", "src:mutant", "src:synthetic"];
        v.extend(["mut:eol-line-comment", "mut:own-line-comment", "mut:block-comment", "mut:add-blank-line", "mut:remove-blank-line", "mut:reindent", "mut:trailing-whitespace", "mut:join-semicolon", "mut:multi-space", "mut:crlf", "mut:split-line", "mut:split-line-comment", "mut:tight-block-comment", "mut:file-start-comment"]);
        v
    }
}

pub fn prop() -> Option<&'static dyn Prop> {
    Some(&C14)
}
