//! C01 — VM and WASM backends produce identical audio for every program.

use crate::engine::case::*;
use crate::engine::rng::hash64;
use crate::engine::shrink::text_candidates;
use crate::engine::tape::Gen;
use crate::gens::prog::{self, Layout, PCfg, PG};
use crate::gens::textgen as tg;
use crate::runners::exec::{self, canon, Exec, Inputs, RunOpts};
use serde_json::{json, Value};

pub struct C01;

pub fn prop() -> Option<&'static dyn Prop> {
    Some(&C01)
}

// known-finding exclusion switches (ids in /verif/known_findings.json)
pub const KF_IF_STATE: &str = "C01-state-in-if-arms";
pub const KF_MULTI_DELAY: &str = "C01-multi-delay-size";
pub const KF_NAN_COND: &str = "C01-nan-condition";
pub const KF_DELAY_TIME: &str = "C01-delay-time-out-of-range";
pub const KF_TUPLE_INPUT: &str = "C01-wasm-tuple-input";
pub const KF_UNRESOLVED_SELF: &str = "C03-unresolved-self-type";
pub const KF_MODULO: &str = "C01-modulo-differs";
pub const KF_SELF_IN_TUPLE: &str = "C01-wasm-self-in-tuple";
pub const KF_MAKER_INSTANCES: &str = "C01-wasm-maker-instances";
pub const KF_TUPLE_IF: &str = "C01-wasm-tuple-if";
pub const KF_DEFAULT_ARGS: &str = "C01-wasm-default-args";
pub const KF_GLOBAL_TUPLE: &str = "C01-wasm-global-tuple-in-stateful-fn";
/// (fixed: both findings that needed block operands switched off were the parser's tuple-lookahead
/// defect; the constant is kept for the replays' ids)
pub const KF_BLOCK_OPERAND: &str = "C01-wasm-block-operand";
pub const KF_PROJ_COND: &str = "C01-wasm-proj-in-cond-and-arm";
pub const KF_CAPTURE_DESTRUCTURED: &str = "C01-wasm-closure-captures-destructured";
pub const KF_ARRAY_INF: &str = "C01-array-index-infinite";
pub const KF_WASM_TICK_CLOSURE: &str = "C11-wasm-tick-closure-memory-reused";
pub const KF_VM_DOTS: &str = "C02-defaults-ignored-in-record-with-dots";
pub const KF_ASSIGN_AFTER_ESCAPE: &str = "C01-vm-assignment-after-closure-passed-on";
pub const KF_GLOBAL_RECORD_UPDATE: &str = "C02-field-assignment-to-global-record-ignored";
pub const KF_WASM_UNCALLED_MATCH_FN: &str = "C01-wasm-uncalled-match-function-without-annotation";

pub fn pcfg(cx: &Cx) -> (PCfg, Vec<&'static str>) {
    let mut c = PCfg::default();
    let mut off = vec![];
    if cx.excluded(KF_IF_STATE) {
        c.state_in_branches = false;
        off.push(KF_IF_STATE);
    }
    if cx.excluded(KF_TUPLE_INPUT) {
        c.tuple_inputs = false;
        off.push(KF_TUPLE_INPUT);
    }
    if cx.excluded(KF_MODULO) {
        c.modulo = false;
        off.push(KF_MODULO);
    }
    if cx.excluded(KF_SELF_IN_TUPLE) {
        c.self_in_tuple = false;
        off.push(KF_SELF_IN_TUPLE);
    }
    if cx.excluded(KF_MAKER_INSTANCES) {
        c.multi_maker_instances = false;
        off.push(KF_MAKER_INSTANCES);
    }
    if cx.excluded(KF_TUPLE_IF) {
        c.tuple_if = false;
        off.push(KF_TUPLE_IF);
    }
    if cx.excluded(KF_GLOBAL_TUPLE) {
        c.tuple_globals = false;
        off.push(KF_GLOBAL_TUPLE);
    }
    if cx.excluded(KF_PROJ_COND) {
        c.proj_in_cond = false;
        off.push(KF_PROJ_COND);
    }
    if cx.excluded(KF_CAPTURE_DESTRUCTURED) {
        c.capture_destructured = false;
        off.push(KF_CAPTURE_DESTRUCTURED);
    }
    if cx.excluded(KF_ASSIGN_AFTER_ESCAPE) {
        c.assign_after_closure_escapes = false;
        off.push(KF_ASSIGN_AFTER_ESCAPE);
    }
    if cx.excluded(KF_GLOBAL_RECORD_UPDATE) {
        c.record_update_in_globals = false;
        off.push(KF_GLOBAL_RECORD_UPDATE);
    }
    if cx.excluded(KF_DEFAULT_ARGS) || cx.excluded(KF_VM_DOTS) {
        c.pack_dots = false;
        off.push(KF_DEFAULT_ARGS);
        off.push(KF_VM_DOTS);
    }
    if cx.excluded(KF_UNRESOLVED_SELF) {
        c.unannotated_self = false;
        off.push(KF_UNRESOLVED_SELF);
    }
    (c, off)
}

pub struct Cmp {
    pub fail: Option<(String, String)>,
    pub compiled: bool,
    pub samples: usize,
    pub n_out: u32,
    pub varying: bool,
    pub reject_reason: Option<String>,
    pub discard: Option<String>,
}

/// The differential oracle on one source text.
pub fn compare(src: &str, inputs: &Inputs, n: u64, sched: bool, cmp_state: bool) -> Cmp {
    let mut c = Cmp { fail: None, compiled: false, samples: 0, n_out: 0, varying: false, reject_reason: None, discard: None };
    let o = RunOpts { n, sched, want_state: true, want_counts: false, want_trace: false };
    let vm = exec::run_vm(src, inputs, &o);
    let wa = exec::run_wasm(src, inputs, &o);
    macro_rules! fail {
        ($sig:expr, $($arg:tt)*) => {{ c.fail = Some((format!("c01:{}", $sig), format!($($arg)*))); return c; }};
    }
    match (&vm, &wa) {
        (Exec::Rejected(d), Exec::Rejected(_)) => {
            c.reject_reason = d.first().map(|x| crate::engine::panics::normalise(&x.message));
            return c;
        }
        (Exec::NoIo, Exec::NoIo) => return c,
        (Exec::Rejected(d), other) => fail!("accept-mismatch:vm-rejects", "VM backend rejects ({}) but WASM answers {}", d.first().map(|x| x.message.clone()).unwrap_or_default(), kind(other)),
        (other, Exec::Rejected(d)) => fail!("accept-mismatch:wasm-rejects", "WASM backend rejects ({}) but VM answers {}", d.first().map(|x| x.message.clone()).unwrap_or_default(), kind(other)),
        // documented runtime preconditions (a task scheduled at or before the current sample, a
        // builtin applied to an empty array): outside the property's domain
        (Exec::Panic(_, p), _) | (_, Exec::Panic(_, p)) if p.msg.contains("must be in the future") || p.msg.contains("on empty array") => {
            c.discard = Some("runtime-precondition".into());
            return c;
        }
        (Exec::Panic(stage, p), _) => fail!(format!("vm-{}:{}", stage_kind(stage), p.signature()), "VM {stage}: {}", p.describe()),
        (_, Exec::Panic(stage, p)) => fail!(format!("wasm-{}:{}", stage_kind(stage), p.signature()), "WASM {stage}: {}", p.describe()),
        (_, Exec::Error(stage, e)) => fail!(format!("wasm-error:{stage}:{}", crate::engine::panics::normalise(e)), "WASM {stage} failed: {e}"),
        (Exec::Error(stage, e), _) => fail!(format!("vm-error:{stage}"), "VM {stage} failed: {e}"),
        (Exec::NoIo, _) | (_, Exec::NoIo) => fail!("io-mismatch", "one backend reports no dsp I/O information: vm={} wasm={}", kind(&vm), kind(&wa)),
        (Exec::Ran(a), Exec::Ran(b)) => {
            c.compiled = true;
            c.n_out = a.n_out;
            if (a.n_in, a.n_out) != (b.n_in, b.n_out) {
                fail!("channel-count", "I/O channels differ: vm {}/{} wasm {}/{}", a.n_in, a.n_out, b.n_in, b.n_out);
            }
            if !b.bad_rc.is_empty() {
                fail!("wasm-trap", "WASM run_dsp returned {} at sample {} (VM ran)", b.bad_rc[0].1, b.bad_rc[0].0);
            }
            c.samples = a.samples.len();
            for (t, (x, y)) in a.samples.iter().zip(b.samples.iter()).enumerate() {
                if x.len() != y.len() {
                    fail!("output-width", "sample {t}: vm yields {} words, wasm {}", x.len(), y.len());
                }
                if x.len() != a.n_out as usize {
                    fail!("output-width", "sample {t}: {} words for {} declared channels", x.len(), a.n_out);
                }
                for ch in 0..x.len() {
                    if canon(x[ch]) != canon(y[ch]) {
                        fail!("sample-mismatch", "sample {t} channel {ch}: vm {:?} ({:#x}) wasm {:?} ({:#x})", f64::from_bits(x[ch]), x[ch], f64::from_bits(y[ch]), y[ch]);
                    }
                }
                if t > 0 && a.samples[t] != a.samples[0] {
                    c.varying = true;
                }
            }
            // state words (hook H1): WASM words zero-extended to the skeleton size
            if cmp_state && !a.state.is_empty() && a.state.len() == b.state.len() {
                let size = a.skeleton_words.unwrap_or(0) as usize;
                for (t, (x, y)) in a.state.iter().zip(b.state.iter()).enumerate() {
                    if y.len() > size.max(x.len()) {
                        fail!("state-size", "sample {t}: WASM state has {} words, skeleton {} (VM {})", y.len(), size, x.len());
                    }
                    for i in 0..x.len().max(y.len()) {
                        let xv = x.get(i).copied().unwrap_or(0);
                        let yv = y.get(i).copied().unwrap_or(0);
                        if canon(xv) != canon(yv) {
                            fail!("state-mismatch", "after sample {t}: state word {i} vm {:#x} wasm {:#x}", xv, yv);
                        }
                    }
                }
            }
        }
    }
    c
}

fn kind(e: &Exec) -> &'static str {
    match e {
        Exec::Rejected(_) => "rejected",
        Exec::NoIo => "no-io",
        Exec::Ran(_) => "ran",
        Exec::Panic(..) => "panic",
        Exec::Error(..) => "error",
    }
}
fn stage_kind(s: &str) -> &str {
    if s.starts_with("dsp@") { "dsp-panic" } else if s == "compile" { "compile-panic" } else { "panic" }
}

pub fn gen_inputs(g: &mut Gen) -> Inputs {
    let kind = g.weighted(&[3, 4, 2, 2, 1, 1, 1]) as u8;
    let scale = *g.pick(&[1.0, 0.5, 2.0, 0.1, 100.0, 0.001]);
    Inputs { kind, scale }
}

fn finish(src: &str, inputs: &Inputs, n: u64, sched: bool, classes: Vec<String>, stateful: bool, cx: &Cx, mode: &str) -> CaseResult {
    let key = format!("{src}\u{1}{}\u{1}{n}\u{1}{sched}", inputs.describe());
    let hash = hash64(key.as_bytes());
    let direct = json!({"text": src, "input_kind": inputs.kind, "input_scale": inputs.scale, "n": n, "sched": sched, "state": mode == "gen" || mode == "direct-gen"});
    if cx.dry {
        let mut r = CaseResult::discard("dry");
        r.render = Some(direct.clone());
        r.direct = Some(direct);
        return r;
    }
    // state words are compared for generated programs (numeric state only); shipped sources may keep
    // array/closure handles in state cells, which are runtime-specific identifiers
    let c = compare(src, inputs, n, sched, false);
    if let Some(w) = &c.discard {
        return CaseResult::discard(w.clone());
    }
    // a crash of one backend on a *mutated* shipped source is not judged here (the mutation may
    // have made the program erroneous at run time); mismatches between two runs still are
    if mode == "corpus-mutant" {
        if let Some((s, _)) = &c.fail {
            if s.contains("panic") {
                return CaseResult::discard("mutant-crash");
            }
        }
    }
    let mut r = match &c.fail {
        Some((s, m)) => CaseResult::fail(hash, s.clone(), m.clone()),
        None => CaseResult::held(hash),
    };
    r.classes = classes;
    r.classes.push(format!("mode:{mode}"));
    if !c.compiled && c.fail.is_none() {
        r.classes.push("rejected-by-both".into());
        if let Some(w) = &c.reject_reason {
            r.count(&format!("reject:{w}"), 1);
        }
    }
    if c.compiled {
        r.classes.push("compiled".into());
        if c.varying {
            r.classes.push("output-varies".into());
        }
        if c.n_out >= 2 {
            r.classes.push("multi-out".into());
        }
    }
    let featureful = stateful || r.classes.iter().any(|c| c.starts_with("f:"));
    r.nontrivial = c.compiled && c.samples >= 2 && (featureful || c.n_out >= 2) || r.is_fail();
    if cx.render || r.is_fail() {
        r.render = Some(json!({"text": src, "inputs": inputs.describe(), "n": n, "sched": sched}));
    }
    r.direct = Some(direct);
    r
}

impl Prop for C01 {
    fn id(&self) -> &'static str {
        "C01"
    }
    fn spaces(&self, tier: Tier) -> Vec<Space> {
        match tier {
            Tier::Quick => vec![
                Space { name: "gen", size: 3000, exhaustive: false, chunk: 60, case_timeout_s: 60.0, what: "generated typed core-language programs x input streams x run lengths" },
                Space { name: "corpus", size: 500, exhaustive: false, chunk: 20, case_timeout_s: 60.0, what: "shipped sources and literal/operator mutants of them" },
                Space { name: "sum", size: 1500, exhaustive: false, chunk: 50, case_timeout_s: 60.0, what: "generated programs over user-declared (also recursive) sum types with constructor matches" },
                Space { name: "sched", size: 1500, exhaustive: false, chunk: 50, case_timeout_s: 60.0, what: "scheduler programs: 2-6 tasks, mostly due at the same sample, updating one global non-commutatively, some re-arming themselves" },
            ],
            Tier::Thorough => vec![
                Space { name: "gen", size: 120_000, exhaustive: false, chunk: 200, case_timeout_s: 60.0, what: "generated typed core-language programs x input streams x run lengths" },
                Space { name: "corpus", size: 20_000, exhaustive: false, chunk: 50, case_timeout_s: 60.0, what: "shipped sources and literal/operator mutants of them" },
                Space { name: "sum", size: 60_000, exhaustive: false, chunk: 100, case_timeout_s: 60.0, what: "generated programs over user-declared (also recursive) sum types with constructor matches" },
                Space { name: "sched", size: 60_000, exhaustive: false, chunk: 100, case_timeout_s: 60.0, what: "scheduler programs: 2-6 tasks, mostly due at the same sample, updating one global non-commutatively, some re-arming themselves" },
            ],
        }
    }
    fn run(&self, space: &str, _index: u64, g: &mut Gen, cx: &Cx) -> CaseResult {
        match space {
            "gen" => {
                let (cfg, off) = pcfg(cx);
                let mut pg = PG::new(g, cfg);
                let p = pg.program();
                let feat = pg.feat.clone();
                let src = prog::render(&p, &Layout::default());
                let inputs = gen_inputs(g);
                let n = *g.pick(&[8u64, 4, 16, 3, 32, 64]);
                let mut classes = feat.classes();
                let mut r = finish(&src, &inputs, n, false, std::mem::take(&mut classes), feat.stateful(), cx, "gen");
                for id in off {
                    r.count(&format!("generator_switch_off:{id}"), 1);
                }
                r
            }
            "sched" => {
                let far = cx.excluded(KF_WASM_TICK_CLOSURE);
                let src = tg::schedsoup(g, far);
                let inputs = gen_inputs(g);
                let n = *g.pick(&[8u64, 12, 16]);
                let mut r = finish(&src, &inputs, n, true, vec!["mode:sched".to_string()], true, cx, "sched");
                if far {
                    r.count(&format!("generator_switch_off:{KF_WASM_TICK_CLOSURE}"), 1);
                }
                r
            }
            "sum" => {
                let mut scfg = crate::gens::sumgen::SumCfg::default();
                if cx.excluded(crate::props::c03::KF_SUM_LONE_REC) {
                    scfg.lone_recursive_payload = false;
                }
                if cx.excluded(KF_WASM_UNCALLED_MATCH_FN) {
                    scfg.unannotated_params = false;
                }
                let p = crate::gens::sumgen::generate(g, &scfg);
                let src = crate::gens::sumgen::render(&p);
                let inputs = gen_inputs(g);
                let n = *g.pick(&[4u64, 8, 3]);
                let mut classes = vec!["mode:sum".to_string()];
                if p.types.iter().any(|t| t.rec) {
                    classes.push("sum:recursive".into());
                }
                let mut r = finish(&src, &inputs, n, false, classes, true, cx, "sum");
                if cx.excluded(crate::props::c03::KF_SUM_LONE_REC) {
                    r.count(&format!("generator_switch_off:{}", crate::props::c03::KF_SUM_LONE_REC), 1);
                }
                if cx.excluded(KF_WASM_UNCALLED_MATCH_FN) {
                    r.count(&format!("generator_switch_off:{KF_WASM_UNCALLED_MATCH_FN}"), 1);
                }
                r
            }
            _ => {
                let (src, m) = corpus_case(g, cx.excluded(KF_DEFAULT_ARGS));
                let inputs = gen_inputs(g);
                let n = *g.pick(&[8u64, 4, 16, 24]);
                let sched = src.contains('@') || src.contains("_mimium_schedule_at");
                finish(&src, &inputs, n, sched, vec![format!("mut:{m}"), "mode:corpus".to_string()], true, cx, if m == "none" { "corpus" } else { "corpus-mutant" })
            }
        }
    }
    fn run_direct(&self, input: &Value, cx: &Cx) -> Option<CaseResult> {
        let t = input.get("text")?.as_str()?;
        let inputs = Inputs { kind: input.get("input_kind").and_then(|v| v.as_u64()).unwrap_or(1) as u8, scale: input.get("input_scale").and_then(|v| v.as_f64()).unwrap_or(1.0) };
        let n = input.get("n").and_then(|v| v.as_u64()).unwrap_or(8);
        let sched = input.get("sched").and_then(|v| v.as_bool()).unwrap_or(false);
        let st = input.get("state").and_then(|v| v.as_bool()).unwrap_or(false);
        Some(finish(t, &inputs, n, sched, vec![], true, cx, if st { "direct-gen" } else { "direct" }))
    }
    fn shrink_direct(&self, input: &Value) -> Vec<Value> {
        let Some(t) = input.get("text").and_then(|v| v.as_str()) else { return vec![] };
        let mut out = vec![];
        let n = input.get("n").and_then(|v| v.as_u64()).unwrap_or(8);
        for m in [n / 2, n - 1] {
            if m >= 1 && m < n {
                let mut v = input.clone();
                v["n"] = json!(m);
                out.push(v);
            }
        }
        for s in line_candidates(t).into_iter().chain(text_candidates(t)) {
            let mut v = input.clone();
            v["text"] = json!(s);
            out.push(v);
        }
        out
    }
    fn rule(&self) -> String {
        "Cases are (program, input stream, run length). Programs: type-directed generation over the core language (arithmetic/comparison/logic, builtins, let with tuple/record patterns, if, blocks, named functions with 0-3 parameters, lambdas, local closures, counter-maker closures bound at global scope, higher-order functions, pipes, self (scalar and tuple), mem, delay, now, samplerate, globals, dsp with 0-3 inputs and 1-4 outputs), plus shipped sources with literal/operator mutations. Oracle: accept/reject agree; channel counts agree; every output word of every sample bitwise equal (NaN = NaN); WASM run_dsp return code 0; (state words are compared by C05). Non-trivial = compiled on both backends, >= 2 samples and a stateful/closure/tuple/branch feature or >= 2 output channels; distinct by source+inputs+length.".into()
    }
    fn assumptions(&self) -> Vec<String> {
        vec![
            "both runtimes are driven through DspRuntime::{set_input, run_dsp, get_output} with the sample counter advanced by the harness".into(),
            "generator switches that are off because of recorded findings are listed in counters.generator_switch_off".into(),
        ]
    }
    fn required_classes(&self, _tier: Tier) -> Vec<&'static str> {
        vec!["compiled", "output-varies", "multi-out", "f:self", "f:mem", "f:delay", "f:stateful-call", "f:nested-stateful", "f:maker-closure", "f:local-closure", "f:hof", "f:tuple", "f:record", "f:branch", "mode:corpus"]
    }
}

/// whole-line deletions first: programs shrink much faster by statements than by characters
pub fn line_candidates(t: &str) -> Vec<String> {
    let lines: Vec<&str> = t.lines().collect();
    let mut out = vec![];
    let n = lines.len();
    let mut k = n / 2;
    while k >= 1 {
        let mut pos = 0;
        while pos + k <= n {
            let mut l = lines.clone();
            l.drain(pos..pos + k);
            out.push(l.join("\n"));
            pos += k;
        }
        if k == 1 {
            break;
        }
        k /= 2;
    }
    out
}

/// corpus program, possibly with a literal / operator mutation (kept whatever it does: the oracle
/// only compares the two backends, an uncompilable mutant is a reject/reject case)
pub fn corpus_case(g: &mut Gen, no_default_args: bool) -> (String, &'static str) {
    let c = tg::corpus();
    // skip programs that need audio files, MIDI or GUI plugins
    let usable: Vec<&(String, String)> = c.iter().filter(|(p, s)| !s.contains("Sampler") && !s.contains("midi") && !s.contains("Slider") && !s.contains("Probe") && !s.contains("gen_sampler") && !p.contains("/examples/") && !["fail", "invalid", "error"].iter().any(|w| p.rsplit('/').next().unwrap_or("").contains(w)) && !(no_default_args && s.contains(".."))).collect();
    if usable.is_empty() {
        return ("fn dsp(){ 0.0 }".into(), "none");
    }
    let (_, src) = usable[g.usize_below(usable.len())];
    // mutating a literal or an operator of a recursive function easily removes its base case
    // (a legitimately non-terminating program): recursive sources are used unmutated
    let w: [u32; 3] = if is_recursive(src) { [1, 0, 0] } else { [3, 3, 2] };
    match g.weighted(&w) {
        0 => (src.clone(), "none"),
        1 => {
            // replace one numeric literal by another
            let bytes = src.as_bytes();
            let mut lits = vec![];
            let mut i = 0;
            while i < bytes.len() {
                if bytes[i].is_ascii_digit() && (i == 0 || !(bytes[i - 1].is_ascii_alphanumeric() || bytes[i - 1] == b'_' || bytes[i - 1] == b'.')) {
                    let s = i;
                    while i < bytes.len() && (bytes[i].is_ascii_digit() || bytes[i] == b'.') {
                        i += 1;
                    }
                    if src[s..i].contains('.') && !src[s..i].ends_with('.') {
                        lits.push((s, i));
                    }
                } else {
                    i += 1;
                }
            }
            if lits.is_empty() {
                return (src.clone(), "none");
            }
            let (s, e) = lits[g.usize_below(lits.len())];
            let rep = *g.pick(&["0.0", "1.0", "2.0", "0.5", "3.0", "10.0", "0.25"]);
            (format!("{}{}{}", &src[..s], rep, &src[e..]), "literal")
        }
        _ => {
            let ops = [" + ", " - ", " * ", " / ", " > ", " < "];
            let mut sites = vec![];
            for op in ops {
                let mut from = 0;
                while let Some(p) = src[from..].find(op) {
                    sites.push((from + p, op.len()));
                    from += p + op.len();
                }
            }
            if sites.is_empty() {
                return (src.clone(), "none");
            }
            let (s, l) = sites[g.usize_below(sites.len())];
            let rep = *g.pick(&ops);
            (format!("{}{}{}", &src[..s], rep, &src[s + l..]), "operator")
        }
    }
}

/// does any function of this source mention its own name inside its body (or use letrec)?
pub fn is_recursive(src: &str) -> bool {
    if src.contains("letrec") {
        return true;
    }
    let b = src.as_bytes();
    let mut i = 0;
    while let Some(p) = src[i..].find("fn ") {
        let start = i + p + 3;
        let name: String = src[start..].chars().take_while(|c| c.is_alphanumeric() || *c == '_').collect();
        i = start;
        if name.is_empty() {
            continue;
        }
        // body: from the first '{' after the name to its matching '}'
        let Some(open) = src[start..].find('{').map(|x| x + start) else { continue };
        let mut depth = 0i32;
        let mut end = open;
        for (k, ch) in b[open..].iter().enumerate() {
            if *ch == b'{' {
                depth += 1;
            } else if *ch == b'}' {
                depth -= 1;
                if depth == 0 {
                    end = open + k;
                    break;
                }
            }
        }
        let body = &src[open..=end.min(src.len() - 1)];
        let pat = format!("{name}(");
        if body.contains(&pat) || body.contains(&format!("{name}!(")) || body.contains(&format!("{name}@")) || body.contains(&format!("|> {name}")) {
            return true;
        }
    }
    false
}
