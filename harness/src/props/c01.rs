//! C01 — not built yet (stub keeps the registry stable while modules are written in parallel).

use crate::engine::case::Prop;

pub fn prop() -> Option<&'static dyn Prop> {
    None
}
