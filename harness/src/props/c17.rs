//! C17 — module privacy and name resolution.
//!
//! Inline module trees whose members are functions returning distinct constants, so the value of
//! a reference identifies the definition it was resolved to.  The expectation of every reference
//! comes from an independent resolution model (`c17_model.rs`).

#[path = "c17_model.rs"]
mod model;
#[path = "c17_gen.rs"]
mod rgen;

use crate::engine::case::*;
use crate::engine::rng::hash64;
use crate::engine::tape::Gen;
use crate::runners::exec::{self, Exec, Inputs, RunOpts};
use model::*;
use serde_json::{json, Value};
use std::sync::OnceLock;

pub struct C17;

pub fn prop() -> Option<&'static dyn Prop> {
    Some(&C17)
}

/// `pub` on `mod` is parsed but never consulted: members of a non-pub nested module are reachable
/// from outside its parent
pub const KF_MODULE_VIS: &str = "C17-module-visibility-ignored";
/// `E::f` where E holds `pub use m::f` is accepted although `m::f` is private and out of reach
pub const KF_REEXPORT_PRIVATE: &str = "C17-reexport-leaks-private";
/// `use` aliases are registered file-globally: the last `use ..::f` anywhere decides what every
/// unqualified imported `f` in the file means
pub const KF_ALIAS_GLOBAL: &str = "C17-use-alias-global";
/// wildcard imports are registered file-globally and searched in textual order
pub const KF_WILDCARD_GLOBAL: &str = "C17-wildcard-global";

fn run_src(src: &str) -> Exec {
    exec::run_vm(src, &Inputs { kind: 0, scale: 1.0 }, &RunOpts { n: 2, sched: false, want_state: false, want_counts: false, want_trace: false })
}

struct Verdict {
    fail: Option<(String, String)>,
    classes: Vec<String>,
    counters: Vec<(String, u64)>,
    nontrivial: bool,
}

fn fn_val(p: &Prog, id: &(Path, String)) -> f64 {
    p.module(&id.0).and_then(|m| m.fns.iter().find(|f| f.name == id.1)).map(|f| f.val).unwrap_or(f64::NAN)
}

fn who_has(p: &Prog, v: f64) -> String {
    for id in p.all_fns() {
        if fn_val(p, &id) == v {
            return format!("{}::{}", id.0.join("::"), id.1);
        }
    }
    if v >= 9000.0 && v < 9100.0 { format!("the local binding of probe p{}", v - 9000.0) } else { "no definition".into() }
}

fn only_probe(p: &Prog, id: u32) -> Prog {
    fn rec(m: &mut Module, id: u32) {
        m.probes.retain(|x| x.id == id);
        for c in &mut m.mods {
            rec(c, id);
        }
    }
    let mut q = p.clone();
    rec(&mut q.root, id);
    q
}

fn route_sig(e: &ProbeEval) -> String {
    if e.wrap.shadows() {
        format!("shadow-{}", e.route)
    } else if e.wrap == Wrap::ScopeEnd {
        format!("scope-end-{}", e.route)
    } else {
        e.route.clone()
    }
}

fn judge(p: &Prog, evals: &[ProbeEval], src: &str, cx: &Cx, attribute: bool) -> Verdict {
    let mut v = Verdict { fail: None, classes: vec![], counters: vec![], nontrivial: false };
    for e in evals {
        match &e.res {
            Ok(_) => v.classes.push(format!("route:{}", e.route)),
            Err(r) => v.classes.push(format!("neg:{}{}", e.route, if matches!(r.culprit, Ent::Mod(_)) { ":module" } else { "" })),
        }
        if e.wrap.shadows() {
            v.classes.push("shadow:local".into());
            v.classes.push(format!("shadow:{}-over-{}", e.wrap.name().trim_start_matches("shadow-"), e.route));
        }
        if e.wrap == Wrap::ScopeEnd {
            v.classes.push("shadow:scope-end".into());
        }
        if e.trace.own && e.trace.via_wild {
            v.classes.push("shadow:member-over-wildcard".into());
        }
        v.classes.push(if e.pos.is_empty() { "site:top".to_string() } else { format!("site:module-depth{}", e.pos.len()) });
        if matches!(e.wrap, Wrap::Lambda | Wrap::ShadowInLambda) {
            v.classes.push("site:lambda".into());
        }
        if e.links > 0 {
            v.classes.push(format!("reexport:len{}", e.links));
        }
        if e.relative_use {
            v.classes.push("use:relative-path".into());
        }
        if e.trace.imports.iter().any(|(m, _, _)| !m.is_empty()) || e.trace.wilds.iter().any(|(m, _)| !m.is_empty()) {
            v.classes.push("use:inside-module".into());
        }
        if matches!(e.route.as_str(), "use" | "multi" | "wildcard" | "reexport") {
            v.nontrivial = true;
        }
    }
    v.classes.sort();
    v.classes.dedup();
    let rejects: Vec<&ProbeEval> = evals.iter().filter(|e| e.res.is_err()).collect();
    v.classes.push(if rejects.is_empty() { "expect:accept".into() } else { "expect:reject".into() });
    macro_rules! fail {
        ($sig:expr, $($arg:tt)*) => {{ v.fail = Some((format!("c17:{}", $sig), format!($($arg)*))); v.nontrivial = true; return v; }};
    }
    let ex = run_src(src);
    match ex {
        Exec::Panic(stage, pi) => fail!(format!("panic:{}:{}", if stage.starts_with("dsp@") { "dsp" } else { stage.as_str() }, pi.signature()), "{stage}: {}", pi.describe()),
        Exec::Error(stage, e) => fail!(format!("vm-error:{stage}"), "{stage}: {e}"),
        Exec::NoIo => fail!("no-io", "compiled, but dsp has no I/O information"),
        Exec::Rejected(d) => {
            let msg = d.first().map(|x| x.message.clone()).unwrap_or_default();
            if !rejects.is_empty() {
                v.classes.push(if d.iter().any(|x| x.message.contains("is private")) { "neg-diag:is-private".into() } else { "neg-diag:other".into() });
                return v;
            }
            // which reference is it?
            let mut route = if evals.len() == 1 { route_sig(&evals[0]) } else { "combination".to_string() };
            if attribute && evals.len() > 1 {
                for e in evals {
                    let q = only_probe(p, e.id);
                    if let Outcome::Expect(ev) = evaluate(&q) {
                        if ev.iter().all(|x| x.res.is_ok()) && matches!(run_src(&render(&q)), Exec::Rejected(_)) {
                            route = route_sig(e);
                            break;
                        }
                    }
                }
            }
            fail!(format!("legal-reference-rejected:{route}"), "every reference is legal by the model, but compilation fails: {msg}");
        }
        Exec::Ran(out) => {
            let mut tolerated: Vec<&'static str> = vec![];
            for r in &rejects {
                let rj = r.res.as_ref().err().unwrap();
                let id = match &rj.culprit {
                    Ent::Mod(_) => Some(KF_MODULE_VIS),
                    Ent::Fn(..) if rj.via_reexport_path => Some(KF_REEXPORT_PRIVATE),
                    _ => None,
                };
                match id {
                    Some(id) if !cx.strict && cx.excluded(id) => tolerated.push(id),
                    _ => {
                        let got = out.samples.first().and_then(|s| s.get(evals.iter().position(|e| e.id == r.id).unwrap())).map(|b| f64::from_bits(*b)).unwrap_or(f64::NAN);
                        fail!(
                            format!("private-accessible:{}{}", r.route, if matches!(rj.culprit, Ent::Mod(_)) { ":module" } else { "" }),
                            "probe p{} at {} refers to {} which crosses the non-pub {} from outside its module, yet the program compiles (the reference yields {got})",
                            r.id,
                            if r.pos.is_empty() { "top level".to_string() } else { r.pos.join("::") },
                            r.target.as_ref().map(|t| format!("{}::{}", t.0.join("::"), t.1)).unwrap_or_default(),
                            rj.culprit.describe()
                        );
                    }
                }
            }
            if out.n_out as usize != evals.len() {
                fail!("output-width", "dsp has {} outputs for {} probes", out.n_out, evals.len());
            }
            for (t, smp) in out.samples.iter().enumerate() {
                for (i, e) in evals.iter().enumerate() {
                    let want = match &e.res {
                        Ok(x) => *x,
                        Err(_) => e.target.as_ref().map(|t| fn_val(p, t)).unwrap_or(f64::NAN),
                    };
                    let got = smp.get(i).map(|b| f64::from_bits(*b)).unwrap_or(f64::NAN);
                    if got.to_bits() != want.to_bits() {
                        fail!(
                            format!("wrong-target:{}", route_sig(e)),
                            "sample {t}: probe p{} at {} ({} route, {}) yields {got} = {} but its path denotes {} = {want}",
                            e.id,
                            if e.pos.is_empty() { "top level".to_string() } else { e.pos.join("::") },
                            e.route,
                            e.wrap.name(),
                            who_has(p, got),
                            if e.wrap.shadows() { "the local binding".to_string() } else { e.target.as_ref().map(|t| format!("{}::{}", t.0.join("::"), t.1)).unwrap_or_default() }
                        );
                    }
                }
            }
            tolerated.sort();
            tolerated.dedup();
            for id in tolerated {
                v.counters.push((format!("excluded_by_known_finding:{id}"), 1));
                v.classes.push(format!("known:{id}"));
            }
        }
    }
    v
}

fn direct_of(p: &Prog) -> Value {
    json!({"spec": module_to_json(&p.root)})
}

fn active_hazards(p: &Prog, evals: &[ProbeEval], cx: &Cx) -> Vec<&'static str> {
    hazards(p, evals)
        .into_iter()
        .filter_map(|h| {
            let id = if h == "alias" { KF_ALIAS_GLOBAL } else { KF_WILDCARD_GLOBAL };
            cx.excluded(id).then_some(id)
        })
        .collect()
}

fn finish(p: &Prog, cx: &Cx, mode: &str) -> CaseResult {
    let src = render(p);
    let hash = hash64(src.as_bytes());
    let direct = direct_of(p);
    let evals = match evaluate(p) {
        Outcome::Invalid(w) => return CaseResult::discard(format!("invalid:{w}")),
        Outcome::Expect(e) => e,
    };
    let describe = |evals: &[ProbeEval]| -> Value {
        json!({
            "text": src,
            "expect": evals.iter().map(|e| match &e.res { Ok(v) => json!(v), Err(r) => json!(format!("reject ({} is not pub)", r.culprit.describe())) }).collect::<Vec<_>>(),
            "routes": evals.iter().map(|e| format!("p{}:{}:{}", e.id, e.route, e.wrap.name())).collect::<Vec<_>>(),
        })
    };
    if cx.dry {
        let mut r = CaseResult::discard("dry");
        r.render = Some(describe(&evals));
        r.direct = Some(direct);
        return r;
    }
    if !cx.strict {
        if let Some(h) = active_hazards(p, &evals, cx).first() {
            let mut r = CaseResult::discard(format!("known-hazard:{h}"));
            r.count(&format!("excluded_by_known_finding:{h}"), 1);
            return r;
        }
    }
    let v = judge(p, &evals, &src, cx, true);
    let mut r = match &v.fail {
        Some((s, m)) => {
            // a program exposed to one of the file-global import tables says so in its signature
            let hz = hazards(p, &evals);
            let sig = match hz.first() {
                Some(h) if !s.starts_with("c17:panic") => format!("c17:{h}-leak:{}", s.trim_start_matches("c17:")),
                _ => s.clone(),
            };
            CaseResult::fail(hash, sig, m.clone())
        }
        None => CaseResult::held(hash),
    };
    r.classes = v.classes;
    r.classes.push(format!("mode:{mode}"));
    r.classes.push(format!("probes:{}", evals.len().min(4)));
    r.nontrivial = v.nontrivial;
    for (k, n) in &v.counters {
        r.count(k, *n);
    }
    if cx.render || r.is_fail() {
        r.render = Some(describe(&evals));
    }
    r.direct = Some(direct);
    r
}

// ------------------------------------------------------------------------------------------
// generation
// ------------------------------------------------------------------------------------------

fn all_legal(p: &Prog) -> Option<Vec<ProbeEval>> {
    match evaluate(p) {
        Outcome::Expect(ev) if ev.iter().all(|e| e.res.is_ok()) => Some(ev),
        _ => None,
    }
}

fn try_add_route(g: &mut Gen, p: &mut Prog, id: u32, cx: &Cx, switched_off: &mut Vec<&'static str>, breakable: bool) -> bool {
    let spec = g.span(|g| rgen::gen_route(g, p));
    let mut q = p.clone();
    if rgen::apply_route(&mut q, &spec, id).is_none() {
        return false;
    }
    let Some(ev) = all_legal(&q) else { return false };
    if breakable {
        // the new reference must depend on a pub flag that may be switched off
        let e = ev.iter().find(|e| e.id == id).unwrap();
        let ok = !e.wrap.shadows() && e.needs.iter().any(|n| !matches!(n, Ent::Mod(_)) || !cx.excluded(KF_MODULE_VIS));
        if !ok {
            return false;
        }
    }
    let hz = active_hazards(&q, &ev, cx);
    if !hz.is_empty() {
        switched_off.extend(hz);
        return false;
    }
    *p = q;
    true
}

fn build_positive(g: &mut Gen, cx: &Cx, switched_off: &mut Vec<&'static str>) -> Option<Prog> {
    let mut p = rgen::gen_tree(g);
    let k = 1 + g.weighted(&[2, 3, 3, 2]);
    let mut id = 0u32;
    for _ in 0..k {
        for _attempt in 0..8 {
            if try_add_route(g, &mut p, id, cx, switched_off, false) {
                id += 1;
                break;
            }
        }
    }
    if id == 0 {
        for _attempt in 0..16 {
            if try_add_route(g, &mut p, id, cx, switched_off, false) {
                id += 1;
                break;
            }
        }
    }
    (id > 0).then_some(p)
}

fn build_negative(g: &mut Gen, cx: &Cx, switched_off: &mut Vec<&'static str>) -> Option<(Prog, Prog)> {
    let tree = rgen::gen_tree(g);
    // the reference that becomes illegal comes first, the legal rest is added to the broken program
    let mut found = None;
    for _attempt in 0..40 {
        let mut p = tree.clone();
        if !try_add_route(g, &mut p, 0, cx, switched_off, true) {
            continue;
        }
        if let Some((q, c)) = break_one(g, &p, 0, cx, switched_off) {
            found = Some((q, c));
            break;
        }
    }
    let (mut q, culprit) = found?;
    let k = g.weighted(&[2, 3, 3, 2]);
    let mut id = 1u32;
    for _ in 0..k {
        for _attempt in 0..8 {
            let spec = g.span(|g| rgen::gen_route(g, &q));
            let mut q2 = q.clone();
            if rgen::apply_route(&mut q2, &spec, id).is_none() {
                continue;
            }
            let Outcome::Expect(ev) = evaluate(&q2) else { continue };
            if ev.iter().any(|e| e.res.is_err() != (e.id == 0)) {
                continue;
            }
            let hz = active_hazards(&q2, &ev, cx);
            if !hz.is_empty() {
                switched_off.extend(hz);
                continue;
            }
            // the all-legal twin must stay inside the domain as well
            let mut t = q2.clone();
            t.set_public(&culprit, true);
            let Some(tev) = all_legal(&t) else { continue };
            if !active_hazards(&t, &tev, cx).is_empty() {
                continue;
            }
            q = q2;
            id += 1;
            break;
        }
    }
    let mut twin = q.clone();
    twin.set_public(&culprit, true);
    Some((twin, q))
}

/// turn exactly one `pub` flag off so that exactly one reference becomes illegal
fn break_one(g: &mut Gen, p: &Prog, id: u32, cx: &Cx, switched_off: &mut Vec<&'static str>) -> Option<(Prog, Ent)> {
    let evals = all_legal(p)?;
    for e in evals.iter().filter(|e| e.id == id) {
        if e.wrap.shadows() {
            continue;
        }
        let mut cands = e.needs.clone();
        cands.sort();
        cands.dedup();
        let perm = g.perm(cands.len());
        for ci in perm {
            let c = &cands[ci];
            if matches!(c, Ent::Mod(_)) && cx.excluded(KF_MODULE_VIS) {
                switched_off.push(KF_MODULE_VIS);
                continue;
            }
            let mut q = p.clone();
            q.set_public(c, false);
            let Outcome::Expect(ev) = evaluate(&q) else { continue };
            let bad: Vec<&ProbeEval> = ev.iter().filter(|x| x.res.is_err()).collect();
            if bad.len() != 1 || bad[0].id != e.id {
                continue;
            }
            let rj = bad[0].res.as_ref().err().unwrap();
            if rj.via_reexport_path && matches!(rj.culprit, Ent::Fn(..)) && cx.excluded(KF_REEXPORT_PRIVATE) {
                switched_off.push(KF_REEXPORT_PRIVATE);
                continue;
            }
            let hz = active_hazards(&q, &ev, cx);
            if !hz.is_empty() {
                switched_off.extend(hz);
                continue;
            }
            return Some((q, c.clone()));
        }
    }
    None
}

fn exhaustive_cases() -> &'static Vec<Prog> {
    static CASES: OnceLock<Vec<Prog>> = OnceLock::new();
    CASES.get_or_init(|| {
        let mut out = vec![];
        let mut seen = std::collections::BTreeSet::new();
        for (flags, spec) in rgen::exhaustive_specs() {
            let mut p = rgen::base_tree(flags);
            if rgen::apply_route(&mut p, &spec, 0).is_none() {
                continue;
            }
            if !seen.insert(render(&p)) {
                continue;
            }
            if let Outcome::Expect(_) = evaluate(&p) {
                out.push(p);
            }
        }
        out
    })
}

fn with_switches(mut r: CaseResult, off: &[&'static str]) -> CaseResult {
    let mut o = off.to_vec();
    o.sort();
    o.dedup();
    for id in o {
        r.count(&format!("generator_switch_off:{id}"), 1);
    }
    r
}

// ------------------------------------------------------------------------------------------
// shrinking of spec inputs
// ------------------------------------------------------------------------------------------

fn shrink_spec(root: &Module) -> Vec<Module> {
    let p = Prog { root: root.clone() };
    let mut paths = vec![vec![]];
    paths.extend(p.all_module_paths());
    let mut out: Vec<Module> = vec![];
    let mut push = |f: &dyn Fn(&mut Prog) -> bool| {
        let mut q = p.clone();
        if f(&mut q) && q != p {
            out.push(q.root);
        }
    };
    let nprobes = p.all_probes().len();
    // whole modules
    for mp in paths.iter().skip(1).rev() {
        push(&|q| {
            let (par, name) = (mp[..mp.len() - 1].to_vec(), mp.last().unwrap().clone());
            q.module_mut(&par).map(|m| m.mods.retain(|c| c.name != name)).is_some()
        });
    }
    for mp in &paths {
        let m = p.module(mp).unwrap();
        if nprobes > 1 {
            for i in 0..m.probes.len() {
                push(&|q| {
                    q.module_mut(mp).unwrap().probes.remove(i);
                    true
                });
            }
        }
        for i in 0..m.uses.len() {
            push(&|q| {
                q.module_mut(mp).unwrap().uses.remove(i);
                true
            });
            if m.uses[i].kind == UseKind::Multi {
                for k in 0..m.uses[i].names.len() {
                    if m.uses[i].names.len() > 1 {
                        push(&|q| {
                            q.module_mut(mp).unwrap().uses[i].names.remove(k);
                            true
                        });
                    }
                }
                if m.uses[i].names.len() == 1 {
                    push(&|q| {
                        q.module_mut(mp).unwrap().uses[i].kind = UseKind::Single;
                        true
                    });
                }
            }
            if m.uses[i].at_start {
                push(&|q| {
                    q.module_mut(mp).unwrap().uses[i].at_start = false;
                    true
                });
            }
        }
        for i in 0..m.fns.len() {
            push(&|q| {
                q.module_mut(mp).unwrap().fns.remove(i);
                true
            });
            if !m.fns[i].public {
                push(&|q| {
                    q.module_mut(mp).unwrap().fns[i].public = true;
                    true
                });
            }
        }
        for i in 0..m.probes.len() {
            if m.probes[i].wrap != Wrap::Plain {
                push(&|q| {
                    q.module_mut(mp).unwrap().probes[i].wrap = Wrap::Plain;
                    true
                });
            }
        }
        if !mp.is_empty() && !m.public {
            push(&|q| {
                q.module_mut(mp).unwrap().public = true;
                true
            });
        }
    }
    out
}

impl Prop for C17 {
    fn id(&self) -> &'static str {
        "C17"
    }
    fn spaces(&self, tier: Tier) -> Vec<Space> {
        let ex = exhaustive_cases().len() as u64;
        let (np, nn) = match tier {
            Tier::Quick => (20000, 15000),
            Tier::Thorough => (800_000, 700_000),
        };
        vec![
            Space { name: "routes", size: ex, exhaustive: true, chunk: 1500, case_timeout_s: 20.0, what: "every single-reference program over mod ma { fn fa  mod mb { fn fb } } mod mc {}: 2 targets x 4 positions x 51 reference forms x 8 pub/private assignments x 8 wrappers (plain, in a lambda, four shadowing forms, after the end of a shadowing scope, in the initialiser of a let of the same name), well-formed ones only" },
            Space { name: "positive", size: np, exhaustive: false, chunk: if tier == Tier::Quick { 500 } else { 4000 }, case_timeout_s: 20.0, what: "random module trees (depth <= 3) with 1-4 legal references through random routes" },
            Space { name: "negative", size: nn, exhaustive: false, chunk: if tier == Tier::Quick { 400 } else { 3000 }, case_timeout_s: 20.0, what: "the same with exactly one pub flag switched off so that exactly one reference is illegal (and the all-legal twin)" },
        ]
    }
    fn run(&self, space: &str, index: u64, g: &mut Gen, cx: &Cx) -> CaseResult {
        match space {
            "routes" => match exhaustive_cases().get(index as usize) {
                Some(p) => finish(p, cx, "routes"),
                None => CaseResult::discard("index out of range"),
            },
            "positive" => {
                let mut off = vec![];
                let Some(p) = build_positive(g, cx, &mut off) else { return CaseResult::discard("no-legal-route") };
                with_switches(finish(&p, cx, "positive"), &off)
            }
            _ => {
                let mut off = vec![];
                let Some((p, q)) = build_negative(g, cx, &mut off) else { return with_switches(CaseResult::discard("no-culprit"), &off) };
                if !cx.dry {
                    // the all-legal twin must be accepted: the negative is rejected for its one flag only
                    let t = finish(&p, cx, "negative-twin");
                    if t.is_fail() {
                        return with_switches(t, &off);
                    }
                }
                with_switches(finish(&q, cx, "negative"), &off)
            }
        }
    }
    fn run_direct(&self, input: &Value, cx: &Cx) -> Option<CaseResult> {
        if let Some(spec) = input.get("spec") {
            let root = module_from_json(spec)?;
            return Some(finish(&Prog { root }, cx, "direct"));
        }
        // hand-written text: {"text": .., "expect": "reject" | [values], "route": label}
        let text = input.get("text")?.as_str()?;
        let route = input.get("route").and_then(|v| v.as_str()).unwrap_or("text");
        let hash = hash64(text.as_bytes());
        let want: Option<Vec<f64>> = input.get("expect").and_then(|v| v.as_array()).map(|a| a.iter().filter_map(|x| x.as_f64()).collect());
        let mut r = match (run_src(text), want) {
            (Exec::Rejected(_), None) => CaseResult::held(hash),
            (Exec::Rejected(d), Some(_)) => CaseResult::fail(hash, format!("c17:legal-reference-rejected:{route}"), format!("rejected: {}", d.first().map(|x| x.message.clone()).unwrap_or_default())),
            (Exec::Ran(o), None) => CaseResult::fail(hash, format!("c17:private-accessible:{route}"), format!("accepted; first sample {:?}", o.samples.first().map(|s| s.iter().map(|b| f64::from_bits(*b)).collect::<Vec<_>>()))),
            (Exec::Ran(o), Some(w)) => {
                let got: Vec<f64> = o.samples.first().map(|s| s.iter().map(|b| f64::from_bits(*b)).collect()).unwrap_or_default();
                if got == w { CaseResult::held(hash) } else { CaseResult::fail(hash, format!("c17:wrong-target:{route}"), format!("got {got:?}, the paths denote {w:?}")) }
            }
            (Exec::Panic(stage, pi), _) => CaseResult::fail(hash, format!("c17:panic:{stage}:{}", pi.signature()), pi.describe()),
            (Exec::Error(stage, e), _) => CaseResult::fail(hash, format!("c17:vm-error:{stage}"), e),
            (Exec::NoIo, _) => CaseResult::fail(hash, "c17:no-io", "no dsp I/O"),
        };
        r.nontrivial = true;
        r.classes.push("mode:direct-text".into());
        r.render = Some(input.clone());
        r.direct = Some(input.clone());
        Some(r)
    }
    fn shrink_direct(&self, input: &Value) -> Vec<Value> {
        let Some(root) = input.get("spec").and_then(module_from_json) else { return vec![] };
        shrink_spec(&root).iter().map(|m| json!({"spec": module_to_json(m)})).collect()
    }
    fn rule(&self) -> String {
        "Cases are inline module trees (depth <= 3, <= 3 functions and <= 2 nested modules per module, random `pub` on functions and modules, function/module names drawn from small pools so the same name recurs in different modules) whose functions return distinct constants, plus reference sites (probe functions at top level and inside modules, plain / inside a lambda / under a shadowing let, parameter or lambda parameter / after an inner shadowing scope ended) that reach a function by one of the routes: absolute qualified path, path relative to the current module, the module's own member, `use a::b::f`, `use a::{f, g}`, `use a::*` (at top level or inside a module, absolute or relative path), `pub use` re-export chains of length 1-3 ending in a qualified path, a `use` or a wildcard. dsp returns one channel per reference. Oracle: a resolution model written in the harness (non-pub members are visible inside their parent module and its descendants only; a re-export does not widen the visibility of the function it finally denotes; own members > explicit imports > wildcard imports; locals shadow everything). If every reference is legal the program must compile and every channel must equal the constant of the denoted function (2 samples); if a reference is illegal compilation must fail. `routes` enumerates all well-formed single-reference programs over a fixed two-level tree; `positive`/`negative` are random (negative = one pub flag of a positive program switched off so that exactly one reference becomes illegal; its all-legal twin is checked too). Forms whose meaning no fixture pins are not generated (same name from two sources, wildcard with a relative path, `use` before the module is opened, relative path to a re-export, enclosing-module members seen unqualified). Non-trivial = at least one reference goes through use / multi-use / wildcard / re-export; distinct by source text.".into()
    }
    fn assumptions(&self) -> Vec<String> {
        vec![
            "VM backend only (name resolution happens before the backends diverge)".into(),
            "any compile error counts as rejection of an illegal reference (the diagnostic kind is only recorded as a class)".into(),
            "a nested module is a member of its parent: `mod` without `pub` is private to the parent module (the parser distinguishes `mod` and `pub mod`; no fixture pins the meaning, and examples/scale.mmm uses a non-pub nested module of a library file from outside)".into(),
            "generator switches that are off because of recorded findings are listed in counters.generator_switch_off".into(),
        ]
    }
    fn required_classes(&self, _tier: Tier) -> Vec<&'static str> {
        vec![
            "route:qualified", "route:relative", "route:own", "route:use", "route:multi", "route:wildcard", "route:reexport", "shadow:local", "shadow:scope-end", "neg:qualified", "neg:relative", "neg:use", "neg:multi", "neg:wildcard", "neg:reexport", "site:top", "site:lambda", "site:module-depth1",
            "site:module-depth2", "reexport:len1", "reexport:len2", "use:relative-path", "use:inside-module", "neg-diag:is-private", "expect:accept", "expect:reject",
        ]
    }
}
