//! C02 — the core language follows call-by-value semantics with per-call-site state.
//! Oracle: an independent reference interpreter (gens/refint.rs) vs. the bytecode VM.

use crate::engine::case::*;
use crate::engine::rng::hash64;
use crate::engine::tape::Gen;
use crate::gens::prog::{self, Bop, FnDef, Layout, PCfg, Param, Pat, Prog, Top, Ty, E, PG, S};
use crate::gens::refint::{Interp, Unsupported};
use crate::props::c01::{self, gen_inputs};
use crate::runners::exec::{self, canon, Exec, Inputs, RunOpts};
use serde_json::{json, Value};

pub struct C02;

pub fn prop() -> Option<&'static dyn Prop> {
    Some(&C02)
}

/// CoreGen-A: the fragment whose meaning the property statement fixes.
pub fn cfg_a(cx: &Cx) -> (PCfg, Vec<&'static str>) {
    let (mut c, off) = c01::pcfg(cx);
    // outside the statement's domain (not findings): delay times outside [1, N-1], NaN as a condition
    c.wild_delay_time = false;
    c.raw_conditions = false;
    // these only concern the WASM backend: irrelevant for the VM-vs-reference comparison
    c.modulo = true;
    c.multi_maker_instances = true;
    c.tuple_if = true;
    c.tuple_globals = true;
    c.proj_in_cond = true;
    c.capture_destructured = true;
    c.self_in_tuple = true;
    c.tuple_inputs = false;
    c.nested_tuples = true;
    (c, off)
}

fn reference(p: &Prog, inputs: &Inputs, n: u64) -> Result<Vec<Vec<u64>>, Unsupported> {
    let mut it = Interp::new(p)?;
    let mut out = vec![];
    for t in 0..n {
        let inp: Vec<f64> = (0..p.n_in).map(|c| inputs.at(t, c)).collect();
        let w = it.dsp(t, &inp)?;
        out.push(w.iter().map(|x| x.to_bits()).collect());
    }
    Ok(out)
}

struct Out {
    fail: Option<(String, String)>,
    discard: Option<String>,
    varying: bool,
}

fn check(p: &Prog, src: &str, inputs: &Inputs, n: u64) -> Out {
    let mut o = Out { fail: None, discard: None, varying: false };
    let want = match reference(p, inputs, n) {
        Ok(w) => w,
        Err(u) => {
            o.discard = Some(format!("reference:{}", u.0.split(' ').take(3).collect::<Vec<_>>().join(" ")));
            return o;
        }
    };
    let vm = exec::run_vm(src, inputs, &RunOpts { n, sched: false, want_state: false, want_counts: false, want_trace: false });
    match vm {
        Exec::Rejected(d) => {
            // not well-typed for the repository's checker (e.g. projection of a variable whose tuple
            // type is not yet resolved): outside the property's domain
            o.discard = Some(format!("rejected:{}", crate::engine::panics::normalise(&d.first().map(|x| x.message.clone()).unwrap_or_default())));
            if std::env::var_os("MMV_DUMP_REJECTED").is_some() {
                eprintln!("---- rejected ----\n{src}");
            }
        }
        Exec::NoIo => o.discard = Some("no-io".into()),
        Exec::Panic(stage, pn) => {
            // crashes are C03's subject; they are not judged by the reference
            o.discard = Some(format!("vm-panic:{stage}:{}", crate::engine::panics::normalise(&pn.msg)));
        }
        Exec::Error(s, e) => o.discard = Some(format!("vm-error:{s}:{e}")),
        Exec::Ran(a) => {
            for (t, (x, y)) in a.samples.iter().zip(want.iter()).enumerate() {
                if x.len() != y.len() {
                    o.fail = Some(("c02:output-width".into(), format!("sample {t}: VM yields {} words, the reference {}", x.len(), y.len())));
                    return o;
                }
                for ch in 0..x.len() {
                    if canon(x[ch]) != canon(y[ch]) {
                        o.fail = Some(("c02:output-differs".into(), format!("sample {t} channel {ch}: VM {:?} ({:#x}), reference {:?} ({:#x})", f64::from_bits(x[ch]), x[ch], f64::from_bits(y[ch]), y[ch])));
                        return o;
                    }
                }
                if t > 0 && want[t] != want[0] {
                    o.varying = true;
                }
            }
        }
    }
    o
}

// ------------------------------------------------------------------ calibration set
// Fixtures of the repository transcribed by hand into P, with the expected vectors from
// their `// @test` headers: calibrates the reference *and* the renderer against the authors'
// stated expectations before any random case is believed.

fn v(n: &str) -> E {
    E::Var(n.into())
}
fn l(t: &str) -> E {
    E::Lit(t.into())
}
fn bin(op: Bop, a: E, b: E) -> E {
    E::Bin(op, Box::new(a), Box::new(b))
}
fn call(id: u32, f: &str, args: Vec<E>) -> E {
    E::Call(id, Box::new(v(f)), args)
}
fn fun(name: &str, params: Vec<(&str, Ty)>, ret: Ty, body: E) -> Top {
    Top::Fn(FnDef { name: name.into(), defaults: vec![], params: params.into_iter().map(|(n, t)| Param { name: n.into(), annotate: !matches!(t, Ty::Num), ty: t }).collect(), annotate_ret: !matches!(ret, Ty::Num), ret, body })
}
fn tup2() -> Ty {
    Ty::Tup(vec![Ty::Num, Ty::Num])
}

pub fn calibration() -> Vec<(&'static str, Prog, u64, Vec<f64>)> {
    vec![
        // counter.mmm: fn counter(){ self+1.0 }  dsp = counter()   (self is the previous return)
        ("counter", Prog { tops: vec![fun("counter", vec![], Ty::Num, bin(Bop::Add, E::SelfV, l("1.0"))), fun("dsp", vec![], Ty::Num, call(1, "counter", vec![]))], n_in: 0, n_out: 1 }, 5, vec![1.0, 2.0, 3.0, 4.0, 5.0]),
        // state_tuple.mmm
        (
            "state_tuple",
            Prog {
                tops: vec![
                    fun("bifb", vec![], tup2(), E::Block(vec![S::Let(Pat::Tup(vec![Pat::Var("a".into()), Pat::Var("b".into())]), E::SelfV)], Box::new(E::Tup(vec![bin(Bop::Add, v("a"), l("1.0")), bin(Bop::Add, v("b"), l("2.0"))])))),
                    fun("dsp", vec![], tup2(), call(1, "bifb", vec![])),
                ],
                n_in: 0,
                n_out: 2,
            },
            3,
            vec![1.0, 2.0, 2.0, 4.0, 3.0, 6.0],
        ),
        // delay.mmm: delay(10.0, counter(), 5.0)
        (
            "delay",
            Prog {
                tops: vec![fun("counter", vec![], Ty::Num, bin(Bop::Add, E::SelfV, l("1.0"))), fun("dsp", vec![], Ty::Num, E::Block(vec![S::Let(Pat::Var("c".into()), call(1, "counter", vec![]))], Box::new(E::Delay(2, 10, Box::new(v("c")), Box::new(l("5.0"))))))],
                n_in: 0,
                n_out: 1,
            },
            10,
            vec![0.0, 0.0, 0.0, 0.0, 0.0, 1.0, 2.0, 3.0, 4.0, 5.0],
        ),
        // fb_mem.mmm: mem_by_hand(counter())
        (
            "fb_mem",
            Prog {
                tops: vec![
                    fun("counter", vec![], Ty::Num, bin(Bop::Add, l("1.0"), E::SelfV)),
                    fun("mem_by_hand", vec![("x", Ty::Num)], tup2(), E::Block(vec![S::Let(Pat::Tup(vec![Pat::Var("y".into()), Pat::Var("ys".into())]), E::SelfV)], Box::new(E::Tup(vec![v("x"), v("y")])))),
                    fun("dsp", vec![], tup2(), call(1, "mem_by_hand", vec![call(2, "counter", vec![])])),
                ],
                n_in: 0,
                n_out: 2,
            },
            5,
            vec![1.0, 0.0, 2.0, 1.0, 3.0, 2.0, 4.0, 3.0, 5.0, 4.0],
        ),
        // if_state.mmm: two call sites of one stateful function own separate state
        (
            "if_state",
            Prog {
                tops: vec![
                    fun(
                        "countup",
                        vec![("active", Ty::Num)],
                        Ty::Num,
                        E::Block(vec![S::Let(Pat::Var("r".into()), bin(Bop::Add, E::SelfV, l("1.0"))), S::Let(Pat::Var("rr".into()), E::If(Box::new(bin(Bop::Gt, v("active"), l("0.0"))), Box::new(v("r")), Box::new(l("0.0"))))], Box::new(v("rr"))),
                    ),
                    fun("dsp", vec![], tup2(), E::Tup(vec![call(1, "countup", vec![l("1.0")]), call(2, "countup", vec![l("0.0")])])),
                ],
                n_in: 0,
                n_out: 2,
            },
            4,
            vec![1.0, 0.0, 2.0, 0.0, 3.0, 0.0, 4.0, 0.0],
        ),
        // closure_counter.mmm: maker pattern
        (
            "closure_counter",
            Prog {
                tops: vec![
                    fun(
                        "makecounter",
                        vec![],
                        Ty::Fun(vec![], Box::new(Ty::Num)),
                        E::Block(
                            vec![
                                S::Let(Pat::Var("x".into()), l("0.0")),
                                S::Let(Pat::Var("countup".into()), E::Lam(vec![], Box::new(E::Block(vec![S::Let(Pat::Var("res".into()), v("x")), S::Assign("x".into(), bin(Bop::Add, v("x"), l("1.0")))], Box::new(v("res")))))),
                            ],
                            Box::new(v("countup")),
                        ),
                    ),
                    Top::Let("myc".into(), Ty::Fun(vec![], Box::new(Ty::Num)), call(1, "makecounter", vec![])),
                    fun("dsp", vec![], Ty::Num, call(2, "myc", vec![])),
                ],
                n_in: 0,
                n_out: 1,
            },
            5,
            vec![0.0, 1.0, 2.0, 3.0, 4.0],
        ),
        // mem.mmm-like: mem(x) is x one sample earlier
        ("mem", Prog { tops: vec![fun("dsp", vec![], Ty::Num, E::Mem(1, Box::new(bin(Bop::Add, E::Now, l("1.0")))))], n_in: 0, n_out: 1 }, 4, vec![0.0, 1.0, 2.0, 3.0]),
        // closure_open.mmm
        (
            "closure_open",
            Prog { tops: vec![fun("dsp", vec![], Ty::Num, E::Block(vec![S::Let(Pat::Var("x".into()), l("9.0")), S::Let(Pat::Var("f".into()), E::Lam(vec![], Box::new(bin(Bop::Sub, v("x"), l("5.0")))))], Box::new(call(1, "f", vec![]))))], n_in: 0, n_out: 1 },
            1,
            vec![4.0],
        ),
    ]
}

fn finish(p: &Prog, inputs: &Inputs, n: u64, classes: Vec<String>, stateful: bool, cx: &Cx, expected: Option<&[f64]>) -> CaseResult {
    let src = prog::render(p, &Layout::default());
    let key = format!("{src}\u{1}{}\u{1}{n}", inputs.describe());
    let hash = hash64(key.as_bytes());
    if cx.dry {
        let mut r = CaseResult::discard("dry");
        r.render = Some(json!({"text": src, "n": n, "inputs": inputs.describe()}));
        return r;
    }
    let mut o = check(p, &src, inputs, n);
    if let (Some(exp), None, None) = (expected, &o.fail, &o.discard) {
        // calibration: the reference must also reproduce the fixture's stated vector
        match reference(p, inputs, n) {
            Ok(w) => {
                let flat: Vec<f64> = w.iter().flatten().map(|b| f64::from_bits(*b)).collect();
                if flat != exp {
                    o.fail = Some(("c02:calibration:reference-differs-from-fixture".into(), format!("reference {:?} vs fixture expectation {:?}", flat, exp)));
                }
            }
            Err(u) => o.fail = Some(("c02:calibration:reference-unsupported".into(), u.0)),
        }
    } else if expected.is_some() && o.discard.is_some() {
        o.fail = Some(("c02:calibration:discarded".into(), o.discard.clone().unwrap()));
        o.discard = None;
    }
    if let Some(w) = o.discard {
        return CaseResult::discard(w);
    }
    let mut r = match &o.fail {
        Some((s, m)) => CaseResult::fail(hash, s.clone(), m.clone()),
        None => CaseResult::held(hash),
    };
    r.classes = classes;
    if o.varying {
        r.classes.push("output-varies".into());
    }
    r.nontrivial = (stateful && n >= 3 && o.varying) || r.is_fail();
    if cx.render || r.is_fail() {
        r.render = Some(json!({"text": src, "inputs": inputs.describe(), "n": n}));
    }
    r
}

impl Prop for C02 {
    fn id(&self) -> &'static str {
        "C02"
    }
    fn spaces(&self, tier: Tier) -> Vec<Space> {
        let cal = calibration().len() as u64;
        match tier {
            Tier::Quick => vec![
                Space { name: "calibration", size: cal, exhaustive: true, chunk: 1, case_timeout_s: 30.0, what: "fixtures of the repository transcribed into the harness AST, with their expected vectors" },
                Space { name: "gen", size: 60_000, exhaustive: false, chunk: 1000, case_timeout_s: 30.0, what: "generated programs of the core fragment x input streams x run lengths" },
            ],
            Tier::Thorough => vec![
                Space { name: "calibration", size: cal, exhaustive: true, chunk: 1, case_timeout_s: 30.0, what: "fixtures of the repository transcribed into the harness AST, with their expected vectors" },
                Space { name: "gen", size: 800_000, exhaustive: false, chunk: 2000, case_timeout_s: 30.0, what: "generated programs of the core fragment x input streams x run lengths" },
            ],
        }
    }
    fn run(&self, space: &str, index: u64, g: &mut Gen, cx: &Cx) -> CaseResult {
        if space == "calibration" {
            let c = calibration();
            let (name, p, n, exp) = &c[index as usize];
            let mut r = finish(p, &Inputs { kind: 0, scale: 1.0 }, *n, vec![format!("calibration:{name}")], true, cx, Some(exp));
            r.classes.push("mode:calibration".into());
            r.nontrivial = true;
            return r;
        }
        let (cfg, off) = cfg_a(cx);
        // a third of the programs are small (a handful of lines)
        let small = g.bool(1, 3);
        let cfg = if small { cfg.small(g) } else { cfg };
        let mut pg = PG::new(g, cfg);
        let mut p = pg.program();
        let feat = pg.feat.clone();
        let inputs = gen_inputs(g);
        let n = *g.pick(&[8u64, 4, 16, 3, 32]);
        // a third of the programs reuse names: binders that shadow earlier locals, globals or
        // top-level functions (alpha-equivalent to the program with distinct names)
        let mut shadowed = (0, 0, 0);
        if g.bool(1, 3) {
            let k = g.int(1, 4) as usize;
            shadowed = crate::gens::shadow::shadow(&mut p, g, k);
        }
        let mut r = finish(&p, &inputs, n, feat.classes(), feat.stateful(), cx, None);
        if shadowed.1 > 0 {
            r.classes.push("shadow:local".into());
        }
        if shadowed.2 > 0 {
            r.classes.push("shadow:top-level-name".into());
        }
        r.classes.push("mode:gen".into());
        r.classes.push(if small { "size:small".into() } else { "size:full".into() });
        for id in off {
            r.count(&format!("generator_switch_off:{id}"), 1);
        }
        r
    }
    /// Pinned replays: a source text with the output words the reference semantics assigns to it
    /// (written down when the finding was recorded).  Search cases replay from their tape.
    fn run_direct(&self, input: &Value, _cx: &Cx) -> Option<CaseResult> {
        let t = input.get("text")?.as_str()?;
        let exp: Vec<f64> = input.get("expected")?.as_array()?.iter().filter_map(|v| v.as_f64()).collect();
        let inputs = Inputs { kind: input.get("input_kind").and_then(|v| v.as_u64()).unwrap_or(1) as u8, scale: input.get("input_scale").and_then(|v| v.as_f64()).unwrap_or(1.0) };
        let n = input.get("n").and_then(|v| v.as_u64()).unwrap_or(1);
        let hash = hash64(t.as_bytes());
        let vm = exec::run_vm(t, &inputs, &RunOpts { n, sched: false, want_state: false, want_counts: false, want_trace: false });
        let mut r = match vm {
            Exec::Ran(a) => {
                let got: Vec<u64> = a.samples.iter().flatten().copied().collect();
                let want: Vec<u64> = exp.iter().map(|x| x.to_bits()).collect();
                if got.len() == want.len() && got.iter().zip(want.iter()).all(|(x, y)| canon(*x) == canon(*y)) {
                    CaseResult::held(hash)
                } else {
                    CaseResult::fail(hash, "c02:output-differs", format!("VM {:?}, reference semantics {:?}", got.iter().map(|b| f64::from_bits(*b)).collect::<Vec<_>>(), exp))
                }
            }
            other => CaseResult::fail(hash, "c02:pinned-program-did-not-run", format!("{other:?}").chars().take(300).collect::<String>()),
        };
        r.render = Some(json!({"text": t, "expected": exp}));
        r.nontrivial = true;
        Some(r)
    }
    fn rule(&self) -> String {
        "Cases are (program of the core fragment CoreGen-A, input stream, run length). CoreGen-A: arithmetic/comparison/logic, builtins, let with tuple/record patterns, if with comparison conditions, blocks with assignments, named functions, lambdas, local closures (read-only capture), counter-maker closures bound at global scope, higher-order functions receiving lambdas or stateless named functions, pipes, self (scalar and tuple), mem, delay with a time in [1, N-1] that is a literal or changes from sample to sample (`if (cmp) { t1 } else { t2 }`, `t0 + now % k`), now, samplerate, 0-1 dsp inputs. In a third of the programs 1-4 binders are renamed to a name that already occurs earlier in the same function or at top level (a shadowing let, a lambda parameter named like a local of the enclosing frame, a local named like a global or a top-level function), only where every occurrence of the reused name lies textually before the new binder, so lexical scoping gives the same meaning as with distinct names. Oracle: an independent reference interpreter written from the property statement (environments of shared cells, strict left-to-right evaluation, a state tree keyed by textual call site, self = previous return value, mem = one-sample delay, delay = history lookup) must agree bitwise (NaN=NaN) with the VM on every output word of every sample. A calibration space replays 8 fixtures of the repository transcribed into the harness AST and checks the reference against the fixtures' expected vectors as well. Non-trivial = stateful program, >= 3 samples, output varies over time.".into()
    }
    fn assumptions(&self) -> Vec<String> {
        vec![
            "the reference interpreter is the trusted base; it is calibrated against 8 repository fixtures and their expected vectors".into(),
            "constructs whose meaning the statement does not fix are not generated: stateful code inside if arms and several delays per function (also VM findings), NaN conditions, delay times outside [1, N-1], closures created per sample that own state, variables shared between a frame and a closure after the closure was passed on".into(),
            "VM crashes are left to C03 (the case is discarded and counted)".into(),
        ]
    }
    fn required_classes(&self, _tier: Tier) -> Vec<&'static str> {
        vec!["mode:calibration", "output-varies", "f:self", "f:tuple-self", "f:mem", "f:delay", "f:stateful-call", "f:nested-stateful", "f:same-fn-many-sites", "f:maker-closure", "f:local-closure", "f:hof", "f:assign", "f:record", "shadow:local", "shadow:top-level-name", "f:varying-delay-time"]
    }
}
