//! mmv library: engine, generators, property modules and runners of the mimium-rs property-testing
//! harness.  The worker binary (src/main.rs) and the cargo-fuzz targets (fuzz/) are thin front ends.

pub mod engine;
pub mod fuzzentry;
pub mod gens;
pub mod props;
pub mod runners;
