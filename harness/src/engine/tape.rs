//! Choice-tape generator API.  A case is a pure function of its tape.
//!
//! Every draw records the *choice offset* (0 = minimal choice), so lowering a
//! tape word lowers the choice and an exhausted tape decodes to the minimal case.

use super::rng::Rng;

enum Mode {
    Random(Rng),
    Replay(Vec<u64>),
    /// coverage-guided fuzzing: the tape is what the fuzzer mutates (16-bit words); a word is reduced
    /// modulo the number of alternatives (not clamped) so that every byte value reaches every
    /// alternative; `used` records the reduced choices, i.e. an ordinary replay tape
    Fuzz(Vec<u64>),
}

pub struct Gen {
    mode: Mode,
    pos: usize,
    /// choices actually used (canonical tape of this run)
    pub used: Vec<u64>,
    /// recorded spans (start, end) over `used`, for structured deletion while shrinking
    pub spans: Vec<(usize, usize)>,
    /// hard cap on the number of draws: protects against runaway recursive generators
    pub max_draws: usize,
    /// optional crash-safe spill of the tape (shared file mapping: word 0 = count, then draws)
    spill: *mut u64,
    spill_cap: usize,
}

impl Gen {
    pub fn random(rng: Rng) -> Self {
        Gen { mode: Mode::Random(rng), pos: 0, used: Vec::new(), spans: Vec::new(), max_draws: 200_000, spill: std::ptr::null_mut(), spill_cap: 0 }
    }
    /// tape read from fuzzer bytes: two bytes per draw (little endian)
    pub fn fuzz(data: &[u8]) -> Self {
        let tape: Vec<u64> = data.chunks(2).map(|c| c[0] as u64 | ((*c.get(1).unwrap_or(&0) as u64) << 8)).collect();
        Gen { mode: Mode::Fuzz(tape), pos: 0, used: Vec::new(), spans: Vec::new(), max_draws: 200_000, spill: std::ptr::null_mut(), spill_cap: 0 }
    }
    pub fn replay(tape: Vec<u64>) -> Self {
        Gen { mode: Mode::Replay(tape), pos: 0, used: Vec::new(), spans: Vec::new(), max_draws: 200_000, spill: std::ptr::null_mut(), spill_cap: 0 }
    }
    /// Mirror every draw into a shared file mapping so the tape of a case that kills the
    /// process can still be recovered by the driver.
    pub fn spill_to(&mut self, path: &str) {
        use std::os::fd::AsRawFd;
        let cap = 1 << 16;
        let Ok(f) = std::fs::OpenOptions::new().read(true).write(true).create(true).truncate(true).open(path) else { return };
        if f.set_len((cap as u64 + 1) * 8).is_err() {
            return;
        }
        let p = unsafe { libc::mmap(std::ptr::null_mut(), (cap + 1) * 8, libc::PROT_READ | libc::PROT_WRITE, libc::MAP_SHARED, f.as_raw_fd(), 0) };
        if p != libc::MAP_FAILED {
            self.spill = p as *mut u64;
            self.spill_cap = cap;
        }
    }
    pub fn exhausted(&self) -> bool {
        self.used.len() >= self.max_draws
    }
    /// Core draw: value in [0, n).  `pick` decides the random choice given the rng.
    fn draw(&mut self, n: u64, pick: impl FnOnce(&mut Rng) -> u64) -> u64 {
        debug_assert!(n > 0);
        if self.used.len() >= self.max_draws {
            self.used.push(0);
            return 0;
        }
        let v = match &mut self.mode {
            Mode::Random(r) => pick(r).min(n - 1),
            Mode::Replay(t) => {
                let v = t.get(self.pos).copied().unwrap_or(0);
                v.min(n - 1)
            }
            Mode::Fuzz(t) => {
                if n > 1 << 16 {
                    // wide draws (float bit patterns, large ranges) take four tape words
                    let mut v = 0u64;
                    for k in 0..4 {
                        v |= t.get(self.pos + k).copied().unwrap_or(0) << (16 * k);
                    }
                    self.pos += 3;
                    if n == u64::MAX { v } else { v % n }
                } else {
                    t.get(self.pos).copied().unwrap_or(0) % n
                }
            }
        };
        self.pos += 1;
        if !self.spill.is_null() && self.used.len() < self.spill_cap {
            unsafe {
                std::ptr::write_volatile(self.spill.add(1 + self.used.len()), v);
                std::ptr::write_volatile(self.spill, self.used.len() as u64 + 1);
            }
        }
        self.used.push(v);
        v
    }
    /// uniform in [0, n)
    pub fn below(&mut self, n: u64) -> u64 {
        if n <= 1 {
            return 0;
        }
        self.draw(n, |r| r.below(n))
    }
    pub fn usize_below(&mut self, n: usize) -> usize {
        self.below(n as u64) as usize
    }
    /// uniform integer in lo..=hi, minimal choice = lo
    pub fn int(&mut self, lo: i64, hi: i64) -> i64 {
        debug_assert!(lo <= hi);
        let n = (hi - lo) as u64 + 1;
        lo + self.below(n) as i64
    }
    /// integer in lo..=hi biased towards small offsets (geometric-ish); minimal = lo
    pub fn int_small(&mut self, lo: i64, hi: i64) -> i64 {
        debug_assert!(lo <= hi);
        let n = (hi - lo) as u64 + 1;
        if n <= 1 {
            return lo;
        }
        lo + self.draw(n, |r| {
            let a = r.below(n);
            let b = r.below(n);
            a.min(b)
        }) as i64
    }
    /// true with probability num/den; minimal choice = false
    pub fn bool(&mut self, num: u32, den: u32) -> bool {
        self.draw(2, |r| (r.below(den as u64) < num as u64) as u64) == 1
    }
    pub fn coin(&mut self) -> bool {
        self.bool(1, 2)
    }
    pub fn pick<'a, T>(&mut self, xs: &'a [T]) -> &'a T {
        assert!(!xs.is_empty());
        &xs[self.usize_below(xs.len())]
    }
    /// index chosen with the given weights; minimal choice = index 0
    pub fn weighted(&mut self, ws: &[u32]) -> usize {
        assert!(!ws.is_empty());
        let total: u64 = ws.iter().map(|w| *w as u64).sum();
        if total == 0 {
            return 0;
        }
        let n = ws.len() as u64;
        let v = self.draw_weighted_raw(n, ws, total);
        // a replayed / shrunk tape may name an alternative whose weight is 0 (switched off):
        // fall back to the nearest enabled alternative below it, else the first enabled one
        if ws[v] > 0 {
            return v;
        }
        let fixed = (0..v).rev().find(|i| ws[*i] > 0).or_else(|| (0..ws.len()).find(|i| ws[*i] > 0)).unwrap_or(0);
        if let Some(last) = self.used.last_mut() {
            *last = fixed as u64;
        }
        fixed
    }
    fn draw_weighted_raw(&mut self, n: u64, ws: &[u32], total: u64) -> usize {
        self.draw(n, |r| {
            let mut x = r.below(total);
            for (i, w) in ws.iter().enumerate() {
                if x < *w as u64 {
                    return i as u64;
                }
                x -= *w as u64;
            }
            n - 1
        }) as usize
    }
    /// any 64 bit word (for float bit patterns etc.); minimal = 0
    pub fn word(&mut self) -> u64 {
        self.draw(u64::MAX, |r| r.next())
    }
    /// labelled sub-span (used by the shrinker for structured deletion)
    pub fn span<T>(&mut self, f: impl FnOnce(&mut Gen) -> T) -> T {
        let s = self.used.len();
        let v = f(self);
        let e = self.used.len();
        if e > s {
            self.spans.push((s, e));
        }
        v
    }
    /// list with `min..=max` elements.  Encoded with continue-flags so that deleting
    /// one element's span (flag included) removes exactly that element.
    pub fn vec<T>(&mut self, min: usize, max: usize, mut f: impl FnMut(&mut Gen) -> T) -> Vec<T> {
        debug_assert!(min <= max);
        // In random mode the target length is drawn uniformly (not recorded); the
        // recorded flags encode it.
        let target = match &mut self.mode {
            Mode::Random(r) => min + r.below((max - min) as u64 + 1) as usize,
            Mode::Replay(_) | Mode::Fuzz(_) => 0,
        };
        let mut out = Vec::new();
        loop {
            if out.len() >= max {
                break;
            }
            let s = self.used.len();
            let more = if out.len() < min {
                true
            } else {
                let len = out.len();
                self.draw(2, |_| (len < target) as u64) == 1
            };
            if !more {
                break;
            }
            let v = f(self);
            let e = self.used.len();
            if e > s {
                self.spans.push((s, e));
            }
            out.push(v);
            if self.exhausted() {
                break;
            }
        }
        out
    }
    /// Fisher–Yates permutation of 0..n; minimal = identity
    pub fn perm(&mut self, n: usize) -> Vec<usize> {
        let mut p: Vec<usize> = (0..n).collect();
        for i in 0..n.saturating_sub(1) {
            let j = i + self.usize_below(n - i);
            p.swap(i, j);
        }
        p
    }
}
