//! Chunk runner, single-case runner, shrinking driver.

use super::case::*;
use super::tape::Gen;
use super::panics;
use super::rng::{splitmix64, Rng};
use super::shrink::{self, Tested};
use serde_json::{json, Map, Value};
use std::collections::BTreeMap;
use std::io::Write;
use std::time::Instant;

/// 16-byte journal kept in a shared file mapping: survives SIGSEGV/abort of the worker.
pub struct Journal {
    ptr: *mut u64,
}
impl Journal {
    pub fn open(path: &str) -> Journal {
        use std::os::fd::AsRawFd;
        let f = std::fs::OpenOptions::new().read(true).write(true).create(true).truncate(true).open(path).expect("journal open");
        f.set_len(16).unwrap();
        let p = unsafe { libc::mmap(std::ptr::null_mut(), 16, libc::PROT_READ | libc::PROT_WRITE, libc::MAP_SHARED, f.as_raw_fd(), 0) };
        assert!(p != libc::MAP_FAILED, "mmap failed");
        let j = Journal { ptr: p as *mut u64 };
        j.set(u64::MAX, 0);
        j
    }
    pub fn none() -> Journal {
        Journal { ptr: std::ptr::null_mut() }
    }
    #[inline]
    pub fn set(&self, index: u64, state: u64) {
        if !self.ptr.is_null() {
            unsafe {
                std::ptr::write_volatile(self.ptr, index);
                std::ptr::write_volatile(self.ptr.add(1), state);
            }
        }
    }
}

pub fn run_case(prop: &dyn Prop, space: &Space, index: u64, cx: &Cx) -> (CaseResult, Vec<u64>) {
    run_case_spill(prop, space, index, cx, None)
}

pub fn run_case_spill(prop: &dyn Prop, space: &Space, index: u64, cx: &Cx, spill: Option<&str>) -> (CaseResult, Vec<u64>) {
    let mut g = if space.exhaustive {
        Gen::replay(vec![])
    } else {
        Gen::random(Rng::for_case(cx.seed, prop.id(), space.name, index))
    };
    if let Some(p) = spill {
        g.spill_to(p);
    }
    let r = panics::catch(|| prop.run(space.name, index, &mut g, cx));
    let used = std::mem::take(&mut g.used);
    match r {
        Ok(r) => (r, used),
        Err(p) => {
            let mut c = CaseResult::fail(0, p.signature(), p.describe());
            c.classes.push("harness-or-target-panic".into());
            (c, used)
        }
    }
}

pub fn run_tape(prop: &dyn Prop, space: &str, index: u64, tape: &[u64], cx: &Cx) -> (CaseResult, Tested) {
    let mut g = Gen::replay(tape.to_vec());
    let r = panics::catch(|| prop.run(space, index, &mut g, cx));
    let t = Tested { used: std::mem::take(&mut g.used), spans: std::mem::take(&mut g.spans) };
    match r {
        Ok(r) => (r, t),
        Err(p) => (CaseResult::fail(0, p.signature(), p.describe()), t),
    }
}

pub fn run_direct(prop: &dyn Prop, input: &Value, cx: &Cx) -> Option<CaseResult> {
    match panics::catch(|| prop.run_direct(input, cx)) {
        Ok(r) => r,
        Err(p) => Some(CaseResult::fail(0, p.signature(), p.describe())),
    }
}

fn status_json(s: &Status) -> Value {
    match s {
        Status::Held => json!("held"),
        Status::Fail { sig, msg } => json!({"fail": sig, "msg": msg}),
        Status::Discard(w) => json!({"discard": w}),
    }
}

pub struct ChunkArgs {
    pub space: String,
    pub from: u64,
    pub to: u64,
    pub out: String,
    pub journal: Option<String>,
    pub hashes: Option<String>,
}

pub fn run_chunk(prop: &dyn Prop, cx_base: &Cx, a: &ChunkArgs) -> i32 {
    let spaces = prop.spaces(cx_base.tier);
    let Some(space) = spaces.iter().find(|s| s.name == a.space) else {
        eprintln!("unknown space {}", a.space);
        return 2;
    };
    let journal = a.journal.as_deref().map(Journal::open).unwrap_or_else(Journal::none);
    let t0 = Instant::now();
    let mut evaluated = 0u64;
    let mut held = 0u64;
    let mut failed = 0u64;
    let mut discarded = 0u64;
    let mut nontrivial = 0u64;
    let mut classes: BTreeMap<String, u64> = BTreeMap::new();
    let mut counters: BTreeMap<String, u64> = BTreeMap::new();
    let mut discards: BTreeMap<String, u64> = BTreeMap::new();
    let mut fail_sigs: BTreeMap<String, u64> = BTreeMap::new();
    let mut failures: Vec<Value> = vec![];
    let mut samples: Vec<Value> = vec![];
    let mut hashes: Vec<u64> = vec![];
    let n = a.to - a.from;
    let sample_mod = (n / 3).max(1);
    let mut max_case_s = 0f64;
    for index in a.from..a.to {
        journal.set(index, 1);
        let mut x = index ^ cx_base.seed.rotate_left(13) ^ 0x5EED;
        let want = samples.len() < 4 && (index == a.from || splitmix64(&mut x) % sample_mod == 0);
        let cx = cx_base.with_render(want);
        let tc = Instant::now();
        let (mut r, used) = run_case(prop, space, index, &cx);
        let dt = tc.elapsed().as_secs_f64();
        if dt > max_case_s {
            max_case_s = dt;
        }
        evaluated += 1;
        for c in &r.classes {
            *classes.entry(c.clone()).or_default() += 1;
        }
        for (k, v) in &r.counters {
            *counters.entry(k.clone()).or_default() += *v;
        }
        match &r.status {
            Status::Held => held += 1,
            Status::Discard(w) => {
                discarded += 1;
                *discards.entry(w.clone()).or_default() += 1;
            }
            Status::Fail { sig, msg } => {
                failed += 1;
                let c = fail_sigs.entry(sig.clone()).or_default();
                *c += 1;
                if *c <= 3 && failures.len() < 60 {
                    if r.render.is_none() && !space.exhaustive {
                        // re-run with rendering for the report
                        let cx2 = cx.with_render(true);
                        let (r2, _) = run_tape(prop, space.name, index, &used, &cx2);
                        if r2.render.is_some() {
                            r.render = r2.render;
                        }
                        if r.direct.is_none() {
                            r.direct = r2.direct;
                        }
                    } else if r.render.is_none() {
                        let cx2 = cx.with_render(true);
                        let (r2, _) = run_case(prop, space, index, &cx2);
                        r.render = r2.render;
                        if r.direct.is_none() {
                            r.direct = r2.direct;
                        }
                    }
                    failures.push(json!({
                        "space": space.name, "index": index, "signature": sig, "message": msg,
                        "tape": used, "direct": r.direct, "render": r.render, "classes": r.classes,
                    }));
                }
            }
        }
        if r.nontrivial && !matches!(r.status, Status::Discard(_)) {
            nontrivial += 1;
            hashes.push(r.hash);
        }
        if want && r.render.is_some() && !matches!(r.status, Status::Discard(_)) {
            samples.push(json!({"space": space.name, "index": index, "case": r.render, "classes": r.classes, "verdict": status_json(&r.status), "nontrivial": r.nontrivial}));
        }
    }
    journal.set(u64::MAX, 2);
    if let Some(hp) = &a.hashes {
        let mut f = std::fs::File::create(hp).expect("hash file");
        let mut buf = Vec::with_capacity(hashes.len() * 8);
        for h in &hashes {
            buf.extend_from_slice(&h.to_le_bytes());
        }
        f.write_all(&buf).unwrap();
    }
    let out = json!({
        "prop": prop.id(), "space": space.name, "from": a.from, "to": a.to,
        "evaluated": evaluated, "held": held, "failed": failed, "discarded": discarded,
        "nontrivial": nontrivial, "classes": classes, "counters": counters, "discards": discards,
        "fail_sigs": fail_sigs, "failures": failures, "samples": samples,
        "wall_s": t0.elapsed().as_secs_f64(), "max_case_s": max_case_s,
    });
    std::fs::write(&a.out, serde_json::to_vec(&out).unwrap()).expect("write chunk result");
    0
}

/// Replay one case from a replay file.  Prefers `direct` when the property supports it.
pub fn run_replay(prop: &dyn Prop, rep: &Value, cx: &Cx, spill: Option<&str>) -> CaseResult {
    if let Some(d) = rep.get("direct") {
        if !d.is_null() {
            if let Some(r) = run_direct(prop, d, cx) {
                return r;
            }
        }
    }
    if let Some(f) = rep.get("fuzz") {
        // a raw fuzzer input that could not be turned into a direct input or a tape (it kills the
        // process): {"target": name, "hex": bytes}
        let t = f.get("target").and_then(|v| v.as_str()).unwrap_or("");
        let h = f.get("hex").and_then(|v| v.as_str()).unwrap_or("");
        let data: Vec<u8> = (0..h.len() / 2).filter_map(|i| u8::from_str_radix(&h[2 * i..2 * i + 2], 16).ok()).collect();
        if let Some(o) = crate::fuzzentry::run(t, &data, cx.strict, cx.render) {
            return o.result;
        }
    }
    let space = rep.get("space").and_then(|v| v.as_str()).unwrap_or("").to_string();
    let index = rep.get("index").and_then(|v| v.as_u64()).unwrap_or(0);
    let tape: Vec<u64> = rep.get("tape").and_then(|v| v.as_array()).map(|a| a.iter().filter_map(|x| x.as_u64()).collect()).unwrap_or_default();
    let spaces = prop.spaces(cx.tier);
    let sp = spaces.iter().find(|s| s.name == space);
    if let Some(sp) = sp {
        let regenerate = rep.get("regenerate").and_then(|v| v.as_bool()).unwrap_or(false);
        if sp.exhaustive || regenerate {
            // exhaustive cases are addressed by index; `regenerate` re-derives a random case
            // from (seed, property, space, index) — used for cases that killed their worker
            let seed = rep.get("seed").and_then(|v| v.as_u64()).unwrap_or(cx.seed);
            let mut cx2 = cx.with_render(cx.render);
            cx2.seed = seed;
            return run_case_spill(prop, sp, index, &cx2, spill).0;
        }
    }
    run_tape(prop, &space, index, &tape, cx).0
}

pub fn result_json(r: &CaseResult) -> Value {
    let mut m = Map::new();
    m.insert("status".into(), status_json(&r.status));
    m.insert("nontrivial".into(), json!(r.nontrivial));
    m.insert("classes".into(), json!(r.classes));
    m.insert("render".into(), r.render.clone().unwrap_or(Value::Null));
    m.insert("direct".into(), r.direct.clone().unwrap_or(Value::Null));
    Value::Object(m)
}

/// Shrink a failing replay in-process.  `isolate`: each candidate runs in a child process
/// (`exe one ...`) so that fatal signals can be shrunk too.
pub fn shrink_replay(prop: &dyn Prop, rep: &Value, cx: &Cx, budget: usize, isolate: Option<&dyn Fn(&Value) -> Option<String>>) -> Value {
    let want_sig = rep.get("signature").and_then(|v| v.as_str()).unwrap_or("").to_string();
    let space = rep.get("space").and_then(|v| v.as_str()).unwrap_or("").to_string();
    let index = rep.get("index").and_then(|v| v.as_u64()).unwrap_or(0);
    let mut out = rep.clone();
    let same = |r: &CaseResult| matches!(&r.status, Status::Fail { sig, .. } if *sig == want_sig);

    // direct input?
    let direct = rep.get("direct").cloned().unwrap_or(Value::Null);
    let supports_direct = !direct.is_null() && isolate.is_none() && run_direct(prop, &direct, cx).is_some();
    let tape: Vec<u64> = rep.get("tape").and_then(|v| v.as_array()).map(|a| a.iter().filter_map(|x| x.as_u64()).collect()).unwrap_or_default();

    let spaces = prop.spaces(cx.tier);
    let exhaustive = spaces.iter().find(|s| s.name == space).map(|s| s.exhaustive).unwrap_or(false);

    if !exhaustive && (!tape.is_empty() || direct.is_null()) {
        // tape shrinking
        let mut test = |cand: &[u64]| -> Option<Tested> {
            if let Some(iso) = isolate {
                let v = json!({"space": space, "index": index, "tape": cand});
                let sig = iso(&v)?;
                if sig == want_sig {
                    // need the canonical tape: re-decode is unsafe for fatal cases, keep the candidate
                    return Some(Tested { used: cand.to_vec(), spans: vec![] });
                }
                None
            } else {
                let (r, t) = run_tape(prop, &space, index, cand, cx);
                if same(&r) { Some(t) } else { None }
            }
        };
        let start = match test(&tape) {
            Some(t) => t,
            None => {
                out["shrink"] = json!({"error": "initial case does not reproduce its signature"});
                return out;
            }
        };
        let (best, st) = shrink::shrink_tape(start, budget, &mut test);
        out["tape"] = json!(best);
        out["shrink"] = json!({"candidates": st.candidates, "accepted": st.accepted, "mode": "tape"});
        if isolate.is_none() {
            let cx2 = cx.with_render(true);
            let (r, _) = run_tape(prop, &space, index, &best, &cx2);
            if let Status::Fail { msg, .. } = &r.status {
                out["message"] = json!(msg);
            }
            out["render"] = r.render.unwrap_or(Value::Null);
            out["direct"] = r.direct.unwrap_or(Value::Null);
        } else {
            out["direct"] = Value::Null;
        }
        return out;
    }
    if supports_direct || (!direct.is_null() && isolate.is_some()) {
        // direct shrinking through the property's candidate function (greedy)
        let mut cur = direct.clone();
        let mut cands = 0usize;
        let mut acc = 0usize;
        let mut improved = true;
        while improved && cands < budget {
            improved = false;
            for c in prop.shrink_direct(&cur) {
                if cands >= budget {
                    break;
                }
                cands += 1;
                let ok = if let Some(iso) = isolate {
                    iso(&json!({"direct": c})).map(|s| s == want_sig).unwrap_or(false)
                } else {
                    run_direct(prop, &c, cx).map(|r| same(&r)).unwrap_or(false)
                };
                if ok {
                    cur = c;
                    acc += 1;
                    improved = true;
                    break;
                }
            }
        }
        out["direct"] = cur.clone();
        out["tape"] = json!([]);
        out["shrink"] = json!({"candidates": cands, "accepted": acc, "mode": "direct"});
        if isolate.is_none() {
            let cx2 = cx.with_render(true);
            if let Some(r) = run_direct(prop, &cur, &cx2) {
                if let Status::Fail { msg, .. } = &r.status {
                    out["message"] = json!(msg);
                }
                if r.render.is_some() {
                    out["render"] = r.render.unwrap();
                }
            }
        }
    }
    out
}

/// the JSON a child `mmv` process printed after the marker `MMVRESULT ` (programs under test may
/// print to stdout themselves)
pub fn child_result(stdout: &[u8]) -> Result<Value, String> {
    let text = String::from_utf8_lossy(stdout);
    let line = text.lines().rev().find_map(|l| l.strip_prefix("MMVRESULT ")).ok_or("no result line")?;
    serde_json::from_str(line).map_err(|e| e.to_string())
}
