pub mod case;
pub mod tape;
pub mod panics;
pub mod rng;
pub mod shrink;
pub mod worker;
