//! Case results, property trait, search spaces.

use super::tape::Gen;
use serde_json::Value;

#[derive(Clone, Debug, PartialEq)]
pub enum Status {
    /// the oracle held on this case
    Held,
    /// the oracle failed: (signature, human message)
    Fail { sig: String, msg: String },
    /// the case is outside the property's domain (counted, never a verdict)
    Discard(String),
}

#[derive(Clone, Debug)]
pub struct CaseResult {
    pub status: Status,
    /// non-trivial by the property's stated rule
    pub nontrivial: bool,
    /// class labels for the distribution report
    pub classes: Vec<String>,
    /// stable hash of the rendered case (distinctness)
    pub hash: u64,
    /// rendered case (filled when `Cx::render` is set or on failure)
    pub render: Option<Value>,
    /// property-specific direct input for replay (preferred over the tape when present)
    pub direct: Option<Value>,
    /// free counters merged into evidence (e.g. excluded_by_known_finding)
    pub counters: Vec<(String, u64)>,
}

impl CaseResult {
    pub fn held(hash: u64) -> Self {
        CaseResult { status: Status::Held, nontrivial: false, classes: vec![], hash, render: None, direct: None, counters: vec![] }
    }
    pub fn fail(hash: u64, sig: impl Into<String>, msg: impl Into<String>) -> Self {
        CaseResult {
            status: Status::Fail { sig: sig.into(), msg: msg.into() },
            nontrivial: true,
            classes: vec![],
            hash,
            render: None,
            direct: None,
            counters: vec![],
        }
    }
    pub fn discard(why: impl Into<String>) -> Self {
        CaseResult { status: Status::Discard(why.into()), nontrivial: false, classes: vec![], hash: 0, render: None, direct: None, counters: vec![] }
    }
    pub fn class(mut self, c: impl Into<String>) -> Self {
        self.classes.push(c.into());
        self
    }
    pub fn count(&mut self, k: &str, n: u64) {
        if let Some(e) = self.counters.iter_mut().find(|(kk, _)| kk == k) {
            e.1 += n;
        } else {
            self.counters.push((k.to_string(), n));
        }
    }
    pub fn is_fail(&self) -> bool {
        matches!(self.status, Status::Fail { .. })
    }
}

#[derive(Clone, Copy, Debug, PartialEq, Eq)]
pub enum Tier {
    Quick,
    Thorough,
}
impl Tier {
    pub fn parse(s: &str) -> Tier {
        if s == "thorough" { Tier::Thorough } else { Tier::Quick }
    }
    pub fn name(&self) -> &'static str {
        match self {
            Tier::Quick => "quick",
            Tier::Thorough => "thorough",
        }
    }
}

#[derive(Clone, Debug)]
pub struct Space {
    pub name: &'static str,
    /// number of cases (indices 0..size)
    pub size: u64,
    /// true: indices enumerate a finite space completely (Gen is unused / minimal)
    pub exhaustive: bool,
    /// preferred cases per worker chunk
    pub chunk: u64,
    /// per-case wall limit in seconds for the watchdog (chunk limit = this × chunk, floored)
    pub case_timeout_s: f64,
    /// description for evidence
    pub what: &'static str,
}

/// Per-run context handed to the property.
pub struct Cx {
    pub tier: Tier,
    pub seed: u64,
    /// the caller wants `render` filled
    pub render: bool,
    /// strict mode (replay): known-finding tolerances are off
    pub strict: bool,
    /// known-finding exclusions that are switched OFF (ids), i.e. search inside known defects
    pub no_exclude: Vec<String>,
    /// generate and render only, do not run the code under test (used to describe a case
    /// that kills the process)
    pub dry: bool,
}
impl Cx {
    pub fn with_render(&self, render: bool) -> Cx {
        Cx { tier: self.tier, seed: self.seed, render, strict: self.strict, no_exclude: self.no_exclude.clone(), dry: self.dry }
    }
    pub fn excluded(&self, finding: &str) -> bool {
        !self.no_exclude.iter().any(|x| x == finding || x == "all")
    }
}

pub trait Prop: Sync {
    fn id(&self) -> &'static str;
    fn spaces(&self, tier: Tier) -> Vec<Space>;
    /// Run case `index` of `space`.  For random spaces `g` is seeded from
    /// (seed, property, space, index); for exhaustive spaces `g` is an empty replay tape.
    fn run(&self, space: &str, index: u64, g: &mut Gen, cx: &Cx) -> CaseResult;
    /// Run a direct input (from a replay file or a fuzzer artefact).
    fn run_direct(&self, _input: &Value, _cx: &Cx) -> Option<CaseResult> {
        None
    }
    /// Candidate simplifications of a direct input (for shrinking non-tape cases).
    fn shrink_direct(&self, _input: &Value) -> Vec<Value> {
        vec![]
    }
    /// Evidence text: how cases are generated and what makes one non-trivial.
    fn rule(&self) -> String;
    /// Assumptions / trusted base for the evidence file.
    fn assumptions(&self) -> Vec<String> {
        vec![]
    }
    /// whether a case that does not return is a violation of this property (C03, C04) or merely
    /// an inconclusive, discarded case (everything else)
    fn hang_is_violation(&self) -> bool {
        false
    }
    /// evidence level (must equal MANIFEST level_claimed.category)
    fn level(&self) -> &'static str {
        "exploration"
    }
    /// stop the search once this many cases have failed (0 = the driver's default: a large budget in
    /// the quick tier, none in the thorough tier).  For properties whose failing cases are very
    /// expensive (C19: every hang costs its wall limit twice).
    fn fail_budget(&self) -> u64 {
        0
    }
    /// class labels that must occur at least once per run (generator health)
    fn required_classes(&self, _tier: Tier) -> Vec<&'static str> {
        vec![]
    }
}
