//! Tape shrinking.  A candidate is kept only when `test` says it still fails with the
//! same signature; `test` returns the canonical (actually used) tape and its spans.

pub struct Tested {
    pub used: Vec<u64>,
    pub spans: Vec<(usize, usize)>,
}

pub struct ShrinkStats {
    pub candidates: usize,
    pub accepted: usize,
}

fn shortlex_less(a: &[u64], b: &[u64]) -> bool {
    if a.len() != b.len() {
        return a.len() < b.len();
    }
    a < b
}

pub fn shrink_tape(
    start: Tested,
    budget: usize,
    test: &mut dyn FnMut(&[u64]) -> Option<Tested>,
) -> (Vec<u64>, ShrinkStats) {
    let mut cur = start;
    let mut stats = ShrinkStats { candidates: 0, accepted: 0 };
    // drop unused tail
    let mut improved = true;
    let mut rounds = 0;
    while improved && stats.candidates < budget && rounds < 50 {
        improved = false;
        rounds += 1;

        macro_rules! attempt {
            ($cand:expr) => {{
                let cand: Vec<u64> = $cand;
                let mut ok = false;
                if stats.candidates < budget && shortlex_less(&cand, &cur.used) {
                    stats.candidates += 1;
                    if let Some(t) = test(&cand) {
                        if shortlex_less(&t.used, &cur.used) {
                            cur = t;
                            stats.accepted += 1;
                            improved = true;
                            ok = true;
                        }
                    }
                }
                ok
            }};
        }

        // 1. delete labelled spans, largest first
        let mut spans = cur.spans.clone();
        spans.sort_by_key(|(s, e)| std::cmp::Reverse(e - s));
        spans.dedup();
        let mut i = 0;
        while i < spans.len() && stats.candidates < budget {
            let (s, e) = spans[i];
            if e <= cur.used.len() && s < e {
                let mut cand = cur.used.clone();
                cand.drain(s..e);
                if attempt!(cand) {
                    spans = cur.spans.clone();
                    spans.sort_by_key(|(s, e)| std::cmp::Reverse(e - s));
                    spans.dedup();
                    // stay at the same rank: try the next span of similar size
                    continue;
                }
            }
            i += 1;
        }

        // 2. delete blocks of k words
        for k in [32usize, 16, 8, 4, 2, 1] {
            let mut pos = 0;
            while pos + k <= cur.used.len() && stats.candidates < budget {
                let mut cand = cur.used.clone();
                cand.drain(pos..pos + k);
                if !attempt!(cand) {
                    pos += k;
                }
            }
        }

        // 3. zero blocks, then single words
        for k in [8usize, 4, 2, 1] {
            let mut pos = 0;
            while pos + k <= cur.used.len() && stats.candidates < budget {
                if cur.used[pos..pos + k].iter().any(|w| *w != 0) {
                    let mut cand = cur.used.clone();
                    for w in &mut cand[pos..pos + k] {
                        *w = 0;
                    }
                    attempt!(cand);
                }
                pos += k;
            }
        }

        // 4. lower single words: halve, decrement
        let mut pos = 0;
        while pos < cur.used.len() && stats.candidates < budget {
            let w = cur.used[pos];
            if w > 0 {
                let mut done = false;
                for nv in [w / 2, w - 1] {
                    if nv < cur.used.get(pos).copied().unwrap_or(0) {
                        let mut cand = cur.used.clone();
                        cand[pos] = nv;
                        if attempt!(cand) {
                            done = true;
                            break;
                        }
                    }
                }
                if done {
                    continue; // retry same position
                }
            }
            pos += 1;
        }

        // 5. swap adjacent span contents into sorted order is skipped (rarely useful)
    }
    (cur.used, stats)
}

/// Generic text shrinking (delta debugging on chars) for direct text inputs.
pub fn shrink_text(start: &str, budget: usize, test: &mut dyn FnMut(&str) -> bool) -> (String, ShrinkStats) {
    let mut cur: Vec<char> = start.chars().collect();
    let mut stats = ShrinkStats { candidates: 0, accepted: 0 };
    let mut improved = true;
    while improved && stats.candidates < budget {
        improved = false;
        let mut k = (cur.len() / 2).max(1);
        loop {
            let mut pos = 0;
            while pos + k <= cur.len() && stats.candidates < budget {
                let mut cand = cur.clone();
                cand.drain(pos..pos + k);
                let s: String = cand.iter().collect();
                stats.candidates += 1;
                if test(&s) {
                    cur = cand;
                    stats.accepted += 1;
                    improved = true;
                } else {
                    pos += k;
                }
            }
            if k == 1 {
                break;
            }
            k /= 2;
        }
        // simplify characters: replace by 'a' / ' ' / '0'
        for i in 0..cur.len() {
            if stats.candidates >= budget {
                break;
            }
            let c = cur[i];
            let repl = if c.is_alphabetic() && c != 'a' {
                Some('a')
            } else if c.is_ascii_digit() && c != '0' {
                Some('0')
            } else if (c == '\n' || c == '\t' || c == '\r') && c != ' ' {
                Some(' ')
            } else if !c.is_ascii() {
                Some('a')
            } else {
                None
            };
            if let Some(r) = repl {
                let mut cand = cur.clone();
                cand[i] = r;
                let s: String = cand.iter().collect();
                stats.candidates += 1;
                if test(&s) {
                    cur = cand;
                    stats.accepted += 1;
                    improved = true;
                }
            }
        }
    }
    (cur.iter().collect(), stats)
}

/// Candidate simplifications of a text (for `Prop::shrink_direct` of text properties):
/// chunk deletions from large to small, then character simplifications.
pub fn text_candidates(s: &str) -> Vec<String> {
    let cs: Vec<char> = s.chars().collect();
    let n = cs.len();
    let mut out = vec![];
    let mut k = n / 2;
    while k >= 1 {
        let mut pos = 0;
        while pos + k <= n {
            let mut c = cs.clone();
            c.drain(pos..pos + k);
            out.push(c.iter().collect());
            pos += k.max(1);
        }
        if k == 1 {
            break;
        }
        k /= 2;
    }
    if n <= 400 {
        // single-char deletions at every position were covered by k == 1 above; now simplify chars
        for i in 0..n {
            let c = cs[i];
            let repl = if !c.is_ascii() {
                Some('a')
            } else if c.is_ascii_alphabetic() && c != 'a' {
                Some('a')
            } else if c.is_ascii_digit() && c != '0' {
                Some('0')
            } else if c == '\n' || c == '\t' || c == '\r' {
                Some(' ')
            } else {
                None
            };
            if let Some(r) = repl {
                let mut c2 = cs.clone();
                c2[i] = r;
                out.push(c2.iter().collect());
            }
        }
    }
    out
}
