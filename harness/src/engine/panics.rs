//! Panic capture and failure signatures.

use std::cell::RefCell;
use std::panic::{self, AssertUnwindSafe};
use std::sync::Once;

#[derive(Clone, Debug)]
pub struct PanicInfo {
    pub msg: String,
    pub file: String,
    pub line: u32,
}

thread_local! {
    static LAST: RefCell<Option<PanicInfo>> = const { RefCell::new(None) };
}

static HOOK: Once = Once::new();

pub fn install_hook() {
    HOOK.call_once(|| {
        panic::set_hook(Box::new(|info| {
            let msg = if let Some(s) = info.payload().downcast_ref::<&str>() {
                s.to_string()
            } else if let Some(s) = info.payload().downcast_ref::<String>() {
                s.clone()
            } else {
                "<non-string panic payload>".to_string()
            };
            let (file, line) = info.location().map(|l| (l.file().to_string(), l.line())).unwrap_or_default();
            LAST.with(|c| *c.borrow_mut() = Some(PanicInfo { msg, file, line }));
        }));
    });
}

/// Run `f`, converting a panic into `Err(PanicInfo)`.
pub fn catch<T>(f: impl FnOnce() -> T) -> Result<T, PanicInfo> {
    install_hook();
    LAST.with(|c| *c.borrow_mut() = None);
    match panic::catch_unwind(AssertUnwindSafe(f)) {
        Ok(v) => Ok(v),
        Err(_) => Err(LAST.with(|c| c.borrow_mut().take()).unwrap_or(PanicInfo { msg: "<unknown panic>".into(), file: String::new(), line: 0 })),
    }
}

/// crate-relative file: strip everything up to the workspace / registry root.
pub fn rel_file(file: &str) -> String {
    for marker in ["/crates/", "/registry/src/"] {
        if let Some(i) = file.find(marker) {
            let rest = &file[i + marker.len()..];
            if marker == "/registry/src/" {
                // drop the index directory
                return rest.splitn(2, '/').nth(1).unwrap_or(rest).to_string();
            }
            return rest.to_string();
        }
    }
    if let Some(i) = file.find("/rustc/") {
        return format!("rust:{}", file[i + 7..].splitn(2, '/').nth(1).unwrap_or(""));
    }
    file.to_string()
}

/// Normalise a message: digit runs -> '#', long hex -> '#', collapse whitespace, truncate.
pub fn normalise(msg: &str) -> String {
    let mut out = String::with_capacity(msg.len());
    let mut prev_hash = false;
    let mut prev_space = false;
    for ch in msg.chars() {
        if ch.is_ascii_digit() {
            if !prev_hash {
                out.push('#');
                prev_hash = true;
            }
            prev_space = false;
        } else if ch.is_whitespace() {
            if !prev_space {
                out.push(' ');
            }
            prev_space = true;
            prev_hash = false;
        } else {
            out.push(ch);
            prev_hash = false;
            prev_space = false;
        }
    }
    // keep the head of the message: Debug dumps of values, types and user identifiers follow
    // the first bracket / quote and would split one call site into many signatures
    if let Some(i) = out.find(|c| matches!(c, '[' | '{' | '(' | '"' | '`' | '\'')) {
        if i >= 12 {
            out.truncate(i);
        }
    }
    if out.chars().count() > 70 {
        out = out.chars().take(70).collect();
    }
    out.trim_end().to_string()
}

impl PanicInfo {
    /// `panic:<crate-relative file>:<normalised message>` — the line number is *not* part of the key.
    pub fn signature(&self) -> String {
        format!("panic:{}:{}", rel_file(&self.file), normalise(&self.msg))
    }
    pub fn describe(&self) -> String {
        format!("panic at {}:{}: {}", rel_file(&self.file), self.line, self.msg)
    }
}

// ---------------------------------------------------------------------- log sink

use std::sync::atomic::{AtomicU64, Ordering};

/// number of `invalid HeapIdx` warnings the code under test emitted (those paths only warn)
pub static INVALID_HANDLE_WARNINGS: AtomicU64 = AtomicU64::new(0);

struct Sink;
impl log::Log for Sink {
    fn enabled(&self, m: &log::Metadata) -> bool {
        m.level() <= log::Level::Warn
    }
    fn log(&self, r: &log::Record) {
        if r.level() <= log::Level::Warn {
            let msg = format!("{}", r.args());
            if msg.contains("invalid HeapIdx") {
                INVALID_HANDLE_WARNINGS.fetch_add(1, Ordering::Relaxed);
            }
        }
    }
    fn flush(&self) {}
}

pub fn install_log_sink() {
    static S: Sink = Sink;
    let _ = log::set_logger(&S);
    log::set_max_level(log::LevelFilter::Warn);
}
pub fn take_invalid_handle_warnings() -> u64 {
    INVALID_HANDLE_WARNINGS.swap(0, Ordering::Relaxed)
}
