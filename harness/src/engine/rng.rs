//! Deterministic PRNG (splitmix64 seeding + xoshiro256**).  No OS randomness.

#[derive(Clone, Debug)]
pub struct Rng {
    s: [u64; 4],
}

pub fn splitmix64(x: &mut u64) -> u64 {
    *x = x.wrapping_add(0x9E37_79B9_7F4A_7C15);
    let mut z = *x;
    z = (z ^ (z >> 30)).wrapping_mul(0xBF58_476D_1CE4_E5B9);
    z = (z ^ (z >> 27)).wrapping_mul(0x94D0_49BB_1331_11EB);
    z ^ (z >> 31)
}

/// FNV-1a 64 over bytes: used for stable (process independent) hashing.
pub fn fnv1a(bytes: &[u8]) -> u64 {
    let mut h: u64 = 0xcbf2_9ce4_8422_2325;
    for b in bytes {
        h ^= *b as u64;
        h = h.wrapping_mul(0x0000_0100_0000_01B3);
    }
    h
}

/// A better-mixed 64 bit hash of a byte string (fnv + splitmix finaliser).
pub fn hash64(bytes: &[u8]) -> u64 {
    let mut x = fnv1a(bytes);
    splitmix64(&mut x)
}

impl Rng {
    pub fn new(seed: u64) -> Self {
        let mut x = seed;
        let s = [
            splitmix64(&mut x),
            splitmix64(&mut x),
            splitmix64(&mut x),
            splitmix64(&mut x),
        ];
        Rng { s }
    }
    /// Stream for (seed, property, space, case index).
    pub fn for_case(seed: u64, prop: &str, space: &str, index: u64) -> Self {
        let mut x = seed ^ 0xA076_1D64_78BD_642F;
        let a = splitmix64(&mut x);
        let b = hash64(prop.as_bytes());
        let c = hash64(space.as_bytes());
        let mut y = a ^ b.rotate_left(17) ^ c.rotate_left(41) ^ index.wrapping_mul(0xD6E8_FEB8_6659_FD93);
        let z = splitmix64(&mut y);
        Rng::new(z ^ index)
    }
    pub fn next(&mut self) -> u64 {
        let result = self.s[1].wrapping_mul(5).rotate_left(7).wrapping_mul(9);
        let t = self.s[1] << 17;
        self.s[2] ^= self.s[0];
        self.s[3] ^= self.s[1];
        self.s[1] ^= self.s[2];
        self.s[0] ^= self.s[3];
        self.s[2] ^= t;
        self.s[3] = self.s[3].rotate_left(45);
        result
    }
    /// uniform in [0, n)  (n > 0)
    pub fn below(&mut self, n: u64) -> u64 {
        debug_assert!(n > 0);
        // multiply-shift; bias is negligible for our n
        (((self.next() as u128) * (n as u128)) >> 64) as u64
    }
}
